/-
C09 — stickiness of StopIteration for the classes of `IsobarV/Pat/Cls/Seq2.lean`.

`ClsSticky` (for ALL own states) holds for PReverse, PPad, PPadToMultiple, PCounter, PCollapse, PNoRepeats,
PInterpolate, PEuclidean and PArpeggiator.  PPermut is sticky on the states its code can reach (`PermutInv`,
which holds at construction / after `reset()` and is preserved by every step): the generic lifting theorem is
re-derived for trees whose nodes satisfy a per-class state invariant (`sticky_stepF_I`), and instantiated for
this group.  PReset is a selector (a trigger that fires after the pattern has ended restarts it — by design): it
ends for good when its trigger ends (`preset_trigger_sticky`), and is not in the sticky set.
-/
import IsobarV.Props.C09

namespace IsobarV.C09
open IsobarV.Pat

theorem noVal_stop : NoVal .stop := fun _ h => by cases h
theorem noVal_err (e : Err) : NoVal (.err e) := fun _ h => by cases h

/-! ### Loops: the kids stay inside the invariant -/

theorem drainLoop_P {P : Pat → Prop} {rec : Rec} (hrec : RecSticky P rec) (fuel : Nat) (kids : List Pat) (acc : List Val)
    (hk : ∀ k ∈ kids, P k) : ∀ k ∈ (drainLoop rec fuel kids acc).2.1, P k := by
  induction fuel generalizing kids acc with
  | zero => exact hk
  | succ n ih =>
    have s1 := stepKid_P hrec kids 0 hk
    simp only [drainLoop]
    split
    · exact ih _ _ s1
    · exact s1

theorem collapseLoop_P {P : Pat → Prop} {rec : Rec} (hrec : RecSticky P rec) (fuel : Nat) (kids : List Pat)
    (hk : ∀ k ∈ kids, P k) : ∀ k ∈ (collapseLoop rec fuel kids).2, P k := by
  induction fuel generalizing kids with
  | zero => exact hk
  | succ n ih =>
    have s1 := stepKid_P hrec kids 0 hk
    simp only [collapseLoop]
    split
    · exact ih _ s1
    · exact s1

theorem noRepLoop_P {P : Pat → Prop} {rec : Rec} (hrec : RecSticky P rec) (prev : Val) (fuel : Nat) (kids : List Pat)
    (hk : ∀ k ∈ kids, P k) : ∀ k ∈ (noRepLoop rec prev fuel kids).2, P k := by
  induction fuel generalizing kids with
  | zero => exact hk
  | succ n ih =>
    have s1 := stepKid_P hrec kids 0 hk
    simp only [noRepLoop]
    split
    · split
      · exact ih _ s1
      · exact s1
    · exact s1

theorem permBlock_P {P : Pat → Prop} {rec : Rec} (hrec : RecSticky P rec) (c : Nat) (kids : List Pat) (acc : List Val)
    (hk : ∀ k ∈ kids, P k) : ∀ k ∈ (permBlock rec c kids acc).2.1, P k := by
  induction c generalizing kids acc with
  | zero => exact hk
  | succ n ih =>
    have s1 := stepKid_P hrec kids 0 hk
    simp only [permBlock]
    split
    · exact ih _ _ s1
    · exact s1
    · exact s1

theorem interpSkip_P {P : Pat → Prop} {rec : Rec} (hrec : RecSticky P rec) (fuel : Nat) (kids : List Pat) (cur : Val)
    (hk : ∀ k ∈ kids, P k) : ∀ k ∈ (interpSkip rec fuel kids cur).2.1, P k := by
  induction fuel generalizing kids cur with
  | zero => exact hk
  | succ n ih =>
    have s1 := stepKid_P hrec kids 1 hk
    have t1 := stepKid_P hrec (stepKid rec kids 1).2 0 s1
    simp only [interpSkip]
    split
    · split
      · split
        · exact ih _ _ t1
        · exact t1
      · exact s1
    · exact s1

/-- A step of kid `i` that does not yield a value and is `.stop` leaves it dead; used through this wrapper to get
    the `DeadAt` fact from an outcome equation. -/
theorem dead_of_stop {P : Pat → Prop} {rec : Rec} (hrec : RecSticky P rec) {kids : List Pat} {i : Nat}
    (hk : ∀ k ∈ kids, P k) (hs : (stepKid rec kids i).1 = .stop) : DeadAt rec (stepKid rec kids i).2 i :=
  stepKid_stop_dead hrec hk hs

/-! ### PReverse -/

theorem reverse_sticky : ClsSticky .reverse := by
  intro P rec kids st hrec hk
  have hc : clsStep .reverse = stepReverse := rfl
  rw [hc]
  have hP : ∀ k ∈ (stepReverse rec kids st).kids, P k := by
    have h1 := drainLoop_P hrec LOOPFUEL kids [] hk
    simp only [stepReverse]
    repeat' split
    all_goals first | exact h1 | exact hk
  refine ⟨hP, fun hs => ?_⟩
  have key : (stepReverse rec kids st).out = .stop →
      (stepReverse rec kids st).st.n0 ≠ 0 ∧ (stepReverse rec kids st).st.buf = [] := by
    simp only [stepReverse]
    repeat' split
    all_goals first
      | (intro h; cases h; done)
      | (intro _; refine ⟨?_, ?_⟩ <;> first | assumption | simp)
  intro n
  apply clsOuts_noVal stepReverse rec (fun _ st => st.n0 ≠ 0 ∧ st.buf = []) _ n _ _ (key hs)
  intro kids st h
  simp only [stepReverse, if_neg h.1, h.2]
  exact ⟨noVal_stop, h.1, trivial⟩

/-! ### PPad, PPadToMultiple -/

theorem pad_sticky : ClsSticky .pad := by
  intro P rec kids st hrec hk
  have hc : clsStep .pad = stepPad := rfl
  rw [hc]
  have h1 := stepKid_P hrec kids 0 hk
  have hP : ∀ k ∈ (stepPad rec kids st).kids, P k := by
    simp only [stepPad]
    repeat' split
    all_goals exact h1
  refine ⟨hP, fun hs => ?_⟩
  have key : (stepPad rec kids st).out = .stop →
      DeadAt rec (stepPad rec kids st).kids 0 ∧ (stepPad rec kids st).st.n1 ≥ (stepPad rec kids st).st.n0 := by
    simp only [stepPad]
    repeat' split
    all_goals first
      | (intro h; cases h; done)
      | (intro _; exact ⟨dead_of_stop hrec hk (by assumption), by assumption⟩)
  intro n
  apply clsOuts_noVal stepPad rec (fun kids st => DeadAt rec kids 0 ∧ st.n1 ≥ st.n0) _ n _ _ (key hs)
  intro kids st h
  obtain ⟨d1, d2⟩ := h.1.step
  simp only [stepPad]
  split
  · rename_i v hv; exact absurd hv (d1 v)
  · simp only [if_pos h.2]; exact ⟨noVal_stop, d2, h.2⟩
  · exact ⟨noVal_err _, d2, h.2⟩

theorem padToMultiple_sticky : ClsSticky .padToMultiple := by
  intro P rec kids st hrec hk
  have hc : clsStep .padToMultiple = stepPadToMultiple := rfl
  rw [hc]
  have h1 := stepKid_P hrec kids 0 hk
  have hP : ∀ k ∈ (stepPadToMultiple rec kids st).kids, P k := by
    simp only [stepPadToMultiple]
    repeat' split
    all_goals exact h1
  refine ⟨hP, fun hs => ?_⟩
  let I : List Pat → St → Prop := fun kids st => DeadAt rec kids 0 ∧ st.n3 ≥ st.n1 ∧ st.n0 ≠ 0 ∧ st.n2 % st.n0 = 0
  have key : (stepPadToMultiple rec kids st).out = .stop →
      I (stepPadToMultiple rec kids st).kids (stepPadToMultiple rec kids st).st := by
    simp only [stepPadToMultiple]
    repeat' split
    all_goals first
      | (intro h; cases h; done)
      | (intro _; exact ⟨dead_of_stop hrec hk (by assumption), by assumption, by assumption, by assumption⟩)
  intro n
  apply clsOuts_noVal stepPadToMultiple rec I _ n _ _ (key hs)
  intro kids st h
  obtain ⟨hd, h3, h0, hm⟩ := h
  obtain ⟨d1, d2⟩ := hd.step
  simp only [stepPadToMultiple]
  split
  · rename_i v hv; exact absurd hv (d1 v)
  · simp only [if_pos h3, if_neg h0, if_pos hm]; exact ⟨noVal_stop, d2, h3, h0, hm⟩
  · exact ⟨noVal_err _, d2, h3, h0, hm⟩

/-! ### PCounter -/

theorem counter_sticky : ClsSticky .counter := by
  intro P rec kids st hrec hk
  have hc : clsStep .counter = stepCounter := rfl
  rw [hc]
  have h1 := stepKid_P hrec kids 0 hk
  have hkids : ∀ kids st, (stepCounter rec kids st).kids = (stepKid rec kids 0).2 := by
    intro kids st; simp only [stepCounter]; repeat' split
    all_goals rfl
  refine ⟨by rw [hkids]; exact h1, fun hs => ?_⟩
  have key : (stepCounter rec kids st).out = .stop → (stepKid rec kids 0).1 = .stop := by
    simp only [stepCounter]
    repeat' split
    all_goals first
      | (intro h; cases h; done)
      | (intro h; simpa using h)
  have hd : DeadAt rec (stepCounter rec kids st).kids 0 := by rw [hkids]; exact dead_of_stop hrec hk (key hs)
  intro n
  apply clsOuts_noVal stepCounter rec (fun kids _ => DeadAt rec kids 0) _ n _ _ hd
  intro kids st h
  obtain ⟨d1, d2⟩ := h.step
  refine ⟨?_, by rw [hkids]; exact d2⟩
  simp only [stepCounter]
  split
  · rename_i v hv; exact absurd hv (d1 v)
  · rename_i o _; simpa using d1

/-! ### PCollapse, PNoRepeats -/

theorem collapseLoop_stop {P : Pat → Prop} {rec : Rec} (hrec : RecSticky P rec) (fuel : Nat) (kids : List Pat)
    (hk : ∀ k ∈ kids, P k) (hs : (collapseLoop rec fuel kids).1 = .stop) : DeadAt rec (collapseLoop rec fuel kids).2 0 := by
  induction fuel generalizing kids with
  | zero => simp [collapseLoop] at hs
  | succ n ih =>
    have s1 := stepKid_P hrec kids 0 hk
    simp only [collapseLoop] at hs ⊢
    split
    · rename_i h; simp only [h] at hs; exact ih _ s1 hs
    · rename_i o h
      have h2 : (stepKid rec kids 0).1 = .stop := by
        revert hs h
        cases (stepKid rec kids 0).1 with
        | val v => cases v with
          | a x => cases x <;> simp
          | tup xs => simp
        | stop => simp
        | err e => simp
      exact dead_of_stop hrec hk h2

theorem collapseLoop_dead {rec : Rec} (fuel : Nat) (kids : List Pat) (hd : DeadAt rec kids 0) :
    NoVal (collapseLoop rec fuel kids).1 ∧ DeadAt rec (collapseLoop rec fuel kids).2 0 := by
  cases fuel with
  | zero => exact ⟨noVal_err _, hd⟩
  | succ n =>
    obtain ⟨d1, d2⟩ := hd.step
    simp only [collapseLoop]
    split
    · rename_i h; exact absurd h (d1 _)
    · exact ⟨d1, d2⟩

theorem collapse_sticky : ClsSticky .collapse := by
  intro P rec kids st hrec hk
  have hc : clsStep .collapse = stepCollapse := rfl
  rw [hc]
  refine ⟨collapseLoop_P hrec LOOPFUEL kids hk, fun hs => ?_⟩
  have hd : DeadAt rec (stepCollapse rec kids st).kids 0 := collapseLoop_stop hrec LOOPFUEL kids hk hs
  intro n
  apply clsOuts_noVal stepCollapse rec (fun kids _ => DeadAt rec kids 0) _ n _ _ hd
  intro kids st h
  exact collapseLoop_dead LOOPFUEL kids h

theorem noRepLoop_stop {P : Pat → Prop} {rec : Rec} (hrec : RecSticky P rec) (prev : Val) (fuel : Nat) (kids : List Pat)
    (hk : ∀ k ∈ kids, P k) (hs : (noRepLoop rec prev fuel kids).1 = .stop) :
    DeadAt rec (noRepLoop rec prev fuel kids).2 0 := by
  induction fuel generalizing kids with
  | zero => simp [noRepLoop] at hs
  | succ n ih =>
    have s1 := stepKid_P hrec kids 0 hk
    simp only [noRepLoop] at hs ⊢
    split
    · rename_i v h
      simp only [h] at hs
      split
      · rename_i hc; simp only [hc, if_true] at hs; exact ih _ s1 hs
      · rename_i hc; simp [hc] at hs
    · rename_i o h
      have h2 : (stepKid rec kids 0).1 = .stop := by
        revert hs h
        cases (stepKid rec kids 0).1 with
        | val v => simp
        | stop => simp
        | err e => simp
      exact dead_of_stop hrec hk h2

theorem noRepLoop_dead {rec : Rec} (prev : Val) (fuel : Nat) (kids : List Pat) (hd : DeadAt rec kids 0) :
    NoVal (noRepLoop rec prev fuel kids).1 ∧ DeadAt rec (noRepLoop rec prev fuel kids).2 0 := by
  cases fuel with
  | zero => exact ⟨noVal_err _, hd⟩
  | succ n =>
    obtain ⟨d1, d2⟩ := hd.step
    simp only [noRepLoop]
    split
    · rename_i v h; exact absurd h (d1 v)
    · exact ⟨d1, d2⟩

theorem noRepeats_sticky : ClsSticky .noRepeats := by
  intro P rec kids st hrec hk
  have hc : clsStep .noRepeats = stepNoRepeats := rfl
  rw [hc]
  have hkids : ∀ kids st, (stepNoRepeats rec kids st).kids = (noRepLoop rec st.v0 LOOPFUEL kids).2 := by
    intro kids st; simp only [stepNoRepeats]; split <;> rfl
  refine ⟨by rw [hkids]; exact noRepLoop_P hrec st.v0 LOOPFUEL kids hk, fun hs => ?_⟩
  have key : (stepNoRepeats rec kids st).out = .stop → (noRepLoop rec st.v0 LOOPFUEL kids).1 = .stop := by
    simp only [stepNoRepeats]
    split
    · intro h; cases h
    · intro h; simpa using h
  have hd : DeadAt rec (stepNoRepeats rec kids st).kids 0 := by
    rw [hkids]; exact noRepLoop_stop hrec st.v0 LOOPFUEL kids hk (key hs)
  intro n
  apply clsOuts_noVal stepNoRepeats rec (fun kids _ => DeadAt rec kids 0) _ n _ _ hd
  intro kids st h
  obtain ⟨d1, d2⟩ := noRepLoop_dead st.v0 LOOPFUEL kids h
  refine ⟨?_, by rw [hkids]; exact d2⟩
  simp only [stepNoRepeats]
  split
  · rename_i v hv; exact absurd hv (d1 v)
  · simpa using d1

/-! ### PEuclidean -/

theorem euclidEmit_kids (kids : List Pat) (st : St) (seq : List Bool) : (euclidEmit kids st seq).kids = kids := by
  simp only [euclidEmit]; repeat' split
  all_goals rfl

theorem euclidEmit_ne_stop (kids : List Pat) (st : St) (seq : List Bool) : (euclidEmit kids st seq).out ≠ .stop := by
  simp only [euclidEmit]; repeat' split
  all_goals simp

/-- `PEuclidean` ends only with one of its pattern-valued parameters, and then for good. -/
theorem euclidean_sticky : ClsSticky .euclidean := by
  intro P rec kids st hrec hk
  have hc : clsStep .euclidean = stepEuclidean := rfl
  rw [hc]
  have hP : ∀ kids st, (∀ k ∈ kids, P k) → ∀ k ∈ (stepEuclidean rec kids st).kids, P k := by
    intro kids st hk
    have h1 := stepKid_P hrec kids 1 hk
    have h2 := stepKid_P hrec _ 0 h1
    simp only [stepEuclidean]
    repeat' split
    all_goals first | exact h1 | exact h2 | (rw [euclidEmit_kids]; exact h2)
  refine ⟨hP kids st hk, fun hs => ?_⟩
  have key : (stepEuclidean rec kids st).out = .stop →
      DeadAt rec (stepEuclidean rec kids st).kids 1 ∨ DeadAt rec (stepEuclidean rec kids st).kids 0 := by
    simp only [stepEuclidean]
    split
    · split
      · split
        · intro h; exact absurd h (euclidEmit_ne_stop _ _ _)
        · intro h; cases h
      · intro h
        right
        exact dead_of_stop hrec (stepKid_P hrec kids 1 hk) (by simpa using h)
    · intro h
      left
      exact dead_of_stop hrec hk (by simpa using h)
  intro n
  apply clsOuts_noVal stepEuclidean rec (fun kids _ => DeadAt rec kids 1 ∨ DeadAt rec kids 0) _ n _ _ (key hs)
  intro kids st h
  rcases h with h | h
  · obtain ⟨h1, h2⟩ := h.step
    simp only [stepEuclidean]
    split
    · rename_i a ha; exact absurd ha (h1 a)
    · exact ⟨by simpa using h1, Or.inl h2⟩
  · have h0 : DeadAt rec (stepKid rec kids 1).2 0 := h.other (by decide)
    obtain ⟨h1, h2⟩ := h0.step
    simp only [stepEuclidean]
    split
    · split
      · rename_i b hb; exact absurd hb (h1 b)
      · exact ⟨by simpa using h1, Or.inr h2⟩
    · rename_i o _ ho
      refine ⟨?_, Or.inr h0⟩
      intro v hv; exact ho v (by simpa using hv)

/-! ### PArpeggiator -/

theorem arp_stop_fix (rec : Rec) (kids : List Pat) (st : St) (h : (stepArpeggiator rec kids st).out = .stop) :
    (stepArpeggiator rec kids st).st = st ∧ (stepArpeggiator rec kids st).kids = kids := by
  revert h
  simp only [stepArpeggiator]
  repeat' split
  all_goals first
    | (intro h; cases h; done)
    | (intro _; exact ⟨rfl, rfl⟩)

/-- `PArpeggiator` (without `loop`) ends when the arrangement has been played; nothing changes any more. -/
theorem arpeggiator_sticky : ClsSticky .arpeggiator := by
  intro P rec kids st hrec hk
  have hc : clsStep .arpeggiator = stepArpeggiator := rfl
  rw [hc]
  have hkids : ∀ kids st, (stepArpeggiator rec kids st).kids = kids := by
    intro kids st; simp only [stepArpeggiator]; repeat' split
    all_goals rfl
  refine ⟨by rw [hkids]; exact hk, fun hs => ?_⟩
  let I : List Pat → St → Prop := fun kids st => (stepArpeggiator rec kids st).out = .stop
  have hd : I (stepArpeggiator rec kids st).kids (stepArpeggiator rec kids st).st := by
    obtain ⟨f1, f2⟩ := arp_stop_fix rec kids st hs
    show (stepArpeggiator rec _ _).out = .stop
    rw [f1, f2]; exact hs
  intro n
  apply clsOuts_noVal stepArpeggiator rec I _ n _ _ hd
  intro kids st h
  obtain ⟨f1, f2⟩ := arp_stop_fix rec kids st h
  refine ⟨by rw [h]; exact noVal_stop, ?_⟩
  show (stepArpeggiator rec _ _).out = .stop
  rw [f1, f2]; exact h

/-! ### PInterpolate -/

theorem interpValues_ne_stop (mode : Int) (cur target : Val) (k : Int) : (interpValues mode cur target k).1 ≠ .stop := by
  simp only [interpValues]; repeat' split
  all_goals simp

theorem interpEmit_kids (kids : List Pat) (st : St) (cur : Val) (sv : List Val) : (interpEmit kids st cur sv).kids = kids := by
  simp only [interpEmit]; split <;> rfl

theorem interpEmit_ne_stop (kids : List Pat) (st : St) (cur : Val) (sv : List Val) : (interpEmit kids st cur sv).out ≠ .stop := by
  simp only [interpEmit]; split <;> simp

theorem interpSkip_stop {P : Pat → Prop} {rec : Rec} (hrec : RecSticky P rec) (fuel : Nat) (kids : List Pat) (cur : Val)
    (hk : ∀ k ∈ kids, P k) (hs : (interpSkip rec fuel kids cur).1 = .stop) :
    DeadAt rec (interpSkip rec fuel kids cur).2.1 0 ∨ DeadAt rec (interpSkip rec fuel kids cur).2.1 1 := by
  induction fuel generalizing kids cur with
  | zero => simp [interpSkip] at hs
  | succ n ih =>
    have s1 := stepKid_P hrec kids 1 hk
    have t1 := stepKid_P hrec (stepKid rec kids 1).2 0 s1
    revert hs
    simp only [interpSkip]
    split
    · split
      · split
        · intro hs; exact ih _ _ t1 hs
        · intro hs; left; exact dead_of_stop hrec s1 (by simpa using hs)
      · rename_i s hs1 o ho
        intro hs
        exfalso
        have : pyInt s = .stop := by simpa using hs
        revert this
        simp only [pyInt]; repeat' split
        all_goals simp
    · intro hs; right; exact dead_of_stop hrec hk (by simpa using hs)

theorem interpSkip_dead {rec : Rec} (fuel : Nat) (kids : List Pat) (cur : Val)
    (hd : DeadAt rec kids 0 ∨ DeadAt rec kids 1) :
    (DeadAt rec (interpSkip rec fuel kids cur).2.1 0 ∨ DeadAt rec (interpSkip rec fuel kids cur).2.1 1) ∧
    (NoVal (interpSkip rec fuel kids cur).1 ∨ DeadAt rec (interpSkip rec fuel kids cur).2.1 0) := by
  induction fuel generalizing kids cur with
  | zero => exact ⟨hd, Or.inl (noVal_err _)⟩
  | succ n ih =>
    rcases hd with hd | hd
    · have h0 : DeadAt rec (stepKid rec kids 1).2 0 := hd.other (by decide)
      obtain ⟨d1, d2⟩ := h0.step
      simp only [interpSkip]
      split
      · split
        · split
          · rename_i v hv; exact absurd hv (d1 v)
          · exact ⟨Or.inl d2, Or.inl d1⟩
        · exact ⟨Or.inl h0, Or.inr h0⟩
      · exact ⟨Or.inl h0, Or.inr h0⟩
    · obtain ⟨d1, d2⟩ := hd.step
      simp only [interpSkip]
      split
      · rename_i s hs; exact absurd hs (d1 s)
      · exact ⟨Or.inr d2, Or.inl d1⟩

/-- `PInterpolate` ends only with its input or its `steps` parameter, and then for good. -/
theorem interpolate_sticky : ClsSticky .interpolate := by
  intro P rec kids st hrec hk
  have hc : clsStep .interpolate = stepInterpolate := rfl
  rw [hc]
  have a1 := stepKid_P hrec kids 0 hk
  have s1 := interpSkip_P hrec LOOPFUEL kids st.v0 hk
  have t1 := stepKid_P hrec (interpSkip rec LOOPFUEL kids st.v0).2.1 0 s1
  have hP : ∀ k ∈ (stepInterpolate rec kids st).kids, P k := by
    simp only [stepInterpolate]
    repeat' split
    all_goals first | exact a1 | exact s1 | exact t1 | exact hk | (rw [interpEmit_kids]; exact t1)
  refine ⟨hP, fun hs => ?_⟩
  let I : List Pat → St → Prop := fun kids st =>
    (st.n1 = 0 ∧ DeadAt rec kids 0) ∨ (st.n1 ≠ 0 ∧ st.n2 = st.buf.length ∧ (DeadAt rec kids 0 ∨ DeadAt rec kids 1))
  have key : (stepInterpolate rec kids st).out = .stop →
      I (stepInterpolate rec kids st).kids (stepInterpolate rec kids st).st := by
    simp only [stepInterpolate]
    split
    · rename_i h0
      split
      · intro h; cases h
      · intro h; left; exact ⟨h0, dead_of_stop hrec hk (by simpa using h)⟩
    · rename_i h0
      split
      · rename_i hpos
        split
        · split
          · split
            · intro h; exact absurd h (interpEmit_ne_stop _ _ _ _)
            · rename_i o _ ho
              intro h
              exact absurd (by simpa using h) (interpValues_ne_stop _ _ _ _)
          · intro h; right
            exact ⟨h0, hpos, Or.inl (dead_of_stop hrec s1 (by simpa using h))⟩
        · intro h; cases h
        · intro h; right
          exact ⟨h0, hpos, interpSkip_stop hrec LOOPFUEL kids st.v0 hk (by simpa using h)⟩
      · split
        · intro h; cases h
        · intro h; cases h
  intro n
  apply clsOuts_noVal stepInterpolate rec I _ n _ _ (key hs)
  intro kids st h
  rcases h with ⟨h0, hd⟩ | ⟨h0, hpos, hd⟩
  · obtain ⟨d1, d2⟩ := hd.step
    simp only [stepInterpolate, h0, if_true]
    split
    · rename_i v hv; exact absurd hv (d1 v)
    · exact ⟨by simpa using d1, Or.inl ⟨h0, d2⟩⟩
  · obtain ⟨e1, e2⟩ := interpSkip_dead LOOPFUEL kids st.v0 hd
    simp only [stepInterpolate, if_neg h0, if_pos hpos]
    split
    · rename_i k hk'
      have e3 : DeadAt rec (interpSkip rec LOOPFUEL kids st.v0).2.1 0 := by
        rcases e2 with e2 | e2
        · exact absurd hk' (e2 _)
        · exact e2
      obtain ⟨d1, d2⟩ := e3.step
      split
      · rename_i target ht; exact absurd ht (d1 target)
      · exact ⟨by simpa using d1, Or.inr ⟨h0, hpos, Or.inl d2⟩⟩
    · exact ⟨noVal_err _, Or.inr ⟨h0, hpos, e1⟩⟩
    · rename_i o ho1 ho2
      refine ⟨?_, Or.inr ⟨h0, hpos, e1⟩⟩
      intro v hv
      exact ho2 v (by simpa using hv)

/-! ### PReset: ends for good with its trigger -/

/-- **`PReset` ends for good when its trigger ends.**  (When its *pattern* ends, a later positive trigger restarts
    it: `PReset` is a selector, like an array lookup, and is deliberately not in the sticky set.) -/
theorem preset_trigger_sticky (rs : Pat → Pat) (P : Pat → Prop) (rec : Rec) (kids : List Pat) (st : St)
    (hrec : RecSticky P rec) (hk : ∀ k ∈ kids, P k) (hs : (stepKid rec kids 1).1 = .stop) :
    (stepResetW rs rec kids st).out = .stop ∧
    ∀ n, ∀ o ∈ clsOuts (stepResetW rs) rec n (stepResetW rs rec kids st).kids (stepResetW rs rec kids st).st, NoVal o := by
  have h1 : (stepResetW rs rec kids st).out = .stop ∧ (stepResetW rs rec kids st).kids = (stepKid rec kids 1).2 := by
    simp [stepResetW, hs]
  refine ⟨h1.1, fun n => ?_⟩
  have hd : DeadAt rec (stepResetW rs rec kids st).kids 1 := by rw [h1.2]; exact dead_of_stop hrec hk hs
  apply clsOuts_noVal (stepResetW rs) rec (fun kids _ => DeadAt rec kids 1) _ n _ _ hd
  intro kids st h
  obtain ⟨d1, d2⟩ := h.step
  simp only [stepResetW]
  split
  · rename_i t ht; exact absurd ht (d1 t)
  · exact ⟨by simpa using d1, d2⟩

/-! ### PPermut: sticky on its reachable states -/

/-- The own states `PPermut`'s code can reach: not yet generated (`permutations == []`, `permindex` pending), or
    playing / finished a non-empty block (`0 ≤ permindex ≤ len(permutations)`, `0 ≤ pos`, and `pos < len(block)`
    once `permindex` has reached the end). -/
def PermutInv (st : St) : Prop :=
  (st.n3 = 0 ∧ 0 < st.n1) ∨
  (st.n3 ≠ 0 ∧ st.buf ≠ [] ∧ 0 ≤ st.n1 ∧ 0 ≤ st.n2 ∧ st.n1 ≤ permCount st ∧ (st.n1 = permCount st → st.n2 < st.buf.length))

/-- The constructor's state (and the state after `reset()`) is reachable. -/
theorem permutInv_reset (st : St) : PermutInv (resetPermut st) := by
  left; simp [resetPermut, MAXSIZE]

theorem permEmit_kids (kids : List Pat) (st : St) : (permEmit kids st).kids = kids := by
  simp only [permEmit]; repeat' split
  all_goals rfl

theorem permCount_nonneg (st : St) : 0 ≤ permCount st := by
  unfold permCount; split <;> omega

theorem buf_len_pos {st : St} (h : st.buf ≠ []) : (0 : Int) < st.buf.length := by
  cases hb : st.buf with
  | nil => exact absurd hb h
  | cons x xs => have : (x :: xs).length = xs.length + 1 := rfl; omega

/-- Finished: `permindex` has reached the end and `pos` is inside the block: the next step raises StopIteration
    again and changes nothing. -/
def PermutFin (st : St) : Prop := ¬ st.n1 > permCount st ∧ ¬ st.n2 ≥ st.buf.length ∧ st.n1 ≥ permCount st

/-- `permEmit` keeps the invariant when started inside a non-empty block, and a StopIteration leaves a finished state. -/
theorem permEmit_inv (kids : List Pat) (st : St)
    (h3 : st.n3 ≠ 0) (hb : st.buf ≠ []) (h1 : 0 ≤ st.n1) (h2 : 0 ≤ st.n2) (hle : st.n1 ≤ permCount st)
    (hlt2 : st.n2 < st.buf.length) :
    PermutInv (permEmit kids st).st ∧ ((permEmit kids st).out = .stop → PermutFin (permEmit kids st).st) := by
  simp only [permEmit]
  split
  · rename_i hge
    exact ⟨Or.inr ⟨h3, hb, h1, h2, hle, fun _ => hlt2⟩, fun _ => show PermutFin st from ⟨by omega, by omega, hge⟩⟩
  · rename_i hlt
    split
    · refine ⟨Or.inr ⟨h3, hb, h1, ?_, hle, ?_⟩, fun h => by cases h⟩
      · show 0 ≤ st.n2 + 1
        omega
      · intro he
        have he' : st.n1 = permCount st := he
        exact absurd (by omega : st.n1 ≥ permCount st) hlt
    · exact ⟨Or.inr ⟨h3, hb, h1, h2, hle, fun _ => hlt2⟩, fun h => by cases h⟩

/-- Done: the next step raises StopIteration (or an operand's exception) again and stays done. -/
def PermutDone (rec : Rec) (kids : List Pat) (st : St) : Prop :=
  (st.n1 > permCount st ∧ (st.n0.toNat = 0 ∨ DeadAt rec kids 0)) ∨ PermutFin st

theorem permBlock_dead {rec : Rec} (c : Nat) (kids : List Pat) (hd : c = 0 ∨ DeadAt rec kids 0) :
    ((permBlock rec c kids []).1 ≠ Option.none ∨ (permBlock rec c kids []).2.2 = []) ∧
    (c = 0 ∨ DeadAt rec (permBlock rec c kids []).2.1 0) := by
  cases c with
  | zero => exact ⟨Or.inr rfl, Or.inl rfl⟩
  | succ n =>
    rcases hd with hd | hd
    · omega
    · obtain ⟨d1, d2⟩ := hd.step
      simp only [permBlock]
      split
      · rename_i v hv; exact absurd hv (d1 v)
      · exact ⟨Or.inr rfl, Or.inr d2⟩
      · exact ⟨Or.inl (by simp), Or.inr d2⟩

theorem permBlock_empty {P : Pat → Prop} {rec : Rec} (hrec : RecSticky P rec) (c : Nat) (kids : List Pat) (acc : List Val)
    (hk : ∀ k ∈ kids, P k) (he : (permBlock rec c kids acc).1 = Option.none) (hv : (permBlock rec c kids acc).2.2 = []) :
    acc = [] ∧ (c = 0 ∨ DeadAt rec (permBlock rec c kids acc).2.1 0) := by
  induction c generalizing kids acc with
  | zero => simp [permBlock] at hv; exact ⟨hv, Or.inl rfl⟩
  | succ n ih =>
    have s1 := stepKid_P hrec kids 0 hk
    revert he hv
    simp only [permBlock]
    split
    · intro he hv
      have := (ih _ _ s1 he hv).1
      simp at this
    · rename_i hs
      intro _ hv
      simp at hv
      exact ⟨hv, Or.inr (dead_of_stop hrec hk hs)⟩
    · intro he; simp at he

theorem permut_done_step (rec : Rec) (kids : List Pat) (st : St) (h : PermutDone rec kids st) :
    NoVal (stepPermut rec kids st).out ∧ PermutDone rec (stepPermut rec kids st).kids (stepPermut rec kids st).st := by
  rcases h with ⟨hgt, hd⟩ | ⟨hng, hpos, hge⟩
  · have hd' : st.n0.toNat = 0 ∨ DeadAt rec kids 0 := hd
    obtain ⟨b1, b2⟩ := permBlock_dead st.n0.toNat kids hd'
    simp only [stepPermut, if_pos hgt]
    split
    · exact ⟨noVal_err _, Or.inl ⟨hgt, b2⟩⟩
    · rename_i hnone
      split
      · exact ⟨noVal_stop, Or.inl ⟨hgt, b2⟩⟩
      · rename_i v vs hvs
        rcases b1 with b1 | b1
        · exact absurd hnone b1
        · rw [b1] at hvs; cases hvs
  · simp only [stepPermut, if_neg hng, if_neg hpos, permEmit, if_pos hge]
    exact ⟨noVal_stop, Or.inr ⟨hng, hpos, hge⟩⟩

/-- State-invariant form of stickiness. -/
def ClsStickyI (Inv : St → Prop) (c : Cls) : Prop :=
  ∀ (P : Pat → Prop) (rec : Rec) (kids : List Pat) (st : St), RecSticky P rec → (∀ k ∈ kids, P k) → Inv st →
    Inv (clsStep c rec kids st).st ∧
    (∀ k ∈ (clsStep c rec kids st).kids, P k) ∧
    ((clsStep c rec kids st).out = .stop →
      ∀ n, ∀ o ∈ clsOuts (clsStep c) rec n (clsStep c rec kids st).kids (clsStep c rec kids st).st, NoVal o)

theorem ClsSticky.toI {c : Cls} (h : ClsSticky c) : ClsStickyI (fun _ => True) c :=
  fun P rec kids st hrec hk _ => ⟨trivial, (h P rec kids st hrec hk).1, (h P rec kids st hrec hk).2⟩

/-- **`PPermut` is sticky on its reachable states, and every step keeps it inside them.** -/
theorem permut_sticky : ClsStickyI PermutInv .permut := by
  intro P rec kids st hrec hk hinv
  have hc : clsStep .permut = stepPermut := rfl
  rw [hc]
  have b1 := permBlock_P hrec st.n0.toNat kids [] hk
  have hP : ∀ k ∈ (stepPermut rec kids st).kids, P k := by
    simp only [stepPermut]
    repeat' split
    all_goals first | exact b1 | (rw [permEmit_kids]; first | exact b1 | exact hk)
  -- invariant and "a stop leaves a finished state", by cases on the reachable state
  have main : PermutInv (stepPermut rec kids st).st ∧
      ((stepPermut rec kids st).out = .stop → PermutDone rec (stepPermut rec kids st).kids (stepPermut rec kids st).st) := by
    rcases hinv with ⟨h3, h1⟩ | ⟨h3, hb, h1, h2, hle, hfin⟩
    · have hN : permCount st = 0 := by simp [permCount, h3]
      have hgt : st.n1 > permCount st := by rw [hN]; exact h1
      simp only [stepPermut, if_pos hgt]
      split
      · exact ⟨Or.inl ⟨h3, h1⟩, fun h => by cases h⟩
      · rename_i hnone
        split
        · rename_i hvs
          refine ⟨Or.inl ⟨h3, h1⟩, fun _ => Or.inl ⟨hgt, ?_⟩⟩
          exact (permBlock_empty hrec st.n0.toNat kids [] hk hnone hvs).2
        · rename_i v vs hvs
          have e := permEmit_inv (permBlock rec st.n0.toNat kids []).2.1
            { st with buf := v :: vs, n3 := 1, n1 := 0, n2 := 0 }
            (show (1 : Int) ≠ 0 by decide) (show v :: vs ≠ [] by simp) (show (0 : Int) ≤ 0 by decide)
            (show (0 : Int) ≤ 0 by decide) (permCount_nonneg _)
            (show (0 : Int) < ((v :: vs).length : Int) by have : (v :: vs).length = vs.length + 1 := rfl; omega)
          refine ⟨e.1, fun hs => ?_⟩
          rw [permEmit_kids]
          exact Or.inr (e.2 hs)
    · have hng : ¬ st.n1 > permCount st := by omega
      have hL := buf_len_pos hb
      simp only [stepPermut, if_neg hng]
      split
      · rename_i hpos
        have hlt : st.n1 < permCount st := by
          rcases Int.lt_or_eq_of_le hle with h | h
          · exact h
          · exact absurd (hfin h) (by omega)
        have e := permEmit_inv kids { st with n1 := st.n1 + 1, n2 := 0 } h3 hb
          (show 0 ≤ st.n1 + 1 by omega) (show (0 : Int) ≤ 0 by decide)
          (show st.n1 + 1 ≤ permCount st by omega) hL
        refine ⟨e.1, fun hs => ?_⟩
        rw [permEmit_kids]
        exact Or.inr (e.2 hs)
      · rename_i hpos
        have e := permEmit_inv kids st h3 hb h1 h2 hle (by omega)
        refine ⟨e.1, fun hs => ?_⟩
        rw [permEmit_kids]
        exact Or.inr (e.2 hs)
  refine ⟨main.1, hP, fun hs n => ?_⟩
  apply clsOuts_noVal stepPermut rec (PermutDone rec) _ n _ _ (main.2 hs)
  intro kids st h
  exact permut_done_step rec kids st h

/-! ### Lifting to pattern trees whose nodes satisfy a per-class state invariant -/

/-- Every node's class is in `S` and its own state satisfies the invariant of its class. -/
inductive AllNodes (S : Cls → Prop) (Inv : Cls → St → Prop) : Pat → Prop where
  | node {c : Cls} {kids : List Pat} {st : St} :
      S c → Inv c st → (∀ k ∈ kids, AllNodes S Inv k) → AllNodes S Inv (.node c kids st)

/-- **Once a pattern has raised StopIteration no later `next()` yields a value**, for every tree of classes that
    are sticky on a state invariant which the tree's nodes satisfy (it is preserved by every step). -/
theorem sticky_stepF_I {S : Cls → Prop} {Inv : Cls → St → Prop} (hS : ∀ c, S c → ClsStickyI (Inv c) c)
    (fuel : Nat) (p : Pat) (hp : AllNodes S Inv p) :
    AllNodes S Inv (stepF fuel p).p ∧
    ((stepF fuel p).out = .stop → ∀ n, ∀ o ∈ outs fuel n (stepF fuel p).p, NoVal o) := by
  induction fuel generalizing p with
  | zero => refine ⟨hp, fun h => by simp [stepF] at h⟩
  | succ m ih =>
    cases hp with
    | node hc hi hk =>
      rename_i c kids st
      have hrec : RecSticky (AllNodes S Inv) (stepF m) := by
        intro k hk
        obtain ⟨i1, i2⟩ := ih k hk
        refine ⟨i1, fun hs n o ho => ?_⟩
        rw [recOuts_stepF] at ho
        exact i2 hs n o ho
      obtain ⟨h0, h1, h2⟩ := hS c hc (AllNodes S Inv) (stepF m) kids st hrec hk hi
      refine ⟨AllNodes.node hc h0 h1, fun h n o ho => ?_⟩
      have hs : (clsStep c (stepF m) kids st).out = .stop := by simpa [stepF] using h
      have : outs (m + 1) n (stepF (m + 1) (.node c kids st)).p =
          clsOuts (clsStep c) (stepF m) n (clsStep c (stepF m) kids st).kids (clsStep c (stepF m) kids st).st := by
        simp only [stepF]; exact outs_eq_clsOuts m n c _ _
      rw [this] at ho
      exact h2 hs n o ho

/-- The classes of this group that are sticky for all own states. -/
def Seq2Sticky (c : Cls) : Prop :=
  c = .reverse ∨ c = .pad ∨ c = .padToMultiple ∨ c = .counter ∨ c = .collapse ∨ c = .noRepeats ∨
  c = .interpolate ∨ c = .euclidean ∨ c = .arpeggiator

theorem seq2_sticky (c : Cls) (h : Seq2Sticky c) : ClsSticky c := by
  unfold Seq2Sticky at h
  rcases h with h | h | h | h | h | h | h | h | h <;> subst h
  · exact reverse_sticky
  · exact pad_sticky
  · exact padToMultiple_sticky
  · exact counter_sticky
  · exact collapse_sticky
  · exact noRepeats_sticky
  · exact interpolate_sticky
  · exact euclidean_sticky
  · exact arpeggiator_sticky

/-- State invariants of this group: only `PPermut` needs one. -/
def seq2Inv (c : Cls) (st : St) : Prop := c = .permut → PermutInv st

theorem seq2_stickyI (c : Cls) (h : c = .permut ∨ Seq2Sticky c ∨ StickyCore c) : ClsStickyI (seq2Inv c) c := by
  rcases h with h | h
  · subst h
    intro P rec kids st hrec hk hinv
    obtain ⟨a, b, d⟩ := permut_sticky P rec kids st hrec hk (hinv rfl)
    exact ⟨fun _ => a, b, d⟩
  · have hs : ClsSticky c := by
      rcases h with h | h
      · exact seq2_sticky c h
      · exact core_sticky c h
    have hne : c ≠ .permut := by
      rcases h with h | h
      · unfold Seq2Sticky at h
        rcases h with h | h | h | h | h | h | h | h | h <;> subst h <;> decide
      · unfold StickyCore at h
        rcases h with h | h | h | h | h | h | h | h | h | h | h | h | h | h | h | h | h | h | h | h | h <;> subst h <;> decide
    intro P rec kids st hrec hk _
    exact ⟨fun hc => absurd hc hne, (hs P rec kids st hrec hk).1, (hs P rec kids st hrec hk).2⟩

/-- **C09 for this group**: in any expression built from PReverse, PPad, PPadToMultiple, PCounter, PCollapse,
    PNoRepeats, PInterpolate, PEuclidean, PArpeggiator, PPermut (in a state its code can reach — e.g. freshly
    constructed or reset) and the sticky core classes, nested to any depth, once `next()` has raised StopIteration
    no later `next()` yields a value. -/
theorem sticky_seq2 (fuel : Nat) (p : Pat)
    (hp : AllNodes (fun c => c = .permut ∨ Seq2Sticky c ∨ StickyCore c) seq2Inv p)
    (hstop : (stepF fuel p).out = .stop) : ∀ n, ∀ o ∈ outs fuel n (stepF fuel p).p, NoVal o :=
  (sticky_stepF_I seq2_stickyI fuel p hp).2 hstop

/-! Non-vacuity -/
section Example
def cI (i : Int) : Pat := Pat.const (.int i)
def sqI (xs : List Int) (rep : Int) : Pat := .node .seq (xs.map cI) { n0 := rep }
/-- `PPad(PPermut(PSequence([1, 2], 1), 2), 5)` -/
def ex1 : Pat := .node .pad [.node .permut [sqI [1, 2] 1] { n0 := 2, n1 := MAXSIZE, n2 := MAXSIZE }] { n0 := 5 }
example : outs 10 9 ex1 = [.val (.int 1), .val (.int 2), .val (.int 2), .val (.int 1), .val Val.none, .stop, .stop, .stop, .stop] := by
  decide
example : (nextn 10 20 ex1).vals.length = 5 ∧ (len 10 100 ex1).1 = some 5 := by decide
example : PermutInv { n0 := 2, n1 := MAXSIZE, n2 := MAXSIZE } := by left; simp [MAXSIZE]
/-- `PReset(PSequence([1, 2], 1), PSequence([0, 0, 0, 1], 1))` resumes (selector) and ends with its trigger -/
example : outs 10 7 (.node .reset [sqI [1, 2] 1, sqI [0, 0, 0, 1] 1] {}) =
    [.val (.int 1), .val (.int 2), .stop, .val (.int 1), .stop, .stop, .stop] := by decide
end Example

end IsobarV.C09
