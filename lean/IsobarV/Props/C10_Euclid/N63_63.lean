/-
C10 — Euclidean rhythms, n = 63 … 63: for every k ≤ n the modelled `_euclidean(n, k)` has n steps, k onsets and all
cyclic gaps ⌊n/k⌋ or ⌈n/k⌉ (decided by kernel evaluation of the model; generated file).
-/
import IsobarV.Props.C10_Euclid.Defs

namespace IsobarV.C10

theorem euclid_even_n63 : ∀ k, k ≤ 63 → EuclidEven 63 k := by decide +kernel

end IsobarV.C10
