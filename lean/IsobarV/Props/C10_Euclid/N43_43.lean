/-
C10 — Euclidean rhythms, n = 43 … 43: for every k ≤ n the modelled `_euclidean(n, k)` has n steps, k onsets and all
cyclic gaps ⌊n/k⌋ or ⌈n/k⌉ (decided by kernel evaluation of the model; generated file).
-/
import IsobarV.Props.C10_Euclid.Defs

namespace IsobarV.C10

theorem euclid_even_n43 : ∀ k, k ≤ 43 → EuclidEven 43 k := by decide +kernel

end IsobarV.C10
