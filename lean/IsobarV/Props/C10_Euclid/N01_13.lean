/-
C10 — Euclidean rhythms, n = 1 … 13: for every k ≤ n the modelled `_euclidean(n, k)` has n steps, k onsets and all
cyclic gaps ⌊n/k⌋ or ⌈n/k⌉ (decided by kernel evaluation of the model; generated file).
-/
import IsobarV.Props.C10_Euclid.Defs

namespace IsobarV.C10

theorem euclid_even_n1 : ∀ k, k ≤ 1 → EuclidEven 1 k := by decide +kernel
theorem euclid_even_n2 : ∀ k, k ≤ 2 → EuclidEven 2 k := by decide +kernel
theorem euclid_even_n3 : ∀ k, k ≤ 3 → EuclidEven 3 k := by decide +kernel
theorem euclid_even_n4 : ∀ k, k ≤ 4 → EuclidEven 4 k := by decide +kernel
theorem euclid_even_n5 : ∀ k, k ≤ 5 → EuclidEven 5 k := by decide +kernel
theorem euclid_even_n6 : ∀ k, k ≤ 6 → EuclidEven 6 k := by decide +kernel
theorem euclid_even_n7 : ∀ k, k ≤ 7 → EuclidEven 7 k := by decide +kernel
theorem euclid_even_n8 : ∀ k, k ≤ 8 → EuclidEven 8 k := by decide +kernel
theorem euclid_even_n9 : ∀ k, k ≤ 9 → EuclidEven 9 k := by decide +kernel
theorem euclid_even_n10 : ∀ k, k ≤ 10 → EuclidEven 10 k := by decide +kernel
theorem euclid_even_n11 : ∀ k, k ≤ 11 → EuclidEven 11 k := by decide +kernel
theorem euclid_even_n12 : ∀ k, k ≤ 12 → EuclidEven 12 k := by decide +kernel
theorem euclid_even_n13 : ∀ k, k ≤ 13 → EuclidEven 13 k := by decide +kernel

end IsobarV.C10
