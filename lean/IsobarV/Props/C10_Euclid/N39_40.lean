/-
C10 — Euclidean rhythms, n = 39 … 40: for every k ≤ n the modelled `_euclidean(n, k)` has n steps, k onsets and all
cyclic gaps ⌊n/k⌋ or ⌈n/k⌉ (decided by kernel evaluation of the model; generated file).
-/
import IsobarV.Props.C10_Euclid.Defs

namespace IsobarV.C10

theorem euclid_even_n39 : ∀ k, k ≤ 39 → EuclidEven 39 k := by decide +kernel
theorem euclid_even_n40 : ∀ k, k ≤ 40 → EuclidEven 40 k := by decide +kernel

end IsobarV.C10
