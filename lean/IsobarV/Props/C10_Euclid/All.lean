/-
C10 — Euclidean rhythms are maximally even on the whole domain the property names (k ≤ n ≤ 64): collected from
the per-n modules (generated file).
-/
import IsobarV.Props.C10_Euclid.N01_13
import IsobarV.Props.C10_Euclid.N14_22
import IsobarV.Props.C10_Euclid.N23_27
import IsobarV.Props.C10_Euclid.N28_31
import IsobarV.Props.C10_Euclid.N32_34
import IsobarV.Props.C10_Euclid.N35_36
import IsobarV.Props.C10_Euclid.N37_38
import IsobarV.Props.C10_Euclid.N39_40
import IsobarV.Props.C10_Euclid.N41_41
import IsobarV.Props.C10_Euclid.N42_42
import IsobarV.Props.C10_Euclid.N43_43
import IsobarV.Props.C10_Euclid.N44_44
import IsobarV.Props.C10_Euclid.N45_45
import IsobarV.Props.C10_Euclid.N46_46
import IsobarV.Props.C10_Euclid.N47_47
import IsobarV.Props.C10_Euclid.N48_48
import IsobarV.Props.C10_Euclid.N49_49
import IsobarV.Props.C10_Euclid.N50_50
import IsobarV.Props.C10_Euclid.N51_51
import IsobarV.Props.C10_Euclid.N52_52
import IsobarV.Props.C10_Euclid.N53_53
import IsobarV.Props.C10_Euclid.N54_54
import IsobarV.Props.C10_Euclid.N55_55
import IsobarV.Props.C10_Euclid.N56_56
import IsobarV.Props.C10_Euclid.N57_57
import IsobarV.Props.C10_Euclid.N58_58
import IsobarV.Props.C10_Euclid.N59_59
import IsobarV.Props.C10_Euclid.N60_60
import IsobarV.Props.C10_Euclid.N61_61
import IsobarV.Props.C10_Euclid.N62_62
import IsobarV.Props.C10_Euclid.N63_63
import IsobarV.Props.C10_Euclid.N64_64

namespace IsobarV.C10
open IsobarV.Pat

/-- **Euclidean rhythms, `1 ≤ n ≤ 64`, `k ≤ n`: the modelled `_euclidean(n, k)` has length `n`, exactly `k` onsets, and
    all cyclic gaps between consecutive onsets are `⌊n/k⌋` or `⌈n/k⌉`.** -/
theorem euclid_even : ∀ (n k : Nat), 1 ≤ n → n ≤ 64 → k ≤ n → EuclidEven n k
  | 0, _, h, _, _ => absurd h (by decide)
  | 1, k, _, _, hk => euclid_even_n1 k hk
  | 2, k, _, _, hk => euclid_even_n2 k hk
  | 3, k, _, _, hk => euclid_even_n3 k hk
  | 4, k, _, _, hk => euclid_even_n4 k hk
  | 5, k, _, _, hk => euclid_even_n5 k hk
  | 6, k, _, _, hk => euclid_even_n6 k hk
  | 7, k, _, _, hk => euclid_even_n7 k hk
  | 8, k, _, _, hk => euclid_even_n8 k hk
  | 9, k, _, _, hk => euclid_even_n9 k hk
  | 10, k, _, _, hk => euclid_even_n10 k hk
  | 11, k, _, _, hk => euclid_even_n11 k hk
  | 12, k, _, _, hk => euclid_even_n12 k hk
  | 13, k, _, _, hk => euclid_even_n13 k hk
  | 14, k, _, _, hk => euclid_even_n14 k hk
  | 15, k, _, _, hk => euclid_even_n15 k hk
  | 16, k, _, _, hk => euclid_even_n16 k hk
  | 17, k, _, _, hk => euclid_even_n17 k hk
  | 18, k, _, _, hk => euclid_even_n18 k hk
  | 19, k, _, _, hk => euclid_even_n19 k hk
  | 20, k, _, _, hk => euclid_even_n20 k hk
  | 21, k, _, _, hk => euclid_even_n21 k hk
  | 22, k, _, _, hk => euclid_even_n22 k hk
  | 23, k, _, _, hk => euclid_even_n23 k hk
  | 24, k, _, _, hk => euclid_even_n24 k hk
  | 25, k, _, _, hk => euclid_even_n25 k hk
  | 26, k, _, _, hk => euclid_even_n26 k hk
  | 27, k, _, _, hk => euclid_even_n27 k hk
  | 28, k, _, _, hk => euclid_even_n28 k hk
  | 29, k, _, _, hk => euclid_even_n29 k hk
  | 30, k, _, _, hk => euclid_even_n30 k hk
  | 31, k, _, _, hk => euclid_even_n31 k hk
  | 32, k, _, _, hk => euclid_even_n32 k hk
  | 33, k, _, _, hk => euclid_even_n33 k hk
  | 34, k, _, _, hk => euclid_even_n34 k hk
  | 35, k, _, _, hk => euclid_even_n35 k hk
  | 36, k, _, _, hk => euclid_even_n36 k hk
  | 37, k, _, _, hk => euclid_even_n37 k hk
  | 38, k, _, _, hk => euclid_even_n38 k hk
  | 39, k, _, _, hk => euclid_even_n39 k hk
  | 40, k, _, _, hk => euclid_even_n40 k hk
  | 41, k, _, _, hk => euclid_even_n41 k hk
  | 42, k, _, _, hk => euclid_even_n42 k hk
  | 43, k, _, _, hk => euclid_even_n43 k hk
  | 44, k, _, _, hk => euclid_even_n44 k hk
  | 45, k, _, _, hk => euclid_even_n45 k hk
  | 46, k, _, _, hk => euclid_even_n46 k hk
  | 47, k, _, _, hk => euclid_even_n47 k hk
  | 48, k, _, _, hk => euclid_even_n48 k hk
  | 49, k, _, _, hk => euclid_even_n49 k hk
  | 50, k, _, _, hk => euclid_even_n50 k hk
  | 51, k, _, _, hk => euclid_even_n51 k hk
  | 52, k, _, _, hk => euclid_even_n52 k hk
  | 53, k, _, _, hk => euclid_even_n53 k hk
  | 54, k, _, _, hk => euclid_even_n54 k hk
  | 55, k, _, _, hk => euclid_even_n55 k hk
  | 56, k, _, _, hk => euclid_even_n56 k hk
  | 57, k, _, _, hk => euclid_even_n57 k hk
  | 58, k, _, _, hk => euclid_even_n58 k hk
  | 59, k, _, _, hk => euclid_even_n59 k hk
  | 60, k, _, _, hk => euclid_even_n60 k hk
  | 61, k, _, _, hk => euclid_even_n61 k hk
  | 62, k, _, _, hk => euclid_even_n62 k hk
  | 63, k, _, _, hk => euclid_even_n63 k hk
  | 64, k, _, _, hk => euclid_even_n64 k hk
  | _ + 65, _, _, h, _ => absurd h (by omega)

/-- In words: there is a rhythm `seq` returned by the model with the three properties. -/
theorem euclid_even_spec (n k : Nat) (h1 : 1 ≤ n) (h2 : n ≤ 64) (hk : k ≤ n) :
    ∃ seq, euclid (n : Int) (k : Int) = some seq ∧ seq.length = n ∧ seq.count true = k ∧
      ∀ g ∈ cyclicGaps n (onsets seq), g = n / k ∨ g = (n + k - 1) / k := by
  obtain ⟨seq, hs, hm⟩ := (euclid_even n k h1 h2 hk).spec
  exact ⟨seq, hs, hm.1, hm.2.1, hm.2.2⟩

end IsobarV.C10
