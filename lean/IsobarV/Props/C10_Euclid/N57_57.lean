/-
C10 — Euclidean rhythms, n = 57 … 57: for every k ≤ n the modelled `_euclidean(n, k)` has n steps, k onsets and all
cyclic gaps ⌊n/k⌋ or ⌈n/k⌉ (decided by kernel evaluation of the model; generated file).
-/
import IsobarV.Props.C10_Euclid.Defs

namespace IsobarV.C10

theorem euclid_even_n57 : ∀ k, k ≤ 57 → EuclidEven 57 k := by decide +kernel

end IsobarV.C10
