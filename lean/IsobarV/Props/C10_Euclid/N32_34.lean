/-
C10 — Euclidean rhythms, n = 32 … 34: for every k ≤ n the modelled `_euclidean(n, k)` has n steps, k onsets and all
cyclic gaps ⌊n/k⌋ or ⌈n/k⌉ (decided by kernel evaluation of the model; generated file).
-/
import IsobarV.Props.C10_Euclid.Defs

namespace IsobarV.C10

theorem euclid_even_n32 : ∀ k, k ≤ 32 → EuclidEven 32 k := by decide +kernel
theorem euclid_even_n33 : ∀ k, k ≤ 33 → EuclidEven 33 k := by decide +kernel
theorem euclid_even_n34 : ∀ k, k ≤ 34 → EuclidEven 34 k := by decide +kernel

end IsobarV.C10
