/-
C10 — Euclidean rhythms, n = 64 … 64: for every k ≤ n the modelled `_euclidean(n, k)` has n steps, k onsets and all
cyclic gaps ⌊n/k⌋ or ⌈n/k⌉ (decided by kernel evaluation of the model; generated file).
-/
import IsobarV.Props.C10_Euclid.Defs

namespace IsobarV.C10

theorem euclid_even_n64 : ∀ k, k ≤ 64 → EuclidEven 64 k := by decide +kernel

end IsobarV.C10
