/-
C10 — Euclidean rhythms, n = 35 … 36: for every k ≤ n the modelled `_euclidean(n, k)` has n steps, k onsets and all
cyclic gaps ⌊n/k⌋ or ⌈n/k⌉ (decided by kernel evaluation of the model; generated file).
-/
import IsobarV.Props.C10_Euclid.Defs

namespace IsobarV.C10

theorem euclid_even_n35 : ∀ k, k ≤ 35 → EuclidEven 35 k := by decide +kernel
theorem euclid_even_n36 : ∀ k, k ≤ 36 → EuclidEven 36 k := by decide +kernel

end IsobarV.C10
