/-
C10 — Euclidean rhythms, n = 51 … 51: for every k ≤ n the modelled `_euclidean(n, k)` has n steps, k onsets and all
cyclic gaps ⌊n/k⌋ or ⌈n/k⌉ (decided by kernel evaluation of the model; generated file).
-/
import IsobarV.Props.C10_Euclid.Defs

namespace IsobarV.C10

theorem euclid_even_n51 : ∀ k, k ≤ 51 → EuclidEven 51 k := by decide +kernel

end IsobarV.C10
