/-
C10 — Euclidean rhythms, n = 14 … 22: for every k ≤ n the modelled `_euclidean(n, k)` has n steps, k onsets and all
cyclic gaps ⌊n/k⌋ or ⌈n/k⌉ (decided by kernel evaluation of the model; generated file).
-/
import IsobarV.Props.C10_Euclid.Defs

namespace IsobarV.C10

theorem euclid_even_n14 : ∀ k, k ≤ 14 → EuclidEven 14 k := by decide +kernel
theorem euclid_even_n15 : ∀ k, k ≤ 15 → EuclidEven 15 k := by decide +kernel
theorem euclid_even_n16 : ∀ k, k ≤ 16 → EuclidEven 16 k := by decide +kernel
theorem euclid_even_n17 : ∀ k, k ≤ 17 → EuclidEven 17 k := by decide +kernel
theorem euclid_even_n18 : ∀ k, k ≤ 18 → EuclidEven 18 k := by decide +kernel
theorem euclid_even_n19 : ∀ k, k ≤ 19 → EuclidEven 19 k := by decide +kernel
theorem euclid_even_n20 : ∀ k, k ≤ 20 → EuclidEven 20 k := by decide +kernel
theorem euclid_even_n21 : ∀ k, k ≤ 21 → EuclidEven 21 k := by decide +kernel
theorem euclid_even_n22 : ∀ k, k ≤ 22 → EuclidEven 22 k := by decide +kernel

end IsobarV.C10
