/-
C10 — Euclidean rhythms, n = 28 … 31: for every k ≤ n the modelled `_euclidean(n, k)` has n steps, k onsets and all
cyclic gaps ⌊n/k⌋ or ⌈n/k⌉ (decided by kernel evaluation of the model; generated file).
-/
import IsobarV.Props.C10_Euclid.Defs

namespace IsobarV.C10

theorem euclid_even_n28 : ∀ k, k ≤ 28 → EuclidEven 28 k := by decide +kernel
theorem euclid_even_n29 : ∀ k, k ≤ 29 → EuclidEven 29 k := by decide +kernel
theorem euclid_even_n30 : ∀ k, k ≤ 30 → EuclidEven 30 k := by decide +kernel
theorem euclid_even_n31 : ∀ k, k ≤ 31 → EuclidEven 31 k := by decide +kernel

end IsobarV.C10
