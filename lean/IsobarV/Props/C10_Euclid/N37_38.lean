/-
C10 — Euclidean rhythms, n = 37 … 38: for every k ≤ n the modelled `_euclidean(n, k)` has n steps, k onsets and all
cyclic gaps ⌊n/k⌋ or ⌈n/k⌉ (decided by kernel evaluation of the model; generated file).
-/
import IsobarV.Props.C10_Euclid.Defs

namespace IsobarV.C10

theorem euclid_even_n37 : ∀ k, k ≤ 37 → EuclidEven 37 k := by decide +kernel
theorem euclid_even_n38 : ∀ k, k ≤ 38 → EuclidEven 38 k := by decide +kernel

end IsobarV.C10
