/-
C10 — Euclidean rhythms, n = 23 … 27: for every k ≤ n the modelled `_euclidean(n, k)` has n steps, k onsets and all
cyclic gaps ⌊n/k⌋ or ⌈n/k⌉ (decided by kernel evaluation of the model; generated file).
-/
import IsobarV.Props.C10_Euclid.Defs

namespace IsobarV.C10

theorem euclid_even_n23 : ∀ k, k ≤ 23 → EuclidEven 23 k := by decide +kernel
theorem euclid_even_n24 : ∀ k, k ≤ 24 → EuclidEven 24 k := by decide +kernel
theorem euclid_even_n25 : ∀ k, k ≤ 25 → EuclidEven 25 k := by decide +kernel
theorem euclid_even_n26 : ∀ k, k ≤ 26 → EuclidEven 26 k := by decide +kernel
theorem euclid_even_n27 : ∀ k, k ≤ 27 → EuclidEven 27 k := by decide +kernel

end IsobarV.C10
