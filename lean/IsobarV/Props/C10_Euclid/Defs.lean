/-
C10 — Euclidean rhythms: what "k onsets spread maximally evenly over n steps" means, as a decidable predicate on
the output of the modelled `_euclidean(length, mod)` (`IsobarV.Pat.euclid`).  The per-`n` modules
`IsobarV/Props/C10_Euclid/N*.lean` decide it for every `k ≤ n`, `n ≤ 64` (the domain the property names).
-/
import IsobarV.Pat.Cls.Seq2

namespace IsobarV.C10
open IsobarV.Pat

/-- Positions of the onsets. -/
def onsets (seq : List Bool) : List Nat := (List.range seq.length).filter (fun i => seq.getD i false)

/-- Distances from each onset to the next one, cyclically (a single onset is at distance `n` from itself). -/
def cyclicGaps (n : Nat) (on : List Nat) : List Nat :=
  match on with
  | [] => []
  | a :: _ => List.zipWith (fun x y => (y + n - x - 1) % n + 1) on (on.tail ++ [a])

/-- `seq` has `n` steps, exactly `k` onsets, and all cyclic gaps between consecutive onsets are `⌊n/k⌋` or `⌈n/k⌉`
    (the onsets are spread maximally evenly). -/
def MaxEven (n k : Nat) (seq : List Bool) : Prop :=
  seq.length = n ∧ seq.count true = k ∧ ∀ g ∈ cyclicGaps n (onsets seq), g = n / k ∨ g = (n + k - 1) / k

instance (n k : Nat) (seq : List Bool) : Decidable (MaxEven n k seq) := by unfold MaxEven; infer_instance

/-- The modelled `_euclidean(n, k)` returns a maximally even rhythm. -/
def EuclidEven (n k : Nat) : Prop :=
  match euclid (n : Int) (k : Int) with
  | some seq => MaxEven n k seq
  | Option.none => False

instance (n k : Nat) : Decidable (EuclidEven n k) := by unfold EuclidEven; split <;> infer_instance

theorem EuclidEven.spec {n k : Nat} (h : EuclidEven n k) : ∃ seq, euclid (n : Int) (k : Int) = some seq ∧ MaxEven n k seq := by
  unfold EuclidEven at h
  split at h
  · rename_i seq hs; exact ⟨seq, hs, h⟩
  · exact absurd h id

example : euclid 8 3 = some [true, false, false, true, false, false, true, false] := by decide
example : euclid 8 5 = some [true, false, true, true, false, true, true, false] := by decide
example : cyclicGaps 8 (onsets [true, false, true, true, false, true, true, false]) = [2, 1, 2, 1, 2] := by decide
example : EuclidEven 8 5 := by decide

end IsobarV.C10
