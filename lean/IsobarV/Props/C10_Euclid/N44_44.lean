/-
C10 — Euclidean rhythms, n = 44 … 44: for every k ≤ n the modelled `_euclidean(n, k)` has n steps, k onsets and all
cyclic gaps ⌊n/k⌋ or ⌈n/k⌉ (decided by kernel evaluation of the model; generated file).
-/
import IsobarV.Props.C10_Euclid.Defs

namespace IsobarV.C10

theorem euclid_even_n44 : ∀ k, k ≤ 44 → EuclidEven 44 k := by decide +kernel

end IsobarV.C10
