/-
C10 — reference definitions of the misc group.

* `PLSystem`: the string is the `depth`-fold rewriting of the start symbol `N` (characterised top-down as well:
  `lsysExpand_outer`), the output is its turtle interpretation `turtle` (a list function), then StopIteration for
  ever — for EVERY rule with `loop=False` (`lsystem_reference`), and with `loop=True` for rest-free rules
  (`lsystem_reference_loop_restfree`).  With `loop=True` a rest token restarts the system (`lsystem_rest_restarts`,
  an observation about the code, not a documented behaviour); exhaustion never loops.
* `PDict`: the rows of the value streams, as long as all of them yield (`dict_reference`); the stream ends with the
  first value that ends (`dict_ends_with_first`, `dict_reference_finite`); `PDict({})` yields `{}` for ever; a list of
  dicts and the dict of the one-shot sequences of its columns are the same object and yield exactly the rows
  (`pdict_forms_agree_struct`, `pdict_forms_agree`).
* `PDictKey`: the lookup of the key stream in the dict stream, step by step (`dictKey_reference`, `dictFind_some`,
  `dictFind_none`, `dictKey_plain_reference`).
-/
import IsobarV.Props.C10_Seq1

namespace IsobarV.C10Misc
open IsobarV.Pat IsobarV.C10Seq1

/-! ### PLSystem: the string -/

theorem lsysRewrite_flatMap (rule : List Char) (f : Char → List Char) (s : List Char) :
    lsysRewrite rule (s.flatMap f) = s.flatMap (fun c => lsysRewrite rule (f c)) := by
  simp [lsysRewrite, List.flatMap_assoc]

/-- **Top-down characterisation of the expansion**: the string of depth `d + 1` is the rule in which every `N` stands
    for the whole string of depth `d` (the code — and the model — rewrite bottom-up: every `N` of the string of depth
    `d` is replaced by the rule). -/
theorem lsysExpand_outer (rule : List Char) (d : Nat) :
    lsysExpand rule (d + 1) = rule.flatMap (fun c => if c = 'N' then lsysExpand rule d else [c]) := by
  induction d with
  | zero =>
    have h : (fun c : Char => if c = 'N' then lsysExpand rule 0 else [c]) = fun c => [c] := by
      funext c
      by_cases hc : c = 'N'
      · simp [hc, lsysExpand]
      · simp [hc]
    rw [h]
    simp [lsysExpand, lsysRewrite]
  | succ d ih =>
    show lsysRewrite rule (lsysExpand rule (d + 1)) = _
    rw [ih, lsysRewrite_flatMap]
    congr 1
    funext c
    by_cases hc : c = 'N'
    · simp only [hc, if_true]; exact ih
    · simp [hc, lsysRewrite]

/-- The expansion consists of `N` and characters of the rule. -/
theorem lsysExpand_mem (rule : List Char) (d : Nat) (c : Char) (h : c ∈ lsysExpand rule d) : c = 'N' ∨ c ∈ rule := by
  induction d with
  | zero => left; simpa [lsysExpand] using h
  | succ d ih =>
    simp only [lsysExpand, lsysRewrite, List.mem_flatMap] at h
    obtain ⟨x, hx, hc⟩ := h
    split at hc
    · exact Or.inr hc
    · simp only [List.mem_singleton] at hc
      subst hc
      exact ih hx

/-! ### PLSystem: the turtle -/

/-- The documented interpretation of an L-system string, as a list function: `N` yields the current state, `_` a
    rest, `+` / `-` move the state, `[` / `]` save and restore it; any other character is ignored.  (`]` without a
    saved state raises IndexError and goes on; `?` is outside the model.) -/
def turtle : List Char → Int → List Int → List Out
  | [], _, _ => []
  | c :: ts, s, stk =>
    if c = 'N' then .val (Val.int s) :: turtle ts s stk
    else if c = '_' then .val Val.none :: turtle ts s stk
    else if c = '-' then turtle ts (s - 1) stk
    else if c = '+' then turtle ts (s + 1) stk
    else if c = '?' then .err .unmodelled :: turtle ts s stk
    else if c = '[' then turtle ts s (s :: stk)
    else if c = ']' then
      match stk with
      | [] => .err .indexError :: turtle ts s []
      | x :: rest => turtle ts x rest
    else turtle ts s stk

/-- The first `n` outcomes of a pattern whose outcomes are `l`, then StopIteration for ever. -/
def padO (n : Nat) (l : List Out) : List Out := (l ++ List.replicate n Out.stop).take n

theorem padO_cons (n : Nat) (x : Out) (l : List Out) : padO (n + 1) (x :: l) = x :: padO n l := by
  simp only [padO, List.cons_append, List.take_succ_cons, List.cons.injEq, true_and]
  rw [List.replicate_succ', ← List.append_assoc, List.take_append_of_le_length]
  simp

theorem padO_nil (n : Nat) : padO n [] = List.replicate n .stop := by simp [padO]

/-- One `LSystem.__next__` against the turtle: either the rest of the string yields nothing (StopIteration, `pos` at
    the end), or the scan stops after `k ≥ 1` tokens on the turtle's next outcome. -/
def ScanRel (ts : List Char) (pos : Nat) (s : Int) (stk : List Int) : Prop :=
  (turtle ts s stk = [] ∧ (lsysScan ts pos s (stk.map Val.int)).out = .stop ∧
    (lsysScan ts pos s (stk.map Val.int)).pos = pos + ts.length) ∨
  ∃ k stk', 1 ≤ k ∧ k ≤ ts.length ∧ (lsysScan ts pos s (stk.map Val.int)).pos = pos + k ∧
    (lsysScan ts pos s (stk.map Val.int)).stack = stk'.map Val.int ∧
    turtle ts s stk = (lsysScan ts pos s (stk.map Val.int)).out ::
      turtle (ts.drop k) (lsysScan ts pos s (stk.map Val.int)).state stk'

theorem scanRel_skip {c : Char} {ts : List Char} {pos : Nat} {s s' : Int} {stk stk' : List Int}
    (h1 : lsysScan (c :: ts) pos s (stk.map Val.int) = lsysScan ts (pos + 1) s' (stk'.map Val.int))
    (h2 : turtle (c :: ts) s stk = turtle ts s' stk') (h : ScanRel ts (pos + 1) s' stk') :
    ScanRel (c :: ts) pos s stk := by
  unfold ScanRel at h ⊢
  rw [h1, h2]
  rcases h with ⟨a, b, c'⟩ | ⟨k, stk'', k1, k2, e1, e2, e3⟩
  · left
    refine ⟨a, b, ?_⟩
    rw [c']; simp only [List.length_cons]; omega
  · right
    refine ⟨k + 1, stk'', by omega, by simp only [List.length_cons]; omega, by rw [e1]; omega, e2, ?_⟩
    rw [e3]; simp

theorem scanRel_emit {c : Char} {ts : List Char} {pos : Nat} {s : Int} {stk : List Int} {o : Out}
    (h1 : lsysScan (c :: ts) pos s (stk.map Val.int) = { out := o, pos := pos + 1, state := s, stack := stk.map Val.int })
    (h2 : turtle (c :: ts) s stk = o :: turtle ts s stk) : ScanRel (c :: ts) pos s stk := by
  right
  refine ⟨1, stk, Nat.le_refl 1, by simp, by rw [h1], by rw [h1], ?_⟩
  rw [h1, h2]; simp

/-- **`LSystem.__next__` follows the turtle**, from any position, state and stack. -/
theorem lsystem_scan_turtle (ts : List Char) : ∀ (pos : Nat) (s : Int) (stk : List Int), ScanRel ts pos s stk := by
  induction ts with
  | nil => intro pos s stk; left; simp [turtle, lsysScan]
  | cons c ts ih =>
    intro pos s stk
    by_cases hN : c = 'N'
    · exact scanRel_emit (o := .val (Val.int s)) (by simp only [lsysScan, if_pos hN]) (by simp only [turtle, if_pos hN])
    by_cases hR : c = '_'
    · exact scanRel_emit (o := .val Val.none) (by simp only [lsysScan, if_neg hN, if_pos hR])
        (by simp only [turtle, if_neg hN, if_pos hR])
    by_cases hm : c = '-'
    · exact scanRel_skip (s' := s - 1) (stk' := stk) (by simp only [lsysScan, if_neg hN, if_neg hR, if_pos hm])
        (by simp only [turtle, if_neg hN, if_neg hR, if_pos hm]) (ih _ _ _)
    by_cases hp : c = '+'
    · exact scanRel_skip (s' := s + 1) (stk' := stk) (by simp only [lsysScan, if_neg hN, if_neg hR, if_neg hm, if_pos hp])
        (by simp only [turtle, if_neg hN, if_neg hR, if_neg hm, if_pos hp]) (ih _ _ _)
    by_cases hq : c = '?'
    · exact scanRel_emit (o := .err .unmodelled) (by simp only [lsysScan, if_neg hN, if_neg hR, if_neg hm, if_neg hp, if_pos hq])
        (by simp only [turtle, if_neg hN, if_neg hR, if_neg hm, if_neg hp, if_pos hq])
    by_cases ho : c = '['
    · exact scanRel_skip (s' := s) (stk' := s :: stk)
        (by simp only [lsysScan, if_neg hN, if_neg hR, if_neg hm, if_neg hp, if_neg hq, if_pos ho, List.map_cons])
        (by simp only [turtle, if_neg hN, if_neg hR, if_neg hm, if_neg hp, if_neg hq, if_pos ho]) (ih _ _ _)
    by_cases hc : c = ']'
    · cases stk with
      | nil =>
        exact scanRel_emit (o := .err .indexError)
          (by simp only [lsysScan, if_neg hN, if_neg hR, if_neg hm, if_neg hp, if_neg hq, if_neg ho, if_pos hc, List.map_nil])
          (by simp only [turtle, if_neg hN, if_neg hR, if_neg hm, if_neg hp, if_neg hq, if_neg ho, if_pos hc])
      | cons x rest =>
        exact scanRel_skip (s' := x) (stk' := rest)
          (by simp only [lsysScan, if_neg hN, if_neg hR, if_neg hm, if_neg hp, if_neg hq, if_neg ho, if_pos hc, List.map_cons,
            lsysInt, Val.int])
          (by simp only [turtle, if_neg hN, if_neg hR, if_neg hm, if_neg hp, if_neg hq, if_neg ho, if_pos hc]) (ih _ _ _)
    · exact scanRel_skip (s' := s) (stk' := stk)
        (by simp only [lsysScan, if_neg hN, if_neg hR, if_neg hm, if_neg hp, if_neg hq, if_neg ho, if_neg hc])
        (by simp only [turtle, if_neg hN, if_neg hR, if_neg hm, if_neg hp, if_neg hq, if_neg ho, if_neg hc]) (ih _ _ _)

/-- Only a rest token makes the scan return `None`. -/
theorem scan_none_mem (ts : List Char) : ∀ (pos : Nat) (s : Int) (stk : List Val),
    (lsysScan ts pos s stk).out = .val Val.none → '_' ∈ ts := by
  induction ts with
  | nil => intro pos s stk h; simp [lsysScan] at h
  | cons c ts ih =>
    intro pos s stk
    simp only [lsysScan]
    repeat' split
    all_goals first
      | (intro h; simp [Val.int, Val.none] at h; done)
      | (intro _; simp_all; done)
      | (intro h; exact List.mem_cons_of_mem _ (ih _ _ _ h))

theorem lsysSt_n2 (st : St) (r : LsysRes) : (lsysSt st r).n2.toNat = r.pos := by simp [lsysSt]

/-- At the end of the string every step is StopIteration. -/
theorem lsystem_stopped (rec : Rec) (kids : List Pat) : ∀ (n : Nat) (st : St), (lsysTokens st).length ≤ st.n2.toNat →
    clsOuts stepLsystem rec n kids st = List.replicate n .stop := by
  intro n
  induction n with
  | zero => intros; rfl
  | succ n ih =>
    intro st h
    have hdrop : (lsysTokens st).drop st.n2.toNat = [] := List.drop_eq_nil_of_le h
    have hf : lsysFirst st = { out := .stop, pos := st.n2.toNat, state := st.n3, stack := st.buf } := by
      unfold lsysFirst; rw [hdrop]; rfl
    have hcnd : ¬ ((lsysFirst st).out = .val Val.none ∧ st.n1 ≠ 0) := by rw [hf]; simp
    simp only [clsOuts, stepLsystem, if_neg hcnd, List.replicate_succ]
    rw [ih]
    · rw [hf]
    · show (lsysTokens st).length ≤ (lsysSt st (lsysFirst st)).n2.toNat
      rw [lsysSt_n2, hf]; exact h

theorem lsystem_run (rec : Rec) (kids : List Pat) : ∀ (n : Nat) (st : St) (ts : List Char) (s : Int) (stk : List Int),
    (st.n1 = 0 ∨ '_' ∉ lsysTokens st) →
    (lsysTokens st).drop st.n2.toNat = ts → st.n3 = s → st.buf = stk.map Val.int →
    clsOuts stepLsystem rec n kids st = padO n (turtle ts s stk) := by
  intro n
  induction n with
  | zero => intros; simp [clsOuts, padO]
  | succ n ih =>
    intro st ts s stk hloop hdrop hs hbuf
    have hf : lsysFirst st = lsysScan ts st.n2.toNat s (stk.map Val.int) := by
      unfold lsysFirst; rw [hdrop, hs, hbuf]
    have hcnd : ¬ ((lsysFirst st).out = .val Val.none ∧ st.n1 ≠ 0) := by
      rintro ⟨h1, h2⟩
      rcases hloop with h | h
      · exact h2 h
      · apply h
        rw [hf] at h1
        have := scan_none_mem _ _ _ _ h1
        rw [← hdrop] at this
        exact List.mem_of_mem_drop this
    simp only [clsOuts, stepLsystem, if_neg hcnd]
    rcases lsystem_scan_turtle ts st.n2.toNat s stk with ⟨a, b, c⟩ | ⟨k, stk', k1, k2, e1, e2, e3⟩
    · rw [a, padO_nil, List.replicate_succ, hf, b]
      congr 1
      apply lsystem_stopped
      show (lsysTokens st).length ≤ (lsysSt st _).n2.toNat
      rw [lsysSt_n2, c, ← hdrop, List.length_drop]
      omega
    · rw [e3, padO_cons, hf]
      congr 1
      apply ih
      · exact hloop
      · show (lsysTokens st).drop (lsysSt st _).n2.toNat = _
        rw [lsysSt_n2, e1, ← hdrop, List.drop_drop]
      · rfl
      · exact e2

/-- **PLSystem(rule, depth, loop=False)** yields the turtle interpretation of the `depth`-fold expansion of `N`,
    then StopIteration for ever — for every rule (rests and unbalanced brackets included). -/
theorem lsystem_reference (rec : Rec) (kids : List Pat) (rule : String) (depth n : Nat) :
    clsOuts stepLsystem rec n kids { v0 := .str rule, n0 := (depth : Int), n1 := 0 } =
      padO n (turtle (lsysExpand rule.toList depth) 0 []) :=
  lsystem_run rec kids n _ _ 0 [] (Or.inl rfl) (by simp [lsysTokens, lsysRule]) rfl rfl

/-- **PLSystem(rule, depth, loop=True)** for a rule without rest tokens: the same sequence — the `loop` flag does
    not loop on exhaustion. -/
theorem lsystem_reference_loop_restfree (rec : Rec) (kids : List Pat) (rule : String) (depth n : Nat) (loop : Int)
    (h : '_' ∉ rule.toList) :
    clsOuts stepLsystem rec n kids { v0 := .str rule, n0 := (depth : Int), n1 := loop } =
      padO n (turtle (lsysExpand rule.toList depth) 0 []) := by
  apply lsystem_run rec kids n _ _ 0 [] _ (by simp [lsysTokens, lsysRule]) rfl rfl
  right
  intro hm
  have : lsysTokens { v0 := .str rule, n0 := (depth : Int), n1 := loop } = lsysExpand rule.toList depth := by
    simp [lsysTokens, lsysRule]
  rw [this] at hm
  rcases lsysExpand_mem _ _ _ hm with h1 | h1
  · exact absurd h1 (by decide)
  · exact h h1

/-- Observation (`loop=True`): when the scan meets a rest token, the system is restarted and the step yields the
    FIRST outcome of the string (not a rest, unless the string starts with one). -/
theorem lsystem_rest_restarts (rec : Rec) (kids : List Pat) (st : St) (h1 : (lsysFirst st).out = .val Val.none)
    (h2 : st.n1 ≠ 0) :
    (stepLsystem rec kids st).out = (lsysScan (lsysTokens st) 0 0 []).out ∧
    (stepLsystem rec kids st).st = lsysSt st (lsysScan (lsysTokens st) 0 0 []) := by
  simp only [stepLsystem, if_pos (And.intro h1 h2), lsysAgain]
  exact ⟨trivial, trivial⟩

/-! ### PDict -/

/-- Row `i` of the columns `cols` is the list of their `i`-th entries. -/
def rowsOf : Nat → List (List Atom) → List (List Atom)
  | 0, _ => []
  | n + 1, cols => cols.map (fun c => c.headD Atom.none) :: rowsOf n (cols.map List.tail)

/-- Two lists related element by element. -/
inductive All2 {α β : Type} (R : α → β → Prop) : List α → List β → Prop where
  | nil : All2 R [] []
  | cons {a : α} {b : β} {as : List α} {bs : List β} : R a b → All2 R as bs → All2 R (a :: as) (b :: bs)

/-- The first `n` outcomes of the value pattern `k` are the scalars `c`. -/
def ColPrefix (rec : Rec) (n : Nat) (k : Pat) (c : List Atom) : Prop :=
  recOuts rec n k = c.map (fun x => Out.val (.a x))

theorem stepAll_cols (rec : Rec) (n : Nat) {kids : List Pat} {cols : List (List Atom)}
    (h : All2 (ColPrefix rec (n + 1)) kids cols) :
    (stepAll rec kids).fail = Option.none ∧ (stepAll rec kids).vals = cols.map (fun c => c.headD Atom.none) ∧
    All2 (ColPrefix rec n) (stepAll rec kids).kids (cols.map List.tail) := by
  induction h with
  | nil => exact ⟨rfl, rfl, All2.nil⟩
  | @cons k c ks cs hkc _ ih =>
    obtain ⟨i1, i2, i3⟩ := ih
    unfold ColPrefix at hkc
    cases c with
    | nil => simp [recOuts] at hkc
    | cons x c' =>
      simp only [recOuts, List.map_cons, List.cons.injEq] at hkc
      simp only [stepAll, hkc.1, i1, i2, List.map_cons, List.headD_cons, List.tail_cons]
      exact ⟨trivial, trivial, All2.cons hkc.2 i3⟩

/-- **PDict(dict of patterns)**: as long as every value pattern yields, the dicts are the rows of the value streams
    (value `j` of dict `i` = the `i`-th value of pattern `j`), for arbitrary value patterns. -/
theorem dict_reference (rec : Rec) (n : Nat) (kids : List Pat) (cols : List (List Atom)) (st : St)
    (h : All2 (ColPrefix rec n) kids cols) :
    clsOuts stepTuple rec n kids st = (rowsOf n cols).map (fun r => Out.val (.tup r)) := by
  induction n generalizing kids cols with
  | zero => rfl
  | succ n ih =>
    obtain ⟨i1, i2, i3⟩ := stepAll_cols rec n h
    simp only [clsOuts, stepTuple, i1, i2, rowsOf, List.map_cons]
    rw [ih _ _ i3]

theorem stepAll_first_stop (rec : Rec) (pre : List Pat) (k : Pat) (post : List Pat)
    (hpre : ∀ x ∈ pre, ∃ a, (rec x).out = .val (.a a)) (hk : (rec k).out = .stop) :
    (stepAll rec (pre ++ k :: post)).fail = some .stop ∧
    (stepAll rec (pre ++ k :: post)).kids = pre.map (fun x => (rec x).p) ++ (rec k).p :: post := by
  induction pre with
  | nil => simp [stepAll, hk]
  | cons x xs ih =>
    obtain ⟨a, ha⟩ := hpre x (by simp)
    obtain ⟨i1, i2⟩ := ih (fun y hy => hpre y (by simp [hy]))
    simp only [List.cons_append, stepAll, ha, i1, i2, List.map_cons]
    exact ⟨trivial, trivial⟩

/-- **StopIteration of any value ends the stream**: the values before it (in key order) have been consumed, the
    ones after it have not. -/
theorem dict_ends_with_first (rec : Rec) (pre : List Pat) (k : Pat) (post : List Pat) (st : St)
    (hpre : ∀ x ∈ pre, ∃ a, (rec x).out = .val (.a a)) (hk : (rec k).out = .stop) :
    (stepTuple rec (pre ++ k :: post) st).out = .stop ∧
    (stepTuple rec (pre ++ k :: post) st).kids = pre.map (fun x => (rec x).p) ++ (rec k).p :: post := by
  obtain ⟨i1, i2⟩ := stepAll_first_stop rec pre k post hpre hk
  simp only [stepTuple, i1, i2]
  exact ⟨trivial, trivial⟩

/-- `PDict({})` (and `PDict([])`, `PDict([{}, {}])`) yields the empty dict for ever. -/
theorem dict_empty (rec : Rec) (n : Nat) (st : St) :
    clsOuts stepTuple rec n [] st = List.replicate n (.val (.tup [])) := by
  induction n with
  | zero => rfl
  | succ n ih => simp only [clsOuts, List.replicate_succ]; rw [← ih]; rfl

/-- The value pattern `k` yields exactly the scalars `col`, then StopIteration for ever. -/
def Yields (rec : Rec) (k : Pat) (col : List Atom) : Prop := ∀ n, recOuts rec n k = pad n (col.map Val.a)

theorem Yields.cons {rec : Rec} {k : Pat} {x : Atom} {c : List Atom} (h : Yields rec k (x :: c)) :
    (rec k).out = .val (.a x) ∧ Yields rec (rec k).p c := by
  constructor
  · have := h 1
    simp only [recOuts, List.map_cons, pad_cons, pad_zero, List.cons.injEq, and_true] at this
    exact this
  · intro n
    have := h (n + 1)
    simp only [recOuts, List.map_cons, pad_cons, List.cons.injEq] at this
    exact this.2

theorem Yields.nil {rec : Rec} {k : Pat} (h : Yields rec k []) : (rec k).out = .stop ∧ Yields rec (rec k).p [] := by
  constructor
  · have := h 1
    simp only [recOuts, List.map_nil, pad_nil, List.replicate_succ, List.replicate_zero, List.cons.injEq, and_true] at this
    exact this
  · intro n
    have := h (n + 1)
    simp only [recOuts, List.map_nil, pad_nil, List.replicate_succ, List.cons.injEq] at this
    simp only [List.map_nil, pad_nil]
    exact this.2

theorem dict_all_ended (rec : Rec) : ∀ (n : Nat) (kids : List Pat) (cols : List (List Atom)) (st : St),
    cols ≠ [] → All2 (Yields rec) kids cols → (∀ c ∈ cols, c.length = 0) →
    clsOuts stepTuple rec n kids st = List.replicate n .stop := by
  intro n
  induction n with
  | zero => intros; rfl
  | succ n ih =>
    intro kids cols st hne h hlen
    cases h with
    | nil => exact absurd rfl hne
    | @cons k c ks cs hkc hrest =>
      have hc : c = [] := List.eq_nil_of_length_eq_zero (hlen c (by simp))
      subst hc
      obtain ⟨h1, h2⟩ := hkc.nil
      simp only [clsOuts, stepTuple, stepAll, h1, List.replicate_succ]
      rw [ih _ ([] :: cs) st (by simp) (All2.cons h2 hrest) hlen]

theorem stepAll_yields (rec : Rec) (L : Nat) {kids : List Pat} {cols : List (List Atom)}
    (h : All2 (Yields rec) kids cols) (hlen : ∀ c ∈ cols, c.length = L + 1) :
    (stepAll rec kids).fail = Option.none ∧ (stepAll rec kids).vals = cols.map (fun c => c.headD Atom.none) ∧
    All2 (Yields rec) (stepAll rec kids).kids (cols.map List.tail) := by
  induction h with
  | nil => exact ⟨rfl, rfl, All2.nil⟩
  | @cons k c ks cs hkc _ ih =>
    obtain ⟨i1, i2, i3⟩ := ih (fun c hc => hlen c (by simp [hc]))
    cases c with
    | nil => have := hlen [] (by simp); simp at this
    | cons x c' =>
      obtain ⟨h1, h2⟩ := hkc.cons
      simp only [stepAll, h1, i1, i2, List.map_cons, List.headD_cons, List.tail_cons]
      exact ⟨trivial, trivial, All2.cons h2 i3⟩

/-- **PDict of finite value streams of equal length `L`**: exactly the `L` rows, then StopIteration for ever. -/
theorem dict_reference_finite (rec : Rec) (L : Nat) : ∀ (kids : List Pat) (cols : List (List Atom)) (st : St) (n : Nat),
    cols ≠ [] → All2 (Yields rec) kids cols → (∀ c ∈ cols, c.length = L) →
    clsOuts stepTuple rec n kids st = pad n ((rowsOf L cols).map Val.tup) := by
  induction L with
  | zero =>
    intro kids cols st n hne h hlen
    simp only [rowsOf, List.map_nil, pad_nil]
    exact dict_all_ended rec n kids cols st hne h hlen
  | succ L ih =>
    intro kids cols st n hne h hlen
    cases n with
    | zero => simp [clsOuts, pad]
    | succ n =>
      obtain ⟨i1, i2, i3⟩ := stepAll_yields rec L h hlen
      simp only [clsOuts, stepTuple, i1, i2, rowsOf, List.map_cons, pad_cons]
      congr 1
      apply ih _ _ st n _ i3
      · intro c hc
        simp only [List.mem_map] at hc
        obtain ⟨c0, hc0, rfl⟩ := hc
        have := hlen c0 hc0
        simp [this]
      · cases cols with
        | nil => exact absurd rfl hne
        | cons c cs => simp

/-! ### PDict: the two constructor forms -/

/-- **A `PDict` built from a list of dicts is the dict of the one-shot sequences of its columns** (what the
    constructor does; `rows` = the dicts' values in key order, `m ≥ 1` keys). -/
theorem chunkRows_flatten (m : Nat) (hm : 1 ≤ m) : ∀ (rows : List (List Pat)) (fuel : Nat),
    (∀ r ∈ rows, r.length = m) → rows.length ≤ fuel → chunkRows m fuel rows.flatten = rows := by
  intro rows
  induction rows with
  | nil => intro fuel _ _; cases fuel <;> simp [chunkRows]
  | cons r rs ih =>
    intro fuel hr hf
    cases fuel with
    | zero => simp at hf
    | succ f =>
      have hrl : r.length = m := hr r (by simp)
      cases r with
      | nil => simp at hrl; omega
      | cons y ys =>
        simp only [List.flatten_cons, List.cons_append, chunkRows]
        rw [← List.cons_append, List.take_left' hrl, List.drop_left' hrl,
          ih f (fun r hr' => hr r (by simp [hr'])) (by simpa using hf)]

theorem length_le_flatten (m : Nat) (hm : 1 ≤ m) (rows : List (List Pat)) (hr : ∀ r ∈ rows, r.length = m) :
    rows.length ≤ rows.flatten.length := by
  induction rows with
  | nil => simp
  | cons r rs ih =>
    have := hr r (by simp)
    have := ih (fun r hr' => hr r (by simp [hr']))
    simp only [List.length_cons, List.flatten_cons, List.length_append]
    omega

theorem pdict_forms_agree_struct (m : Nat) (hm : 1 ≤ m) (rows : List (List Pat)) (keys : List Val) (hk : keys.length = m)
    (hr : ∀ r ∈ rows, r.length = m) :
    construct (.node .dict rows.flatten { n0 := 1, buf := keys }) =
      .node .dict ((List.range m).map (fun j => seqOnce (dictColumn rows j))) { n0 := 0, buf := keys } := by
  simp only [construct, if_true, dictColumns, hk]
  rw [chunkRows_flatten m hm rows _ hr (length_le_flatten m hm rows hr)]

/-- The `j`-th entries of the rows. -/
def colsOfRows (m : Nat) (arows : List (List Atom)) : List (List Atom) :=
  (List.range m).map (fun j => arows.map (fun r => r.getD j Atom.none))

def constA (a : Atom) : Pat := Pat.const (.a a)

theorem dictColumn_const (m : Nat) (arows : List (List Atom)) (hr : ∀ r ∈ arows, r.length = m) (j : Nat) (hj : j < m) :
    dictColumn (arows.map (fun r => r.map constA)) j = (arows.map (fun r => r.getD j Atom.none)).map constA := by
  induction arows with
  | nil => rfl
  | cons r rs ih =>
    have hrl : r.length = m := hr r (by simp)
    have ih' := ih (fun r hr' => hr r (by simp [hr']))
    simp only [dictColumn] at ih' ⊢
    have hlt : j < r.length := by omega
    simp only [List.map_cons, List.filterMap_cons, List.getElem?_map, List.getElem?_eq_getElem hlt, Option.map_some, ih',
      List.getD_eq_getElem?_getD, Option.getD_some]

theorem range_getD {α : Type} (r : List α) (d : α) (m : Nat) (h : r.length = m) :
    (List.range m).map (fun j => r.getD j d) = r := by
  apply List.ext_getElem
  · simp [h]
  · intro i h1 h2
    simp only [List.getElem_map, List.getElem_range, List.getD_eq_getElem?_getD, List.getElem?_eq_getElem h2, Option.getD_some]

theorem rowsOf_colsOfRows (m : Nat) (arows : List (List Atom)) (hr : ∀ r ∈ arows, r.length = m) :
    rowsOf arows.length (colsOfRows m arows) = arows := by
  induction arows with
  | nil => rfl
  | cons r rs ih =>
    have hrl : r.length = m := hr r (by simp)
    have ih' := ih (fun r hr' => hr r (by simp [hr']))
    simp only [List.length_cons, rowsOf, colsOfRows, List.map_map, List.map_cons] at ih' ⊢
    have h1 : (List.range m).map ((fun c : List Atom => c.headD Atom.none) ∘ fun j => r.getD j Atom.none :: rs.map (fun r => r.getD j Atom.none)) = r := by
      have hf : ((fun c : List Atom => c.headD Atom.none) ∘ fun j => r.getD j Atom.none :: rs.map (fun r => r.getD j Atom.none)) =
          fun j => r.getD j Atom.none := by
        funext j; simp
      rw [hf, range_getD r Atom.none m hrl]
    have h2 : (List.range m).map (List.tail ∘ fun j => r.getD j Atom.none :: rs.map (fun r => r.getD j Atom.none)) =
        (List.range m).map (fun j => rs.map (fun r => r.getD j Atom.none)) := by
      apply List.map_congr_left
      intro j _
      simp
    rw [h1, h2, ih']

theorem constItems_const (fuel : Nat) (c : List Atom) : ConstItems (stepF (fuel + 1)) (c.map constA) (c.map Val.a) := by
  induction c with
  | nil => exact ConstItems.nil
  | cons x xs ih => exact ConstItems.cons (constUnder_stepF fuel _) ih

theorem seqOnce_yields (fuel : Nat) (c : List Atom) : Yields (stepF (fuel + 2)) (seqOnce (c.map constA)) c := by
  intro n
  rw [recOuts_stepF]
  unfold seqOnce
  rw [outs_eq_clsOuts]
  have hc : clsStep .seq = stepSeq := rfl
  rw [hc]
  have := seq_reference_const (stepF (fuel + 1)) (c.map constA) (c.map Val.a) 1 (constItems_const fuel c) n
  simp only [List.replicate_one, List.flatten_cons, List.flatten_nil, List.append_nil] at this
  exact this

theorem forall2_map_left {α β : Type} (R : α → β → Prop) (f : β → α) (l : List β) (h : ∀ x ∈ l, R (f x) x) :
    All2 R (l.map f) l := by
  induction l with
  | nil => exact All2.nil
  | cons x xs ih => exact All2.cons (h x (by simp)) (ih (fun y hy => h y (by simp [hy])))

/-- **A dict of one-shot sequences and the corresponding list of dicts describe the same event stream**: for rows
    of scalars over `m ≥ 1` keys, (1) `PDict([row₀, row₁, …])` IS the object `PDict({key_j: PSequence(column_j, 1)})`
    and (2) that object yields exactly `row₀, row₁, …` and then StopIteration for ever. -/
theorem pdict_forms_agree (fuel n m : Nat) (hm : 1 ≤ m) (arows : List (List Atom)) (keys : List Val)
    (hk : keys.length = m) (hr : ∀ r ∈ arows, r.length = m) :
    construct (.node .dict (arows.map (fun r => r.map constA)).flatten { n0 := 1, buf := keys }) =
      .node .dict ((colsOfRows m arows).map (fun c => seqOnce (c.map constA))) { n0 := 0, buf := keys } ∧
    outs (fuel + 3) n (.node .dict ((colsOfRows m arows).map (fun c => seqOnce (c.map constA))) { n0 := 0, buf := keys }) =
      pad n (arows.map Val.tup) := by
  constructor
  · rw [pdict_forms_agree_struct m hm _ keys hk (by
      intro r hr'
      simp only [List.mem_map] at hr'
      obtain ⟨r0, h0, rfl⟩ := hr'
      simp [hr r0 h0])]
    congr 1
    simp only [colsOfRows, List.map_map]
    apply List.map_congr_left
    intro j hj
    simp only [List.mem_range] at hj
    simp only [Function.comp, dictColumn_const m arows hr j hj]
  · rw [outs_eq_clsOuts]
    have hc : clsStep .dict = stepTuple := rfl
    rw [hc]
    have hne : colsOfRows m arows ≠ [] := by
      unfold colsOfRows
      cases m with
      | zero => omega
      | succ m => simp [List.range_succ]
    have hlen : ∀ c ∈ colsOfRows m arows, c.length = arows.length := by
      intro c hc
      simp only [colsOfRows, List.mem_map] at hc
      obtain ⟨j, _, rfl⟩ := hc
      simp
    rw [dict_reference_finite (stepF (fuel + 2)) arows.length _ (colsOfRows m arows) { n0 := 0, buf := keys } n hne
      (forall2_map_left _ _ _ (fun c _ => seqOnce_yields fuel c)) hlen]
    rw [rowsOf_colsOfRows m arows hr]

/-! ### PDictKey -/

/-- The position found by the lookup holds a key equal to the one looked up, and no earlier key is equal to it. -/
theorem dictFind_some (k : Atom) (keys : List Val) : ∀ (i j : Nat), dictFind k keys i = some j →
    ∃ (t : Nat) (k' : Atom), j = i + t ∧ keys[t]? = some (Val.a k') ∧ dictKeyEq k k' = true ∧
      ∀ (u : Nat), u < t → ∀ (k'' : Atom), keys[u]? = some (Val.a k'') → dictKeyEq k k'' = false := by
  induction keys with
  | nil => intro i j h; simp [dictFind] at h
  | cons x xs ih =>
    intro i j h
    cases x with
    | a k0 =>
      simp only [dictFind] at h
      split at h
      · rename_i heq
        simp only [Option.some.injEq] at h
        exact ⟨0, k0, by omega, by simp, heq, by intro u hu; omega⟩
      · rename_i hne
        obtain ⟨t, k', e1, e2, e3, e4⟩ := ih (i + 1) j h
        refine ⟨t + 1, k', by omega, by simpa using e2, e3, ?_⟩
        intro u hu k'' hk''
        cases u with
        | zero =>
          simp only [List.getElem?_cons_zero, Option.some.injEq, Val.a.injEq] at hk''
          subst hk''
          simpa using hne
        | succ u => exact e4 u (by omega) k'' (by simpa using hk'')
    | tup ys =>
      simp only [dictFind] at h
      obtain ⟨t, k', e1, e2, e3, e4⟩ := ih (i + 1) j h
      refine ⟨t + 1, k', by omega, by simpa using e2, e3, ?_⟩
      intro u hu k'' hk''
      cases u with
      | zero => simp at hk''
      | succ u => exact e4 u (by omega) k'' (by simpa using hk'')

/-- A failed lookup (KeyError) means no key is equal to the one looked up. -/
theorem dictFind_none (k : Atom) (keys : List Val) : ∀ (i : Nat), dictFind k keys i = Option.none →
    ∀ (u : Nat) (k'' : Atom), keys[u]? = some (Val.a k'') → dictKeyEq k k'' = false := by
  induction keys with
  | nil => intro i _ u k'' h; simp at h
  | cons x xs ih =>
    intro i h u k'' hk''
    cases x with
    | a k0 =>
      simp only [dictFind] at h
      split at h
      · cases h
      · rename_i hne
        cases u with
        | zero =>
          simp only [List.getElem?_cons_zero, Option.some.injEq, Val.a.injEq] at hk''
          subst hk''
          simpa using hne
        | succ u => exact ih (i + 1) h u k'' (by simpa using hk'')
    | tup ys =>
      simp only [dictFind] at h
      cases u with
      | zero => simp at hk''
      | succ u => exact ih (i + 1) h u k'' (by simpa using hk'')

/-- **PDictKey(pattern of dicts, key)**: the `i`-th value is the `i`-th key looked up in the `i`-th dict (KeyError when
    it is absent), for arbitrary dict and key patterns, as long as both yield. -/
theorem dictKey_reference (rec : Rec) (n : Nat) (key d : Pat) (st : St) (h0 : st.n0 = 0) (ds : List (List Atom))
    (ks : List Val) (hd : recOuts rec n d = ds.map (fun xs => Out.val (.tup xs))) (hk : recOuts rec n key = ks.map Out.val) :
    clsOuts stepDictKey rec n [key, d] st = List.zipWith (fun xs k => dictLookup st.buf xs k) ds ks := by
  induction n generalizing key d ds ks with
  | zero =>
    cases ds <;> cases ks <;> simp_all [recOuts, clsOuts]
  | succ n ih =>
    cases ds with
    | nil => simp [recOuts] at hd
    | cons xs ds =>
      cases ks with
      | nil => simp [recOuts] at hk
      | cons k ks =>
        simp only [recOuts, List.map_cons, List.cons.injEq] at hd hk
        have hstep : stepDictKey rec [key, d] st =
            { out := dictLookup st.buf xs k, kids := [(rec key).p, (rec d).p], st := st } := by
          simp [stepDictKey, h0, stepKid, hd.1, hk.1]
        simp only [clsOuts, hstep, List.zipWith_cons_cons]
        rw [ih _ _ _ _ hd.2 hk.2]

/-- **PDictKey(plain dict, key)**: the value stored under the key (resolved if it is a pattern), KeyError when the
    key is absent. -/
theorem dictKey_plain_reference (rec : Rec) (key : Pat) (vals : List Pat) (st : St) (h1 : st.n0 ≠ 0) (k : Atom)
    (hk : (rec key).out = .val (.a k)) :
    (∀ j v, dictFind k st.buf 0 = some j → vals[j]? = some v → (stepDictKey rec (key :: vals) st).out = (rec v).out) ∧
    (dictFind k st.buf 0 = Option.none → (stepDictKey rec (key :: vals) st).out = .err .keyError) := by
  constructor
  · intro j v hj hv
    simp [stepDictKey, h1, stepKid, hk, hj, hv]
  · intro hj
    simp [stepDictKey, h1, stepKid, hk, hj]

/-! Non-vacuity -/
section Example
/-- `PLSystem("N[+N]-N", 2, False)` -/
example : clsOuts stepLsystem (stepF 5) 11 [] { v0 := .str "N[+N]-N", n0 := 2, n1 := 0 } =
    [.val (.int 0), .val (.int 1), .val (.int (-1)), .val (.int 0), .val (.int 1), .val (.int (-1)),
     .val (.int (-2)), .val (.int (-1)), .val (.int (-3)), .stop, .stop] := by decide
example : turtle (lsysExpand "N[+N]-N".toList 2) 0 [] =
    [.val (.int 0), .val (.int 1), .val (.int (-1)), .val (.int 0), .val (.int 1), .val (.int (-1)),
     .val (.int (-2)), .val (.int (-1)), .val (.int (-3))] := by decide
example : lsysExpand "N+N".toList 2 = "N+N+N+N".toList := by decide
/-- `loop=True` and a rest token: the system restarts at the rest (`PLSystem("N+N_", 1, True)` never ends) -/
example : clsOuts stepLsystem (stepF 5) 6 [] { v0 := .str "N+N_", n0 := 1, n1 := 1 } =
    [.val (.int 0), .val (.int 1), .val (.int 0), .val (.int 1), .val (.int 0), .val (.int 1)] := by decide
example : clsOuts stepLsystem (stepF 5) 4 [] { v0 := .str "N+N_", n0 := 1, n1 := 0 } =
    [.val (.int 0), .val (.int 1), .val Val.none, .stop] := by decide
/-- `PDict({"a": PSequence([1, 2, 3], 1), "b": 5})` -/
example : clsOuts stepTuple (stepF 5) 5
    [.node .seq [Pat.const (.int 1), Pat.const (.int 2), Pat.const (.int 3)] { n0 := 1 }, Pat.const (.int 5)] {} =
    [.val (.tup [.int 1, .int 5]), .val (.tup [.int 2, .int 5]), .val (.tup [.int 3, .int 5]), .stop, .stop] := by decide
/-- `PDict([{"a": 1, "b": 2}, {"a": 3, "b": 4}])` is `PDict({"a": PSequence([1, 3], 1), "b": PSequence([2, 4], 1)})` -/
example : construct (.node .dict [constA (.int 1), constA (.int 2), constA (.int 3), constA (.int 4)] { n0 := 1, buf := [.str "a", .str "b"] }) =
    .node .dict [seqOnce [constA (.int 1), constA (.int 3)], seqOnce [constA (.int 2), constA (.int 4)]] { n0 := 0, buf := [.str "a", .str "b"] } := by
  rfl
example : outs 5 4 (construct (.node .dict [constA (.int 1), constA (.int 2), constA (.int 3), constA (.int 4)] { n0 := 1, buf := [.str "a", .str "b"] })) =
    [.val (.tup [.int 1, .int 2]), .val (.tup [.int 3, .int 4]), .stop, .stop] := by decide
/-- `PDictKey(PDict({"a": PSequence([1, 2, 3]), "b": 7}), PSequence(["a", "b", "c"]))` -/
example : clsOuts stepDictKey (stepF 5) 3
    [.node .seq [Pat.const (.str "a"), Pat.const (.str "b"), Pat.const (.str "c")] { n0 := -1 },
     .node .dict [.node .seq [Pat.const (.int 1), Pat.const (.int 2), Pat.const (.int 3)] { n0 := -1 }, Pat.const (.int 7)] {}]
    { n0 := 0, buf := [.str "a", .str "b"] } = [.val (.int 1), .val (.int 7), .err .keyError] := by decide
end Example

end IsobarV.C10Misc
