/-
C01 — the float clock of the implementation (after fix fb10b52) does not drift.

`Props/C01.lean` proves the closed form of the onsets in the integer-time model.  The implementation keeps
its time in floats; `Sched/FloatTime.lean` models `Timeline.time_after_tick` with an abstract rounding
function.  The statements below are the property's "for every run length" on that model.
-/
import IsobarV.Props.C01
import IsobarV.Sched.FloatTime
import IsobarV.Sched.FloatSum

namespace IsobarV.C01
open IsobarV.FloatTime IsobarV.FloatSum

/-- **For every run length the tick clock is one rounding away from the ideal time** (and exactly the
    correctly rounded quotient): nothing accumulates from tick to tick.  `fl` is any rounding with relative
    error at most `ε`; for IEEE doubles (ε = 2⁻⁵³) the bound on `k` is 4.5·10⁹ ticks. -/
theorem tick_time_never_drifts (fl : ℚ → ℚ) (ε : ℚ) (hε : 0 ≤ ε) (hfl : ∀ x, |fl x - x| ≤ ε * |x|) (h0 : fl 0 = 0)
    (tpb : ℕ) (htpb : 0 < tpb) (k : ℕ) (hk : (k : ℚ) * (2 * ε + ε ^ 2) < 1 / 1000000) :
    clock fl tpb k = fl ((k : ℚ) / tpb) ∧ |clock fl tpb k - (k : ℚ) / tpb| ≤ ε * ((k : ℚ) / tpb) :=
  ⟨clock_exact fl ε hε hfl h0 tpb htpb k hk, clock_error fl ε hε hfl h0 tpb htpb k hk⟩

/-- The rounded comparison `round(current_time, 8) >= round(next_event_time, 8)` tolerates 5·10⁻⁹ beats:
    with doubles the clock stays inside that tolerance for every time below 4.5·10⁷ beats (260 days at 120 bpm). -/
theorem tick_time_within_guard (fl : ℚ → ℚ) (hfl : ∀ x, |fl x - x| ≤ (1 / 2 ^ 53) * |x|) (h0 : fl 0 = 0)
    (tpb : ℕ) (htpb : 0 < tpb) (k : ℕ) (hk : (k : ℚ) ≤ 4000000000) (hbeats : (k : ℚ) / tpb ≤ 45000000) :
    |clock fl tpb k - (k : ℚ) / tpb| < 5 / 1000000000 := by
  have hk' : (k : ℚ) * (2 * (1 / 2 ^ 53) + (1 / 2 ^ 53) ^ 2) < 1 / 1000000 := by
    have h2 : (0 : ℚ) ≤ 2 * (1 / 2 ^ 53) + (1 / 2 ^ 53) ^ 2 := by positivity
    calc (k : ℚ) * (2 * (1 / 2 ^ 53) + (1 / 2 ^ 53) ^ 2)
        ≤ 4000000000 * (2 * (1 / 2 ^ 53) + (1 / 2 ^ 53) ^ 2) := mul_le_mul_of_nonneg_right hk h2
      _ < 1 / 1000000 := by norm_num
  have h := clock_error fl (1 / 2 ^ 53) (by positivity) hfl h0 tpb htpb k hk'
  have h3 : (1 / 2 ^ 53 : ℚ) * ((k : ℚ) / tpb) ≤ (1 / 2 ^ 53) * 45000000 :=
    mul_le_mul_of_nonneg_left hbeats (by positivity)
  have h4 : (1 / 2 ^ 53 : ℚ) * 45000000 < 5 / 1000000000 := by norm_num
  linarith

/-- **For every number of events the accumulated event time is within one rounding of the total (plus the
    roundings of the corrected durations) of the exact sum of the durations** — compensated summation,
    `Sched/FloatSum.lean`; hypotheses: the standard rounding model and the exactness of the two
    error-recovering subtractions along the run (Fast2Sum; checked on the real floats by the harness). -/
theorem event_time_never_drifts (fl : ℚ → ℚ) (ε M : ℚ) (hε : 0 ≤ ε) (hM0 : 0 ≤ M) (hfl : ∀ x, |fl x - x| ≤ ε * |x|)
    (s0 : ℚ) (ds : List ℚ) (hE : Exact fl ⟨s0, 0⟩ ds) (hG : Mag fl M ⟨s0, 0⟩ ds) :
    |(krun fl ⟨s0, 0⟩ ds).s - (s0 + ds.sum)| ≤ ε * M + ε * ((ds.map (fun d => |d|)).sum + ds.length * (ε * M)) :=
  kahan_error fl ε M hε hM0 hfl s0 ds hE hG

/-- With doubles the event times stay inside the 5·10⁻⁹ tolerance of the rounded comparisons for up to
    10¹² events within 2·10⁷ beats (115 days at 120 bpm). -/
theorem event_time_within_guard (fl : ℚ → ℚ) (hfl : ∀ x, |fl x - x| ≤ (1 / 2 ^ 53) * |x|)
    (s0 : ℚ) (ds : List ℚ) (M : ℚ) (hM0 : 0 ≤ M) (hM : M ≤ 20000000)
    (hE : Exact fl ⟨s0, 0⟩ ds) (hG : Mag fl M ⟨s0, 0⟩ ds)
    (hD : (ds.map (fun d => |d|)).sum ≤ M) (hk : (ds.length : ℚ) ≤ 1000000000000) :
    |(krun fl ⟨s0, 0⟩ ds).s - (s0 + ds.sum)| < 5 / 1000000000 := by
  have h := kahan_error fl (1 / 2 ^ 53) M (by positivity) hM0 hfl s0 ds hE hG
  have hεM : (1 / 2 ^ 53 : ℚ) * M ≤ (1 / 2 ^ 53) * 20000000 := mul_le_mul_of_nonneg_left hM (by positivity)
  have hkM : (ds.length : ℚ) * ((1 / 2 ^ 53) * M) ≤ 1000000000000 * ((1 / 2 ^ 53) * 20000000) := by
    apply mul_le_mul hk hεM (by positivity) (by positivity)
  have hsum : (ds.map (fun d => |d|)).sum + (ds.length : ℚ) * ((1 / 2 ^ 53) * M) ≤
      20000000 + 1000000000000 * ((1 / 2 ^ 53) * 20000000) := by linarith
  have h2 : (1 / 2 ^ 53 : ℚ) * ((ds.map (fun d => |d|)).sum + (ds.length : ℚ) * ((1 / 2 ^ 53) * M)) ≤
      (1 / 2 ^ 53) * (20000000 + 1000000000000 * ((1 / 2 ^ 53) * 20000000)) :=
    mul_le_mul_of_nonneg_left hsum (by positivity)
  have h3 : (1 / 2 ^ 53 : ℚ) * 20000000 + (1 / 2 ^ 53) * (20000000 + 1000000000000 * ((1 / 2 ^ 53) * 20000000)) < 5 / 1000000000 := by
    norm_num
  linarith

end IsobarV.C01
