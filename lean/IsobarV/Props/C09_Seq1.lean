/-
C09 — once exhausted, always exhausted: stickiness of PSeries, PRange, PGeom, PImpulse, PLoop, PPingPong,
PStutter, PSubsequence, PCreep (models: `IsobarV/Pat/Cls/Seq1.lean`).
-/
import IsobarV.Props.C09

namespace IsobarV.C09Seq1
open IsobarV.Pat IsobarV.C09

theorem pyBin_ne_stop (op : BinOp) (a b : Val) : pyBin op a b ≠ .stop := by
  unfold pyBin
  split
  · simp
  · simp
  · exact binopVal_ne_stop _ _ _

/-- `PGeom` ends when `count` reaches `length` (state untouched: it ends again) or when `multiply` ends. -/
theorem geom_sticky : ClsSticky .geom := by
  intro P rec kids st hrec hk
  have hc : clsStep .geom = stepGeom := rfl
  rw [hc]
  have hP : ∀ k ∈ (stepGeom rec kids st).kids, P k := by
    have h1 := stepKid_P hrec kids 0 hk
    simp only [stepGeom]
    (repeat' split) <;> first | exact hk | exact h1
  refine ⟨hP, fun hs => ?_⟩
  let I : List Pat → St → Prop := fun kids st => st.n0 ≥ st.n1 ∨ DeadAt rec kids 0
  have hd : I (stepGeom rec kids st).kids (stepGeom rec kids st).st := by
    simp only [stepGeom] at hs ⊢
    split
    · rename_i hg; exact Or.inl hg
    · rename_i hg
      simp only [hg, if_false] at hs
      split at hs
      · split at hs
        · simp at hs
        · rename_i o _ _; simp at hs; exact absurd hs (pyBin_ne_stop _ _ _)
      · right
        have hs' : (stepKid rec kids 0).1 = .stop := by simpa using hs
        have := stepKid_stop_dead hrec hk hs'
        cases hx : (stepKid rec kids 0).1 <;> simp_all
  intro n
  apply clsOuts_noVal stepGeom rec I _ n _ _ hd
  intro kids st h
  simp only [stepGeom]
  split
  · rename_i hg
    exact ⟨(fun v hv => by cases hv), Or.inl hg⟩
  · rename_i hg
    rcases h with h | h
    · exact absurd h hg
    · obtain ⟨h1, h2⟩ := h.step
      split
      · rename_i v hv; exact absurd hv (h1 v)
      · exact ⟨by simpa using h1, Or.inr h2⟩

/-- `PImpulse` never ends by itself: it ends only with its `period` pattern. -/
theorem impulse_sticky : ClsSticky .impulse := by
  intro P rec kids st hrec hk
  have hc : clsStep .impulse = stepImpulse := rfl
  rw [hc]
  have hkids : ∀ kids st, (stepImpulse rec kids st).kids = (stepKid rec kids 0).2 := by
    intro kids st; simp only [stepImpulse]; (repeat' split) <;> rfl
  refine ⟨by rw [hkids]; exact stepKid_P hrec kids 0 hk, fun hs => ?_⟩
  have hs' : (stepKid rec kids 0).1 = .stop := by
    simp only [stepImpulse] at hs
    (repeat' split at hs) <;> simp_all
  have hd : DeadAt rec (stepImpulse rec kids st).kids 0 := by rw [hkids]; exact stepKid_stop_dead hrec hk hs'
  intro n
  apply clsOuts_noVal stepImpulse rec (fun kids _ => DeadAt rec kids 0) _ n _ _ hd
  intro kids st h
  obtain ⟨h1, h2⟩ := h.step
  refine ⟨?_, by rw [hkids]; exact h2⟩
  simp only [stepImpulse]
  split
  · rename_i a ha; exact absurd ha (h1 a)
  · rename_i o _ ho; simpa using h1

/-- `PLoop` ends only once the input has been read through and the last repeat is over; nothing changes then. -/
theorem loop_sticky : ClsSticky .loop := by
  intro P rec kids st hrec hk
  have hc : clsStep .loop = stepLoop := rfl
  rw [hc]
  have hP : ∀ k ∈ (stepLoop rec kids st).kids, P k := by
    have h1 := stepKid_P hrec kids 0 hk
    simp only [stepLoop, loopTail, loopEmit]
    (repeat' split) <;> first | exact hk | exact h1
  refine ⟨hP, fun hs => ?_⟩
  let I : List Pat → St → Prop := fun _ st =>
    st.n3 ≠ 0 ∧ st.n1.toNat ≥ st.buf.length ∧ (st.n2 ≥ st.n0 - 1 ∨ st.buf.length = 0)
  have hd : I (stepLoop rec kids st).kids (stepLoop rec kids st).st := by
    simp only [stepLoop, loopTail, loopEmit] at hs ⊢
    (repeat' split at hs) <;> simp_all [I]
  intro n
  apply clsOuts_noVal stepLoop rec I _ n _ _ hd
  intro kids st h
  obtain ⟨h1, h2, h3⟩ := h
  simp only [stepLoop, loopTail, h1, if_false, h2, h3, if_true]
  exact ⟨(fun v hv => by cases hv), h1, h2, h3⟩

/-- `PPingPong` ends after the last bounce (or, for fewer than two values, after playing them once); nothing
    changes then. -/
theorem pingPong_sticky : ClsSticky .pingPong := by
  intro P rec kids st _ hk
  have hc : clsStep .pingPong = stepPingPong := rfl
  rw [hc]
  have hP : ∀ k ∈ (stepPingPong rec kids st).kids, P k := by
    simp only [stepPingPong]
    (repeat' split) <;> exact hk
  refine ⟨hP, fun hs => ?_⟩
  let I : List Pat → St → Prop := fun _ st =>
    (st.buf.length < 2 ∧ st.n1.toNat ≥ st.buf.length) ∨ (2 ≤ st.buf.length ∧ st.n1 = 1 ∧ st.n3 ≥ st.n0)
  have hd : I (stepPingPong rec kids st).kids (stepPingPong rec kids st).st := by
    simp only [stepPingPong] at hs ⊢
    split
    · rename_i hg; exact hg
    · rename_i hg
      simp only [hg, if_false] at hs
      (repeat' split at hs) <;> simp at hs
  intro n
  apply clsOuts_noVal stepPingPong rec I _ n _ _ hd
  intro kids st h
  simp only [stepPingPong, show ((st.buf.length < 2 ∧ st.n1.toNat ≥ st.buf.length) ∨
    (2 ≤ st.buf.length ∧ st.n1 = 1 ∧ st.n3 ≥ st.n0)) from h, if_true]
  exact ⟨(fun v hv => by cases hv), h⟩

/-- `PStutter` ends when `count` or the input ends; the state is untouched (the new count is committed only
    together with a new value), so the next call asks the ended pattern again. -/
theorem stutter_sticky : ClsSticky .stutter := by
  intro P rec kids st hrec hk
  have hc : clsStep .stutter = stepStutter := rfl
  rw [hc]
  have hP : ∀ kids st, (∀ k ∈ kids, P k) → ∀ k ∈ (stepStutter rec kids st).kids, P k := by
    intro kids st hk
    have h1 := stepKid_P hrec kids 1 hk
    have h2 := stepKid_P hrec _ 0 h1
    simp only [stepStutter]
    (repeat' split) <;> first | exact hk | exact h1 | exact h2
  refine ⟨hP kids st hk, fun hs => ?_⟩
  let I : List Pat → St → Prop := fun kids st =>
    numCmp .ge (Val.int st.n0) st.v1 = some true ∧ (DeadAt rec kids 0 ∨ DeadAt rec kids 1)
  have hd : I (stepStutter rec kids st).kids (stepStutter rec kids st).st := by
    simp only [stepStutter] at hs ⊢
    split
    · simp_all
    · rename_i hb
      simp only [hb] at hs
      split at hs
      · split at hs
        · simp at hs
        · rename_i c hc o _ ho
          have hs' : (stepKid rec (stepKid rec kids 1).2 0).1 = .stop := by simpa using hs
          have := stepKid_stop_dead hrec (stepKid_P hrec kids 1 hk) hs'
          refine ⟨?_, Or.inl ?_⟩ <;> cases hx : (stepKid rec (stepKid rec kids 1).2 0).1 <;> simp_all
      · rename_i o _ ho
        have hs' : (stepKid rec kids 1).1 = .stop := by simpa using hs
        have := stepKid_stop_dead hrec hk hs'
        refine ⟨?_, Or.inr ?_⟩ <;> cases hx : (stepKid rec kids 1).1 <;> simp_all
    · simp_all
  intro n
  apply clsOuts_noVal stepStutter rec I _ n _ _ hd
  intro kids st h
  obtain ⟨hb, h⟩ := h
  simp only [stepStutter, hb]
  rcases h with h | h
  · have h0 : DeadAt rec (stepKid rec kids 1).2 0 := h.other (by decide)
    obtain ⟨h1, h2⟩ := h0.step
    split
    · split
      · rename_i x hx; exact absurd hx (h1 x)
      · exact ⟨by simpa using h1, hb, Or.inl h2⟩
    · rename_i o _ ho
      exact ⟨(fun v hv => ho v (by simpa using hv)), hb, Or.inl h0⟩
  · obtain ⟨h1, h2⟩ := h.step
    split
    · rename_i c hc; exact absurd hc (h1 c)
    · exact ⟨by simpa using h1, hb, Or.inr h2⟩

/-! ### Classes whose end is decided by a length-like PARAMETER

`PSeries.length`, `PRange.end` / `.step`, `PSubsequence.offset` / `.length` and `PCreep.length` are resolved
afresh at every step (C12) and the end test compares against the freshly resolved value.  If such a
parameter VARIES, the pattern can yield again after it has raised StopIteration
(`PSeries(0, 1, PSequence([1, 5]))` yields 0, 1, StopIteration, 2, StopIteration, 3, …): `ClsSticky` is false
for these classes as they stand.  They are sticky whenever the length-like parameters are fixed points of
`rec` — in particular constants, the documented use (`ClsStickyFix`, lifted to whole trees by
`sticky_stepF_fix` below). -/

/-- The kid at index `i` is a fixed point of `rec` (e.g. a constant): reading it never changes it. -/
def FixedAt (rec : Rec) (kids : List Pat) (i : Nat) : Prop := ∃ k, kids[i]? = some k ∧ (rec k).p = k

theorem FixedAt.stepKid_eq {rec : Rec} {kids : List Pat} {i : Nat} {k : Pat} (hk : kids[i]? = some k) (hf : (rec k).p = k) :
    stepKid rec kids i = ((rec k).out, kids) := by
  rw [stepKid_get rec kids i k hk, hf, set_same _ _ _ hk]

theorem stepKid_other_get (rec : Rec) (kids : List Pat) (i j : Nat) (hij : j ≠ i) :
    (stepKid rec kids j).2[i]? = kids[i]? := by
  unfold stepKid
  cases hj : kids[j]? with
  | none => rfl
  | some kj => simp [List.getElem?_set_ne hij]

theorem FixedAt.other {rec : Rec} {kids : List Pat} {i j : Nat} (h : FixedAt rec kids i) (hij : j ≠ i) :
    FixedAt rec (stepKid rec kids j).2 i := by
  obtain ⟨k, hk, hf⟩ := h
  exact ⟨k, by rw [stepKid_other_get rec kids i j hij, hk], hf⟩

/-- Kid indices of the length-like parameters. -/
def lenParams : Cls → List Nat
  | .series => [0]
  | .range => [0, 1]
  | .subsequence => [1, 2]
  | .creep => [1]
  | _ => []

/-- Stickiness given that the length-like parameters are fixed points of `rec`; they stay in place. -/
def ClsStickyFix (c : Cls) : Prop :=
  ∀ (P : Pat → Prop) (rec : Rec) (kids : List Pat) (st : St), RecSticky P rec → (∀ k ∈ kids, P k) →
    (∀ i ∈ lenParams c, FixedAt rec kids i) →
    (∀ k ∈ (clsStep c rec kids st).kids, P k) ∧
    (∀ i ∈ lenParams c, (clsStep c rec kids st).kids[i]? = kids[i]?) ∧
    ((clsStep c rec kids st).out = .stop →
      ∀ n, ∀ o ∈ clsOuts (clsStep c) rec n (clsStep c rec kids st).kids (clsStep c rec kids st).st, NoVal o)

/-- `PSeries` with a fixed `length`: it ends when `count` reaches `length` (nothing changes: it ends again), or
    when `length` or `step` ends. -/
theorem series_sticky_fix : ClsStickyFix .series := by
  intro P rec kids st hrec hk hfix
  obtain ⟨k0, hk0, hf0⟩ := hfix 0 (by simp [lenParams])
  have hc : clsStep .series = stepSeries := rfl
  rw [hc]
  have e0 : ∀ kids, kids[0]? = some k0 → stepKid rec kids 0 = ((rec k0).out, kids) :=
    fun kids h => FixedAt.stepKid_eq h hf0
  have hP : ∀ k ∈ (stepSeries rec kids st).kids, P k := by
    have h1 := stepKid_P hrec kids 0 hk
    have h2 := stepKid_P hrec _ 1 h1
    simp only [stepSeries]
    (repeat' split) <;> first | exact h1 | exact h2
  have hK : ∀ kids st, kids[0]? = some k0 → (stepSeries rec kids st).kids[0]? = some k0 := by
    intro kids st hk0
    simp only [stepSeries, e0 kids hk0]
    (repeat' split) <;> first | exact hk0 | exact (stepKid_other_get rec kids 0 1 (by decide)).trans hk0
  refine ⟨hP, ?_, fun hs => ?_⟩
  · intro i hi; simp [lenParams] at hi; subst hi; exact (hK kids st hk0).trans hk0.symm
  let I : List Pat → St → Prop := fun kids st =>
    kids[0]? = some k0 ∧
    (DeadAt rec kids 0 ∨ DeadAt rec kids 1 ∨
      ∃ len, (rec k0).out = .val len ∧ numCmp .ge (Val.int st.n0) len = some true)
  have hd : I (stepSeries rec kids st).kids (stepSeries rec kids st).st := by
    refine ⟨hK kids st hk0, ?_⟩
    simp only [stepSeries, e0 kids hk0] at hs ⊢
    cases hlen : (rec k0).out with
    | val len =>
      simp only [hlen] at hs ⊢
      cases hcmp : numCmp .ge (Val.int st.n0) len with
      | none => simp [hcmp] at hs
      | some b =>
        cases b with
        | true => exact Or.inr (Or.inr ⟨len, rfl, hcmp⟩)
        | false =>
          simp only [hcmp] at hs ⊢
          cases hd : (stepKid rec kids 1).1 with
          | val d =>
            simp only [hd] at hs
            split at hs
            · simp at hs
            · simp at hs; exact absurd hs (pyBin_ne_stop _ _ _)
          | stop => exact Or.inr (Or.inl (stepKid_stop_dead hrec hk hd))
          | err e => simp [hd] at hs
    | stop =>
      have hd := stepKid_stop_dead hrec hk (i := 0) (by rw [e0 kids hk0]; exact hlen)
      rw [e0 kids hk0] at hd
      exact Or.inl hd
    | err e => simp [hlen] at hs
  intro n
  apply clsOuts_noVal stepSeries rec I _ n _ _ hd
  intro kids st h
  obtain ⟨hk0, h⟩ := h
  refine ⟨?_, hK kids st hk0, ?_⟩ <;> simp only [stepSeries, e0 kids hk0]
  · -- the step yields no value
    rcases h with h | h | ⟨len, hlen, hcmp⟩
    · have h1 := h.step.1
      rw [e0 kids hk0] at h1
      cases hlen : (rec k0).out with
      | val len => exact absurd hlen (h1 len)
      | stop => intro v hv; cases hv
      | err e => intro v hv; cases hv
    · have h1 := h.step.1
      cases hlen : (rec k0).out with
      | val len =>
        simp only []
        cases hcmp : numCmp .ge (Val.int st.n0) len with
        | none => intro v hv; cases hv
        | some b =>
          cases b with
          | true => intro v hv; cases hv
          | false =>
            simp only []
            cases hd : (stepKid rec kids 1).1 with
            | val d => exact absurd hd (h1 d)
            | stop => intro v hv; cases hv
            | err e => intro v hv; cases hv
      | stop => intro v hv; cases hv
      | err e => intro v hv; cases hv
    · simp only [hlen, hcmp]
      intro v hv; cases hv
  · -- the invariant is kept
    rcases h with h | h | ⟨len, hlen, hcmp⟩
    · have h1 := h.step.1
      rw [e0 kids hk0] at h1
      cases hlen : (rec k0).out with
      | val len => exact absurd hlen (h1 len)
      | stop => exact Or.inl h
      | err e => exact Or.inl h
    · have h2 := h.step
      cases hlen : (rec k0).out with
      | val len =>
        simp only []
        cases hcmp : numCmp .ge (Val.int st.n0) len with
        | none => exact Or.inr (Or.inl h)
        | some b =>
          cases b with
          | true => exact Or.inr (Or.inl h)
          | false =>
            simp only []
            cases hd : (stepKid rec kids 1).1 with
            | val d => exact absurd hd (h2.1 d)
            | stop => exact Or.inr (Or.inl h2.2)
            | err e => exact Or.inr (Or.inl h2.2)
      | stop => exact Or.inr (Or.inl h)
      | err e => exact Or.inr (Or.inl h)
    · simp only [hlen, hcmp]
      exact Or.inr (Or.inr ⟨len, rfl, hcmp⟩)

/-- A step that changes neither kids nor state is repeated for ever. -/
theorem clsOuts_fixpoint (step : ClsStep) (rec : Rec) (kids : List Pat) (st : St)
    (h1 : (step rec kids st).kids = kids) (h2 : (step rec kids st).st = st) :
    ∀ n, ∀ o ∈ clsOuts step rec n kids st, o = (step rec kids st).out := by
  intro n
  induction n with
  | zero => intro o ho; simp [clsOuts] at ho
  | succ n ih =>
    intro o ho
    simp only [clsOuts, List.mem_cons, h1, h2] at ho
    rcases ho with rfl | ho
    · rfl
    · exact ih o ho

/-- `PRange` with fixed `end` and `step`: the end test is a function of `value` alone, and ending does not
    change `value`. -/
theorem range_sticky_fix : ClsStickyFix .range := by
  intro P rec kids st hrec hk hfix
  obtain ⟨k0, hk0, hf0⟩ := hfix 0 (by simp [lenParams])
  obtain ⟨k1, hk1, hf1⟩ := hfix 1 (by simp [lenParams])
  have hc : clsStep .range = stepRange := rfl
  rw [hc]
  have e0 : stepKid rec kids 0 = ((rec k0).out, kids) := FixedAt.stepKid_eq hk0 hf0
  have e1 : stepKid rec kids 1 = ((rec k1).out, kids) := FixedAt.stepKid_eq hk1 hf1
  have hkids : ∀ st, (stepRange rec kids st).kids = kids := by
    intro st
    simp only [stepRange, rangeEmit, e0, e1]
    (repeat' split) <;> rfl
  refine ⟨by rw [hkids]; exact hk, fun i _ => by rw [hkids], fun hs => ?_⟩
  have hst : (stepRange rec kids st).st = st := by
    simp only [stepRange, rangeEmit, e0, e1] at hs ⊢
    (repeat' split at hs) <;> simp_all <;> (exact absurd hs (pyBin_ne_stop _ _ _))
  intro n o ho
  rw [hkids, hst] at ho
  have := clsOuts_fixpoint stepRange rec kids st (hkids st) hst n o ho
  rw [this, hs]
  intro v hv; cases hv

/-! ### The fill loop -/

theorem fillBuf_P {P : Pat → Prop} {rec : Rec} (hrec : RecSticky P rec) (k : Nat) (kids : List Pat) (buf : List Val)
    (hk : ∀ x ∈ kids, P x) : ∀ x ∈ (fillBuf rec k kids buf).2.1, P x := by
  induction k generalizing kids buf with
  | zero => exact hk
  | succ k ih =>
    have h1 := stepKid_P hrec kids 0 hk
    simp only [fillBuf]
    split
    · exact ih _ _ h1
    · exact h1

theorem fillBuf_other (rec : Rec) (k : Nat) (kids : List Pat) (buf : List Val) (i : Nat) (hi : i ≠ 0) :
    (fillBuf rec k kids buf).2.1[i]? = kids[i]? := by
  induction k generalizing kids buf with
  | zero => rfl
  | succ k ih =>
    simp only [fillBuf]
    split
    · rw [ih]; exact stepKid_other_get rec kids i 0 (Ne.symm hi)
    · exact stepKid_other_get rec kids i 0 (Ne.symm hi)

/-- If the fill loop is cut short by StopIteration the input is dead and the buffer is still too short. -/
theorem fillBuf_stop {P : Pat → Prop} {rec : Rec} (hrec : RecSticky P rec) (k : Nat) (kids : List Pat) (buf : List Val)
    (hk : ∀ x ∈ kids, P x) (hs : (fillBuf rec k kids buf).1 = .stop) :
    DeadAt rec (fillBuf rec k kids buf).2.1 0 ∧ (fillBuf rec k kids buf).2.2.length < buf.length + k := by
  induction k generalizing kids buf with
  | zero => simp [fillBuf] at hs
  | succ k ih =>
    have h1 := stepKid_P hrec kids 0 hk
    simp only [fillBuf] at hs ⊢
    cases hx : (stepKid rec kids 0).1 with
    | val v =>
      simp only [hx] at hs ⊢
      obtain ⟨i1, i2⟩ := ih _ _ h1 hs
      refine ⟨i1, ?_⟩
      simp at i2; omega
    | stop =>
      simp only []
      exact ⟨stepKid_stop_dead hrec hk hx, by omega⟩
    | err e => simp [hx] at hs

/-- With a dead input a non-empty fill loop fails at once and appends nothing. -/
theorem fillBuf_dead {rec : Rec} {kids : List Pat} (h : DeadAt rec kids 0) (k : Nat) (buf : List Val) :
    NoVal (fillBuf rec (k + 1) kids buf).1 ∧ (fillBuf rec (k + 1) kids buf).2.1 = (stepKid rec kids 0).2 ∧
      (fillBuf rec (k + 1) kids buf).2.2 = buf := by
  obtain ⟨h1, _⟩ := h.step
  simp only [fillBuf]
  cases hx : (stepKid rec kids 0).1 with
  | val v => exact absurd hx (h1 v)
  | stop => exact ⟨(fun v hv => by cases hv), rfl, rfl⟩
  | err e => exact ⟨(fun v hv => by cases hv), rfl, rfl⟩

/-- `PSubsequence` with fixed `offset` and `length`: it ends when `pos` reaches `length` or a parameter ends
    (nothing changes: it ends again), or when the input ends while the window is being filled (the input is
    dead and the cache too short: every later call tries to fill it again). -/
theorem subsequence_sticky_fix : ClsStickyFix .subsequence := by
  intro P rec kids st hrec hk hfix
  obtain ⟨k1, hk1, hf1⟩ := hfix 1 (by simp [lenParams])
  obtain ⟨k2, hk2, hf2⟩ := hfix 2 (by simp [lenParams])
  have hc : clsStep .subsequence = stepSubsequence := rfl
  rw [hc]
  have e1 : ∀ kids, kids[1]? = some k1 → stepKid rec kids 1 = ((rec k1).out, kids) :=
    fun kids h => FixedAt.stepKid_eq h hf1
  have e2 : ∀ kids, kids[2]? = some k2 → stepKid rec kids 2 = ((rec k2).out, kids) :=
    fun kids h => FixedAt.stepKid_eq h hf2
  have hP : ∀ k ∈ (stepSubsequence rec kids st).kids, P k := by
    have hf := fun k => fillBuf_P hrec k kids st.buf hk
    simp only [stepSubsequence, subEmit, e1 kids hk1, e2 kids hk2]
    (repeat' split) <;> first | exact hk | exact hf _
  have hK : ∀ kids st, kids[1]? = some k1 → kids[2]? = some k2 → ∀ i, i ≠ 0 →
      (stepSubsequence rec kids st).kids[i]? = kids[i]? := by
    intro kids st hk1 hk2 i hi
    have hf := fun k => fillBuf_other rec k kids st.buf i hi
    simp only [stepSubsequence, subEmit, e1 kids hk1, e2 kids hk2]
    (repeat' split) <;> first | rfl | exact hf _
  refine ⟨hP, ?_, fun hs => ?_⟩
  · intro i hi
    simp [lenParams] at hi
    rcases hi with rfl | rfl <;> exact hK kids st hk1 hk2 _ (by decide)
  -- A: the step is a fixed point without value;  B: the input is dead and the cache too short
  let A : List Pat → St → Prop := fun kids st =>
    (stepSubsequence rec kids st).kids = kids ∧ (stepSubsequence rec kids st).st = st ∧
      NoVal (stepSubsequence rec kids st).out
  let B : List Pat → St → Prop := fun kids st =>
    kids[1]? = some k1 ∧ kids[2]? = some k2 ∧ ∃ o len, (rec k1).out = .val (.a (.int o)) ∧ (rec k2).out = .val len ∧
      numCmp .ge (Val.int st.n0) len = some false ∧ DeadAt rec kids 0 ∧ (st.buf.length : Int) < st.n0 + o + 1
  have hd : A (stepSubsequence rec kids st).kids (stepSubsequence rec kids st).st ∨
      B (stepSubsequence rec kids st).kids (stepSubsequence rec kids st).st := by
    have hstop : NoVal Out.stop := fun v hv => by cases hv
    -- every way of ending except the starved fill leaves everything unchanged
    have hA : (stepSubsequence rec kids st).kids = kids → (stepSubsequence rec kids st).st = st →
        A (stepSubsequence rec kids st).kids (stepSubsequence rec kids st).st := by
      intro a b
      simp only [A]
      rw [a, b]
      exact ⟨a, b, by rw [hs]; exact hstop⟩
    cases ho : (rec k1).out with
    | val off =>
      cases hl : (rec k2).out with
      | val len =>
        cases hcmp : numCmp .ge (Val.int st.n0) len with
        | none => simp [stepSubsequence, e1 kids hk1, e2 kids hk2, ho, hl, hcmp] at hs
        | some b =>
          cases b with
          | true =>
            left; apply hA <;> simp [stepSubsequence, e1 kids hk1, e2 kids hk2, ho, hl, hcmp]
          | false =>
            cases off with
            | tup xs => simp [stepSubsequence, e1 kids hk1, e2 kids hk2, ho, hl, hcmp] at hs
            | a x =>
              cases x with
              | int o =>
                right
                have hstep : stepSubsequence rec kids st =
                    subEmit (fillBuf rec (st.n0 + o + 1 - st.buf.length).toNat kids st.buf) (o + st.n0) st := by
                  simp [stepSubsequence, e1 kids hk1, e2 kids hk2, ho, hl, hcmp]
                rw [hstep] at hs ⊢
                have hf1 : (fillBuf rec (st.n0 + o + 1 - st.buf.length).toNat kids st.buf).1 = .stop := by
                  simp only [subEmit] at hs
                  (repeat' split at hs) <;> simp_all
                obtain ⟨d1, d2⟩ := fillBuf_stop hrec _ kids st.buf hk hf1
                have hk0 : (st.n0 + o + 1 - st.buf.length).toNat ≠ 0 := by
                  intro h0; rw [h0] at hf1; simp [fillBuf] at hf1
                simp only [subEmit, hf1]
                refine ⟨(fillBuf_other rec _ kids st.buf 1 (by decide)).trans hk1,
                  (fillBuf_other rec _ kids st.buf 2 (by decide)).trans hk2, o, len, ho, hl, hcmp, d1, ?_⟩
                simp only []
                omega
              | none => simp [stepSubsequence, e1 kids hk1, e2 kids hk2, ho, hl, hcmp] at hs
              | flt r => simp [stepSubsequence, e1 kids hk1, e2 kids hk2, ho, hl, hcmp] at hs
              | bool b => simp [stepSubsequence, e1 kids hk1, e2 kids hk2, ho, hl, hcmp] at hs
              | str s => simp [stepSubsequence, e1 kids hk1, e2 kids hk2, ho, hl, hcmp] at hs
      | stop => left; apply hA <;> simp [stepSubsequence, e1 kids hk1, e2 kids hk2, ho, hl]
      | err e => simp [stepSubsequence, e1 kids hk1, e2 kids hk2, ho, hl] at hs
    | stop => left; apply hA <;> simp [stepSubsequence, e1 kids hk1, ho]
    | err e => simp [stepSubsequence, e1 kids hk1, ho] at hs
  intro n
  apply clsOuts_noVal stepSubsequence rec (fun kids st => A kids st ∨ B kids st) _ n _ _ hd
  intro kids st h
  rcases h with ⟨a, b, c⟩ | ⟨hk1, hk2, o, len, ho, hl, hcmp, hdead, hlen⟩
  · refine ⟨c, Or.inl ?_⟩
    simp only [A]
    rw [a, b]
    exact ⟨a, b, c⟩
  · have hstep : stepSubsequence rec kids st =
        subEmit (fillBuf rec (st.n0 + o + 1 - st.buf.length).toNat kids st.buf) (o + st.n0) st := by
      simp [stepSubsequence, e1 kids hk1, e2 kids hk2, ho, hl, hcmp]
    obtain ⟨m, hm⟩ : ∃ m, (st.n0 + o + 1 - st.buf.length).toNat = m + 1 := ⟨(st.n0 + o + 1 - st.buf.length).toNat - 1, by omega⟩
    obtain ⟨f1, f2, f3⟩ := fillBuf_dead hdead m st.buf
    rw [hstep, hm]
    have hout : (subEmit (fillBuf rec (m + 1) kids st.buf) (o + st.n0) st).out = (fillBuf rec (m + 1) kids st.buf).1 := by
      simp only [subEmit]
      split
      · rename_i x hx; exact absurd hx (f1 x)
      · rfl
    have hkids : (subEmit (fillBuf rec (m + 1) kids st.buf) (o + st.n0) st).kids = (stepKid rec kids 0).2 := by
      simp only [subEmit]
      split
      · rename_i x hx; exact absurd hx (f1 x)
      · exact f2
    have hst : (subEmit (fillBuf rec (m + 1) kids st.buf) (o + st.n0) st).st = st := by
      simp only [subEmit]
      split
      · rename_i x hx; exact absurd hx (f1 x)
      · simp only [f3]
    rw [hout, hkids, hst]
    refine ⟨f1, Or.inr ⟨?_, ?_, o, len, ho, hl, hcmp, hdead.step.2, hlen⟩⟩
    · exact (stepKid_other_get rec kids 1 0 (by decide)).trans hk1
    · exact (stepKid_other_get rec kids 2 0 (by decide)).trans hk2

/-! ### PCreep: parameter resolution and the creep loop -/

theorem stepKidsSeq_P {P : Pat → Prop} {rec : Rec} (hrec : RecSticky P rec) (is : List Nat) (kids : List Pat) (acc : List Val)
    (hk : ∀ x ∈ kids, P x) : ∀ x ∈ (stepKidsSeq rec is kids acc).2.1, P x := by
  induction is generalizing kids acc with
  | nil => exact hk
  | cons i is ih =>
    have h1 := stepKid_P hrec kids i hk
    simp only [stepKidsSeq]
    split
    · exact ih _ _ h1
    · exact h1

theorem creepLoop_P {P : Pat → Prop} {rec : Rec} (hrec : RecSticky P rec) (k : Nat) (kids : List Pat) (buf : List Val)
    (hk : ∀ x ∈ kids, P x) : ∀ x ∈ (creepLoop rec k kids buf).2.1, P x := by
  induction k generalizing kids buf with
  | zero => exact hk
  | succ k ih =>
    have h1 := stepKid_P hrec kids 0 hk
    simp only [creepLoop]
    split
    · exact hk
    · split
      · exact ih _ _ h1
      · exact h1

theorem creepLoop_other (rec : Rec) (k : Nat) (kids : List Pat) (buf : List Val) (i : Nat) (hi : i ≠ 0) :
    (creepLoop rec k kids buf).2.1[i]? = kids[i]? := by
  induction k generalizing kids buf with
  | zero => rfl
  | succ k ih =>
    simp only [creepLoop]
    split
    · rfl
    · split
      · rw [ih]; exact stepKid_other_get rec kids i 0 (Ne.symm hi)
      · exact stepKid_other_get rec kids i 0 (Ne.symm hi)

/-- If the creep loop is cut short by StopIteration the input is dead and the buffer is one item short. -/
theorem creepLoop_stop {P : Pat → Prop} {rec : Rec} (hrec : RecSticky P rec) (k : Nat) (kids : List Pat) (buf : List Val)
    (hk : ∀ x ∈ kids, P x) (hs : (creepLoop rec k kids buf).1 = .stop) :
    DeadAt rec (creepLoop rec k kids buf).2.1 0 ∧ (creepLoop rec k kids buf).2.2.length < buf.length := by
  induction k generalizing kids buf with
  | zero => simp [creepLoop] at hs
  | succ k ih =>
    have h1 := stepKid_P hrec kids 0 hk
    cases buf with
    | nil => simp [creepLoop] at hs
    | cons x rest =>
      simp only [creepLoop] at hs ⊢
      cases hx : (stepKid rec kids 0).1 with
      | val v =>
        simp only [hx] at hs ⊢
        obtain ⟨i1, i2⟩ := ih _ _ h1 hs
        refine ⟨i1, ?_⟩
        simp at i2 ⊢; omega
      | stop =>
        simp only []
        exact ⟨stepKid_stop_dead hrec hk hx, by simp⟩
      | err e => simp [hx] at hs

/-- A fixed kid stays where it is while parameters are resolved. -/
theorem stepKidsSeq_fixed_get (rec : Rec) (is : List Nat) (kids : List Pat) (acc : List Val) (j : Nat) (k : Pat)
    (hk : kids[j]? = some k) (hf : (rec k).p = k) : (stepKidsSeq rec is kids acc).2.1[j]? = some k := by
  induction is generalizing kids acc with
  | nil => exact hk
  | cons i is ih =>
    have h1 : (stepKid rec kids i).2[j]? = some k := by
      by_cases hij : i = j
      · subst hij; rw [FixedAt.stepKid_eq hk hf]; exact hk
      · rw [stepKid_other_get rec kids j i hij]; exact hk
    simp only [stepKidsSeq]
    split
    · exact ih _ _ h1
    · exact h1

/-- Resolving parameters never touches a kid that is not in the list. -/
theorem stepKidsSeq_dead_other {rec : Rec} (is : List Nat) (kids : List Pat) (acc : List Val) (j : Nat)
    (hj : j ∉ is) (h : DeadAt rec kids j) : DeadAt rec (stepKidsSeq rec is kids acc).2.1 j := by
  induction is generalizing kids acc with
  | nil => exact h
  | cons i is ih =>
    simp only [List.mem_cons, not_or] at hj
    have h1 : DeadAt rec (stepKid rec kids i).2 j := h.other (Ne.symm hj.1)
    simp only [stepKidsSeq]
    split
    · exact ih _ _ hj.2 h1
    · exact h1

/-- A dead parameter makes the resolution fail, and it stays dead. -/
theorem stepKidsSeq_dead {rec : Rec} (is : List Nat) (kids : List Pat) (acc : List Val) (j : Nat)
    (hj : j ∈ is) (h : DeadAt rec kids j) :
    NoVal (stepKidsSeq rec is kids acc).1 ∧ DeadAt rec (stepKidsSeq rec is kids acc).2.1 j := by
  induction is generalizing kids acc with
  | nil => simp at hj
  | cons i is ih =>
    simp only [stepKidsSeq]
    by_cases hij : i = j
    · subst hij
      obtain ⟨d1, d2⟩ := h.step
      split
      · rename_i v hv; exact absurd hv (d1 v)
      · exact ⟨by simpa using d1, d2⟩
    · have h1 : DeadAt rec (stepKid rec kids i).2 j := h.other hij
      have hj' : j ∈ is := by
        simp only [List.mem_cons] at hj
        rcases hj with rfl | hj
        · exact absurd rfl hij
        · exact hj
      split
      · exact ih _ _ hj' h1
      · rename_i ho
        exact ⟨(fun v hv => ho v hv), h1⟩

/-- If the resolution ends in StopIteration one of the listed parameters is dead. -/
theorem stepKidsSeq_stop {P : Pat → Prop} {rec : Rec} (hrec : RecSticky P rec) (is : List Nat) (kids : List Pat) (acc : List Val)
    (hk : ∀ x ∈ kids, P x) (hs : (stepKidsSeq rec is kids acc).1 = .stop) :
    ∃ j ∈ is, DeadAt rec (stepKidsSeq rec is kids acc).2.1 j := by
  induction is generalizing kids acc with
  | nil => simp [stepKidsSeq] at hs
  | cons i is ih =>
    have h1 := stepKid_P hrec kids i hk
    simp only [stepKidsSeq] at hs ⊢
    cases hx : (stepKid rec kids i).1 with
    | val v =>
      simp only [hx] at hs ⊢
      obtain ⟨j, hj, hd⟩ := ih _ _ h1 hs
      exact ⟨j, List.mem_cons_of_mem _ hj, hd⟩
    | stop =>
      simp only []
      exact ⟨i, List.mem_cons_self, stepKid_stop_dead hrec hk hx⟩
    | err e => simp [hx] at hs

/-- The resolved values are appended to the accumulator. -/
theorem stepKidsSeq_acc (rec : Rec) (is : List Nat) (kids : List Pat) (acc : List Val) :
    ∃ t, (stepKidsSeq rec is kids acc).2.2 = acc ++ t := by
  induction is generalizing kids acc with
  | nil => exact ⟨[], by simp [stepKidsSeq]⟩
  | cons i is ih =>
    simp only [stepKidsSeq]
    split
    · rename_i v _
      obtain ⟨t, ht⟩ := ih (stepKid rec kids i).2 (acc ++ [v])
      exact ⟨v :: t, by rw [ht]; simp⟩
    · exact ⟨[], by simp⟩

/-- With `length` (kid 1) fixed, the first resolved value is its value. -/
theorem stepKidsSeq_head (rec : Rec) (is : List Nat) (kids : List Pat) (k1 : Pat) (hk1 : kids[1]? = some k1)
    (hf1 : (rec k1).p = k1) (x v : Val) (t : List Val)
    (h1 : (stepKidsSeq rec (1 :: is) kids []).1 = .val x) (h2 : (stepKidsSeq rec (1 :: is) kids []).2.2 = v :: t) :
    (rec k1).out = .val v := by
  simp only [stepKidsSeq, FixedAt.stepKid_eq hk1 hf1] at h1 h2
  cases hx : (rec k1).out with
  | val w =>
    simp only [hx] at h2
    obtain ⟨t', ht'⟩ := stepKidsSeq_acc rec is kids ([] ++ [w])
    rw [ht'] at h2
    simp at h2
    rw [h2.1]
  | stop => simp [hx] at h1
  | err e => simp [hx] at h1

theorem creepEmit_ne_stop (kids : List Pat) (b : List Val) (pos rc : Int) (st : St) :
    (creepEmit kids b pos rc st).out ≠ .stop := by
  unfold creepEmit; (repeat' split) <;> simp

theorem creepRepeat_ne_stop (pr : Val) : creepRepeat pr ≠ .stop := by
  unfold creepRepeat; (repeat' split) <;> simp

/-- PCreep can only end inside the fill loop or the creep loop: the input is dead and the buffer is left
    shorter than `length`. -/
theorem creepAfterFill_stop {P : Pat → Prop} {rec : Rec} (hrec : RecSticky P rec) (len cr : Int) (rp pr : Val)
    (ks : List Pat) (st : St) (hk : ∀ x ∈ ks, P x)
    (hs : (creepAfterFill rec len cr rp pr (fillBuf rec (len - st.buf.length).toNat ks st.buf) st).out = .stop) :
    DeadAt rec (creepAfterFill rec len cr rp pr (fillBuf rec (len - st.buf.length).toNat ks st.buf) st).kids 0 ∧
    ((creepAfterFill rec len cr rp pr (fillBuf rec (len - st.buf.length).toNat ks st.buf) st).st.buf.length : Int) < len := by
  have hFP := fillBuf_P hrec (len - st.buf.length).toNat ks st.buf hk
  generalize hF : fillBuf rec (len - st.buf.length).toNat ks st.buf = F at hs hFP ⊢
  simp only [creepAfterFill] at hs ⊢
  cases hx : F.1 with
  | val x =>
    simp only [hx] at hs ⊢
    by_cases hneg : len < 0
    · simp [hneg] at hs
    · simp only [hneg, if_false] at hs ⊢
      generalize hb : List.drop (F.2.2.length - len.toNat) F.2.2 = b at hs ⊢
      have hbl : b.length ≤ len.toNat := by rw [← hb, List.length_drop]; omega
      simp only [creepMain] at hs ⊢
      split at hs
      · rename_i hpos
        simp only [hpos, if_true]
        split at hs
        · rename_i rep hrep
          split at hs
          · simp at hs
          · rename_i ge hge
            split at hs
            · rename_i hgr
              simp only [hgr, if_true]
              simp only [creepAfterLoop] at hs ⊢
              split at hs
              · exact absurd hs (creepEmit_ne_stop _ _ _ _ _)
              · rename_i o _ ho
                have hl : (creepLoop rec cr.toNat F.2.1 b).1 = .stop := by simpa using hs
                obtain ⟨d1, d2⟩ := creepLoop_stop hrec _ _ b hFP hl
                refine ⟨d1, ?_⟩
                show ((creepLoop rec cr.toNat F.2.1 b).2.2.length : Int) < len
                omega
            · exact absurd hs (creepEmit_ne_stop _ _ _ _ _)
        · simp at hs
          exact absurd hs (creepRepeat_ne_stop _)
      · exact absurd hs (creepEmit_ne_stop _ _ _ _ _)
  | stop =>
    simp only []
    have hF1 : (fillBuf rec (len - st.buf.length).toNat ks st.buf).1 = .stop := by rw [hF]; exact hx
    obtain ⟨d1, d2⟩ := fillBuf_stop hrec _ ks st.buf hk hF1
    have hk0 : (len - st.buf.length).toNat ≠ 0 := by
      intro h0; rw [h0] at hF1; simp [fillBuf] at hF1
    rw [hF] at d1 d2
    exact ⟨d1, by omega⟩
  | err e => simp [hx] at hs

/-- With a dead input and a buffer shorter than `length`, PCreep fails in the fill loop and changes nothing. -/
theorem creepAfterFill_dead {rec : Rec} (len cr : Int) (rp pr : Val) (ks : List Pat) (st : St)
    (hd : DeadAt rec ks 0) (hl : (st.buf.length : Int) < len) :
    NoVal (creepAfterFill rec len cr rp pr (fillBuf rec (len - st.buf.length).toNat ks st.buf) st).out ∧
    (creepAfterFill rec len cr rp pr (fillBuf rec (len - st.buf.length).toNat ks st.buf) st).kids = (stepKid rec ks 0).2 ∧
    (creepAfterFill rec len cr rp pr (fillBuf rec (len - st.buf.length).toNat ks st.buf) st).st = st := by
  obtain ⟨m, hm⟩ : ∃ m, (len - st.buf.length).toNat = m + 1 := ⟨(len - st.buf.length).toNat - 1, by omega⟩
  obtain ⟨f1, f2, f3⟩ := fillBuf_dead hd m st.buf
  rw [hm]
  simp only [creepAfterFill]
  split
  · rename_i x hx; exact absurd hx (f1 x)
  · rename_i o ho
    refine ⟨fun v hv => ho v hv, f2, ?_⟩
    simp only [f3]

/-- `PCreep` with a fixed `length`: it ends when a parameter ends, or when the input ends inside the fill loop
    or the creep loop — which leaves the buffer shorter than `length`, so that every later call has to fill
    it from the dead input first. -/
theorem creep_sticky_fix : ClsStickyFix .creep := by
  intro P rec kids st hrec hk hfix
  obtain ⟨k1, hk1, hf1⟩ := hfix 1 (by simp [lenParams])
  have hc : clsStep .creep = stepCreep := rfl
  rw [hc]
  have hP : ∀ k ∈ (stepCreep rec kids st).kids, P k := by
    have h1 := stepKidsSeq_P hrec [1, 2, 3, 4] kids [] hk
    have hf := fun k => fillBuf_P hrec k _ st.buf h1
    have hl := fun k j b => creepLoop_P hrec j _ b (hf k)
    simp only [stepCreep, creepAfterFill, creepMain, creepAfterLoop, creepEmit]
    (repeat' split) <;> first | exact h1 | exact hf _ | exact hl _ _ _
  have hK : ∀ kids st, kids[1]? = some k1 → (stepCreep rec kids st).kids[1]? = some k1 := by
    intro kids st hk1
    have h1 := stepKidsSeq_fixed_get rec [1, 2, 3, 4] kids [] 1 k1 hk1 hf1
    have hf := fun k =>
      (fillBuf_other rec k (stepKidsSeq rec [1, 2, 3, 4] kids []).2.1 st.buf 1 (by decide)).trans h1
    have hl := fun k j b =>
      (creepLoop_other rec j (fillBuf rec k (stepKidsSeq rec [1, 2, 3, 4] kids []).2.1 st.buf).2.1 b 1 (by decide)).trans (hf k)
    simp only [stepCreep, creepAfterFill, creepMain, creepAfterLoop, creepEmit]
    (repeat' split) <;> first | exact h1 | exact hf _ | exact hl _ _ _
  refine ⟨hP, ?_, fun hs => ?_⟩
  · intro i hi; simp [lenParams] at hi; subst hi; exact (hK kids st hk1).trans hk1.symm
  let D : List Pat → St → Prop := fun kids st => kids[1]? = some k1 ∧
    ((∃ j ∈ [1, 2, 3, 4], DeadAt rec kids j) ∨
     (∃ len : Int, (rec k1).out = .val (.a (.int len)) ∧ DeadAt rec kids 0 ∧ (st.buf.length : Int) < len))
  have hd : D (stepCreep rec kids st).kids (stepCreep rec kids st).st := by
    refine ⟨hK kids st hk1, ?_⟩
    have hSP := stepKidsSeq_P hrec [1, 2, 3, 4] kids [] hk
    simp only [stepCreep] at hs ⊢
    split
    · rename_i x len cr rp pr h1 h2
      simp only [h1, h2] at hs
      obtain ⟨d1, d2⟩ := creepAfterFill_stop hrec len cr rp pr _ st hSP hs
      exact Or.inr ⟨len, stepKidsSeq_head rec _ kids k1 hk1 hf1 x _ _ h1 h2, d1, d2⟩
    · rename_i x h1 h2
      simp only [h1] at hs
      simp at hs
    · rename_i hnv _
      have hs' : (stepKidsSeq rec [1, 2, 3, 4] kids []).1 = .stop := by
        split at hs
        · rename_i hx _; exact absurd hx (hnv _)
        · rename_i hx _; exact absurd hx (hnv _)
        · simpa using hs
      exact Or.inl (stepKidsSeq_stop hrec _ kids [] hk hs')
  intro n
  apply clsOuts_noVal stepCreep rec D _ n _ _ hd
  intro kids st h
  obtain ⟨hk1, h⟩ := h
  have key : NoVal (stepCreep rec kids st).out ∧
      ((∃ j ∈ [1, 2, 3, 4], DeadAt rec (stepCreep rec kids st).kids j) ∨
       (∃ len : Int, (rec k1).out = .val (.a (.int len)) ∧ DeadAt rec (stepCreep rec kids st).kids 0 ∧
          ((stepCreep rec kids st).st.buf.length : Int) < len)) := by
    rcases h with ⟨j, hj, hdj⟩ | ⟨len, hlen, hd0, hlt⟩
    · obtain ⟨n1, n2⟩ := stepKidsSeq_dead [1, 2, 3, 4] kids [] j hj hdj
      simp only [stepCreep]
      split
      · rename_i hx _; exact absurd hx (n1 _)
      · rename_i hx _; exact absurd hx (n1 _)
      · exact ⟨n1, Or.inl ⟨j, hj, n2⟩⟩
    · have hd0' := stepKidsSeq_dead_other (rec := rec) [1, 2, 3, 4] kids [] 0 (by decide) hd0
      simp only [stepCreep]
      split
      · rename_i x len' cr rp pr h1 h2
        have hh := stepKidsSeq_head rec _ kids k1 hk1 hf1 x _ _ h1 h2
        rw [hlen] at hh
        have hll : len = len' := by simpa using hh
        subst hll
        obtain ⟨f1, f2, f3⟩ := creepAfterFill_dead len cr rp pr _ st hd0' hlt
        refine ⟨f1, Or.inr ⟨len, hlen, ?_, ?_⟩⟩
        · rw [f2]; exact hd0'.step.2
        · rw [f3]; exact hlt
      · exact ⟨(fun v hv => by cases hv), Or.inr ⟨len, hlen, hd0', hlt⟩⟩
      · rename_i hnv _
        exact ⟨(fun v hv => hnv v hv), Or.inr ⟨len, hlen, hd0', hlt⟩⟩
  exact ⟨key.1, hK kids st hk1, key.2⟩

/-! ### Lifting to whole pattern trees -/

/-- A class that is sticky outright is sticky with fixed length-like parameters (it has none). -/
theorem fix_of_sticky (c : Cls) (h : ClsSticky c) (hl : lenParams c = []) : ClsStickyFix c := by
  intro P rec kids st hrec hk _
  obtain ⟨h1, h2⟩ := h P rec kids st hrec hk
  refine ⟨h1, ?_, h2⟩
  intro i hi; rw [hl] at hi; simp at hi

/-- The classes of this group that are sticky whatever their parameters do. -/
def Seq1Sticky (c : Cls) : Prop := c = .geom ∨ c = .impulse ∨ c = .loop ∨ c = .pingPong ∨ c = .stutter

theorem seq1_sticky (c : Cls) (h : Seq1Sticky c ∨ StickyCore c) : ClsSticky c := by
  rcases h with h | h
  · unfold Seq1Sticky at h
    rcases h with h | h | h | h | h <;> subst h
    · exact geom_sticky
    · exact impulse_sticky
    · exact loop_sticky
    · exact pingPong_sticky
    · exact stutter_sticky
  · exact core_sticky c h

/-- **C09 for PGeom, PImpulse, PLoop, PPingPong, PStutter and the core classes**, nested to any depth, with
    arbitrary (also varying) parameters: after StopIteration no later `next()` yields a value. -/
theorem sticky_seq1 (fuel : Nat) (p : Pat) (hp : AllCls (fun c => Seq1Sticky c ∨ StickyCore c) p)
    (hstop : (stepF fuel p).out = .stop) : ∀ n, ∀ o ∈ outs fuel n (stepF fuel p).p, NoVal o :=
  (sticky_stepF seq1_sticky fuel p hp).2 hstop

/-- All classes of this group (PSeries, PRange, PSubsequence, PCreep with fixed length-like parameters). -/
def Seq1Fix (c : Cls) : Prop :=
  c = .series ∨ c = .range ∨ c = .subsequence ∨ c = .creep ∨ Seq1Sticky c

theorem seq1_sticky_fix (c : Cls) (h : Seq1Fix c ∨ StickyCore c) : ClsStickyFix c := by
  rcases h with h | h
  · unfold Seq1Fix at h
    rcases h with h | h | h | h | h
    · subst h; exact series_sticky_fix
    · subst h; exact range_sticky_fix
    · subst h; exact subsequence_sticky_fix
    · subst h; exact creep_sticky_fix
    · refine fix_of_sticky c (seq1_sticky c (Or.inl h)) ?_
      unfold Seq1Sticky at h
      rcases h with h | h | h | h | h <;> subst h <;> rfl
  · refine fix_of_sticky c (core_sticky c h) ?_
    unfold StickyCore at h
    rcases h with h | h | h | h | h | h | h | h | h | h | h | h | h | h | h | h | h | h | h | h | h <;> subst h <;> rfl

/-- Every node's class is in `S` and every length-like parameter is a constant (`PConstant` / a plain scalar). -/
inductive FixTree (S : Cls → Prop) : Pat → Prop where
  | node {c : Cls} {kids : List Pat} {st : St} :
      S c → (∀ k ∈ kids, FixTree S k) → (∀ i ∈ lenParams c, ∃ s, kids[i]? = some (.node .const [] s)) →
      FixTree S (.node c kids st)

theorem stepF_const_p (fuel : Nat) (s : St) : (stepF fuel (.node .const [] s)).p = .node .const [] s := by
  cases fuel <;> rfl

/-- **Once a pattern has raised StopIteration no later `next()` yields a value**, for every tree of classes
    that are sticky given fixed length-like parameters, in which those parameters are constants. -/
theorem sticky_stepF_fix {S : Cls → Prop} (hS : ∀ c, S c → ClsStickyFix c) (fuel : Nat) (p : Pat) (hp : FixTree S p) :
    FixTree S (stepF fuel p).p ∧
    ((stepF fuel p).out = .stop → ∀ n, ∀ o ∈ outs fuel n (stepF fuel p).p, NoVal o) := by
  induction fuel generalizing p with
  | zero => refine ⟨hp, fun h => by simp [stepF] at h⟩
  | succ m ih =>
    cases hp with
    | node hc hk hl =>
      rename_i c kids st
      have hrec : RecSticky (FixTree S) (stepF m) := by
        intro k hk
        obtain ⟨i1, i2⟩ := ih k hk
        refine ⟨i1, fun hs n o ho => ?_⟩
        rw [recOuts_stepF] at ho
        exact i2 hs n o ho
      have hfix : ∀ i ∈ lenParams c, FixedAt (stepF m) kids i := by
        intro i hi
        obtain ⟨s, hs⟩ := hl i hi
        exact ⟨_, hs, stepF_const_p m s⟩
      obtain ⟨h1, h2, h3⟩ := hS c hc (FixTree S) (stepF m) kids st hrec hk hfix
      refine ⟨FixTree.node hc h1 ?_, fun h n o ho => ?_⟩
      · intro i hi
        obtain ⟨s, hs⟩ := hl i hi
        exact ⟨s, (h2 i hi).trans hs⟩
      · have hs : (clsStep c (stepF m) kids st).out = .stop := by simpa [stepF] using h
        have : outs (m + 1) n (stepF (m + 1) (.node c kids st)).p =
            clsOuts (clsStep c) (stepF m) n (clsStep c (stepF m) kids st).kids (clsStep c (stepF m) kids st).st := by
          simp only [stepF]; exact outs_eq_clsOuts m n c _ _
        rw [this] at ho
        exact h3 hs n o ho

/-- **C09 for the whole group and the core classes**: PSeries, PRange, PGeom, PImpulse, PLoop, PPingPong,
    PStutter, PSubsequence, PCreep, sequences, references and all operators, nested to any depth, every
    length-like parameter (`PSeries.length`, `PRange.end` / `.step`, `PSubsequence.offset` / `.length`,
    `PCreep.length`) a constant, all other parameters arbitrary patterns. -/
theorem sticky_seq1_fix (fuel : Nat) (p : Pat) (hp : FixTree (fun c => Seq1Fix c ∨ StickyCore c) p)
    (hstop : (stepF fuel p).out = .stop) : ∀ n, ∀ o ∈ outs fuel n (stepF fuel p).p, NoVal o :=
  (sticky_stepF_fix seq1_sticky_fix fuel p hp).2 hstop

/-! Non-vacuity -/
section Example
def c (i : Int) : Pat := Pat.const (.int i)
def sq (xs : List Int) (rep : Int) : Pat := .node .seq (xs.map c) { n0 := rep }
/-- a stutter (varying count) of a subsequence of a finite series -/
def ex : Pat :=
  .node .stutter [.node .subsequence [.node .series [c 4, c 3] { v0 := .int 10, v1 := .int 10 }, c 1, c 5] {}, sq [2, 1] (-1)]
    { v0 := .int 0, v1 := .int 0 }
example : outs 10 8 ex = [.val (.int 13), .val (.int 13), .val (.int 16), .val (.int 19), .val (.int 19), .stop, .stop, .stop] := by
  decide
/-- the varying-length counterexample that makes the side condition necessary -/
def bad : Pat := .node .series [sq [1, 5] (-1), c 1] { v0 := .int 0, v1 := .int 0 }
example : outs 10 6 bad = [.val (.int 0), .val (.int 1), .stop, .val (.int 2), .stop, .val (.int 3)] := by decide
end Example

example : FixTree (fun c => Seq1Fix c ∨ StickyCore c) ex := by
  have hc : ∀ i, FixTree (fun c => Seq1Fix c ∨ StickyCore c) (c i) :=
    fun i => FixTree.node (by simp [StickyCore]) (by simp) (by simp [lenParams])
  have hsq : ∀ xs r, FixTree (fun c => Seq1Fix c ∨ StickyCore c) (sq xs r) := by
    intro xs r
    refine FixTree.node (by simp [StickyCore]) ?_ (by simp [lenParams])
    intro k hk
    simp at hk
    obtain ⟨i, _, rfl⟩ := hk
    exact hc i
  refine FixTree.node (by simp [Seq1Fix, Seq1Sticky]) ?_ (by simp [lenParams])
  intro k hk
  simp at hk
  rcases hk with rfl | rfl
  · refine FixTree.node (by simp [Seq1Fix]) ?_ ?_
    · intro k hk
      simp at hk
      rcases hk with rfl | rfl | rfl
      · refine FixTree.node (by simp [Seq1Fix]) ?_ ?_
        · intro k hk; simp at hk; rcases hk with rfl | rfl <;> exact hc _
        · intro i hi; simp [lenParams] at hi; subst hi; exact ⟨_, rfl⟩
      · exact hc _
      · exact hc _
    · intro i hi; simp [lenParams] at hi; rcases hi with rfl | rfl <;> exact ⟨_, rfl⟩
  · exact hsq _ _

end IsobarV.C09Seq1
