/-
C04 — `reset()` rewinds any pattern: reset-correctness of the classes of `IsobarV/Pat/Cls/Seq2.lean`
(PReverse, PPad, PPadToMultiple, PCounter, PCollapse, PNoRepeats, PPermut, PInterpolate, PEuclidean,
PArpeggiator) and — with a variant of the generic machinery for invariants closed under `reset` — PReset,
whose `__next__` itself calls `reset()` on a sub-pattern.
-/
import IsobarV.Props.C04

namespace IsobarV.C04
open IsobarV.Pat

/-! ### Loops keep the kids inside the invariant and invisible to `reset` -/

theorem drainLoop_ok {P : Pat → Prop} {rec : Rec} (hrec : RecOK P rec) (fuel : Nat) (kids : List Pat) (acc : List Val)
    (hk : ∀ k ∈ kids, P k) :
    (∀ k ∈ (drainLoop rec fuel kids acc).2.1, P k) ∧ (drainLoop rec fuel kids acc).2.1.map reset = kids.map reset := by
  induction fuel generalizing kids acc with
  | zero => exact ⟨hk, rfl⟩
  | succ n ih =>
    obtain ⟨s1, s2⟩ := stepKid_ok hrec kids 0 hk
    simp only [drainLoop]
    split
    · obtain ⟨i1, i2⟩ := ih (stepKid rec kids 0).2 _ s1
      exact ⟨i1, i2.trans s2⟩
    · exact ⟨s1, s2⟩

theorem collapseLoop_ok {P : Pat → Prop} {rec : Rec} (hrec : RecOK P rec) (fuel : Nat) (kids : List Pat)
    (hk : ∀ k ∈ kids, P k) :
    (∀ k ∈ (collapseLoop rec fuel kids).2, P k) ∧ (collapseLoop rec fuel kids).2.map reset = kids.map reset := by
  induction fuel generalizing kids with
  | zero => exact ⟨hk, rfl⟩
  | succ n ih =>
    obtain ⟨s1, s2⟩ := stepKid_ok hrec kids 0 hk
    simp only [collapseLoop]
    split
    · obtain ⟨i1, i2⟩ := ih (stepKid rec kids 0).2 s1
      exact ⟨i1, i2.trans s2⟩
    · exact ⟨s1, s2⟩

theorem noRepLoop_ok {P : Pat → Prop} {rec : Rec} (hrec : RecOK P rec) (prev : Val) (fuel : Nat) (kids : List Pat)
    (hk : ∀ k ∈ kids, P k) :
    (∀ k ∈ (noRepLoop rec prev fuel kids).2, P k) ∧ (noRepLoop rec prev fuel kids).2.map reset = kids.map reset := by
  induction fuel generalizing kids with
  | zero => exact ⟨hk, rfl⟩
  | succ n ih =>
    obtain ⟨s1, s2⟩ := stepKid_ok hrec kids 0 hk
    simp only [noRepLoop]
    split
    · split
      · obtain ⟨i1, i2⟩ := ih (stepKid rec kids 0).2 s1
        exact ⟨i1, i2.trans s2⟩
      · exact ⟨s1, s2⟩
    · exact ⟨s1, s2⟩

theorem permBlock_ok {P : Pat → Prop} {rec : Rec} (hrec : RecOK P rec) (c : Nat) (kids : List Pat) (acc : List Val)
    (hk : ∀ k ∈ kids, P k) :
    (∀ k ∈ (permBlock rec c kids acc).2.1, P k) ∧ (permBlock rec c kids acc).2.1.map reset = kids.map reset := by
  induction c generalizing kids acc with
  | zero => exact ⟨hk, rfl⟩
  | succ n ih =>
    obtain ⟨s1, s2⟩ := stepKid_ok hrec kids 0 hk
    simp only [permBlock]
    split
    · obtain ⟨i1, i2⟩ := ih (stepKid rec kids 0).2 _ s1
      exact ⟨i1, i2.trans s2⟩
    · exact ⟨s1, s2⟩
    · exact ⟨s1, s2⟩

theorem interpSkip_ok {P : Pat → Prop} {rec : Rec} (hrec : RecOK P rec) (fuel : Nat) (kids : List Pat) (cur : Val)
    (hk : ∀ k ∈ kids, P k) :
    (∀ k ∈ (interpSkip rec fuel kids cur).2.1, P k) ∧ (interpSkip rec fuel kids cur).2.1.map reset = kids.map reset := by
  induction fuel generalizing kids cur with
  | zero => exact ⟨hk, rfl⟩
  | succ n ih =>
    obtain ⟨s1, s2⟩ := stepKid_ok hrec kids 1 hk
    obtain ⟨t1, t2⟩ := stepKid_ok hrec (stepKid rec kids 1).2 0 s1
    simp only [interpSkip]
    split
    · split
      · split
        · obtain ⟨i1, i2⟩ := ih (stepKid rec (stepKid rec kids 1).2 0).2 _ t1
          exact ⟨i1, i2.trans (t2.trans s2)⟩
        · exact ⟨t1, t2.trans s2⟩
      · exact ⟨s1, s2⟩
    · exact ⟨s1, s2⟩

/-! ### The classes -/

/-- `PReverse.reset()` re-materialises the reversed input: the model forgets the buffer. -/
theorem reverse_ok : ClsResetOK .reverse := by
  intro P rec kids st hrec hk
  obtain ⟨h1, h2⟩ := drainLoop_ok hrec LOOPFUEL kids [] hk
  have hc : clsStep .reverse = stepReverse := rfl
  have hr : ∀ s, clsReset .reverse s = { resetReverse s with cur := 0 } := fun _ => rfl
  rw [hc, hr, hr]
  simp only [stepReverse, resetReverse]
  repeat' split
  all_goals first | exact ⟨h1, h2, rfl⟩ | exact ⟨hk, rfl, rfl⟩

theorem pad_ok : ClsResetOK .pad := by
  intro P rec kids st hrec hk
  obtain ⟨h1, h2⟩ := stepKid_ok hrec kids 0 hk
  have hc : clsStep .pad = stepPad := rfl
  have hr : ∀ s, clsReset .pad s = { resetPad s with cur := 0 } := fun _ => rfl
  rw [hc, hr, hr]
  simp only [stepPad, resetPad]
  repeat' split
  all_goals exact ⟨h1, h2, rfl⟩

/-- `PPadToMultiple.reset()` (fix 62) sets `count` and `padcount` back to 0. -/
theorem padToMultiple_ok : ClsResetOK .padToMultiple := by
  intro P rec kids st hrec hk
  obtain ⟨h1, h2⟩ := stepKid_ok hrec kids 0 hk
  have hc : clsStep .padToMultiple = stepPadToMultiple := rfl
  have hr : ∀ s, clsReset .padToMultiple s = { resetPadToMultiple s with cur := 0 } := fun _ => rfl
  rw [hc, hr, hr]
  simp only [stepPadToMultiple, resetPadToMultiple]
  repeat' split
  all_goals exact ⟨h1, h2, rfl⟩

/-- `PCounter.reset()` (fix 60) sets `count` and `value` back to 0. -/
theorem counter_ok : ClsResetOK .counter := by
  intro P rec kids st hrec hk
  obtain ⟨h1, h2⟩ := stepKid_ok hrec kids 0 hk
  have hc : clsStep .counter = stepCounter := rfl
  have hr : ∀ s, clsReset .counter s = { resetCounter s with cur := 0 } := fun _ => rfl
  rw [hc, hr, hr]
  simp only [stepCounter, resetCounter]
  repeat' split
  all_goals exact ⟨h1, h2, rfl⟩

theorem collapse_ok : ClsResetOK .collapse := by
  intro P rec kids st hrec hk
  obtain ⟨h1, h2⟩ := collapseLoop_ok hrec LOOPFUEL kids hk
  exact ⟨h1, h2, rfl⟩

/-- `PNoRepeats.reset()` (fix 61) forgets the last value. -/
theorem noRepeats_ok : ClsResetOK .noRepeats := by
  intro P rec kids st hrec hk
  obtain ⟨h1, h2⟩ := noRepLoop_ok hrec st.v0 LOOPFUEL kids hk
  have hc : clsStep .noRepeats = stepNoRepeats := rfl
  have hr : ∀ s, clsReset .noRepeats s = { resetNoRepeats s with cur := 0 } := fun _ => rfl
  rw [hc, hr, hr]
  simp only [stepNoRepeats, resetNoRepeats]
  repeat' split
  all_goals exact ⟨h1, h2, rfl⟩

theorem permEmit_kids (kids : List Pat) (st : St) : (permEmit kids st).kids = kids := by
  simp only [permEmit]; repeat' split
  all_goals rfl

theorem permEmit_reset (kids : List Pat) (st : St) : resetPermut (permEmit kids st).st = resetPermut st := by
  simp only [permEmit]; repeat' split
  all_goals rfl

theorem permut_ok : ClsResetOK .permut := by
  intro P rec kids st hrec hk
  obtain ⟨h1, h2⟩ := permBlock_ok hrec st.n0.toNat kids [] hk
  have hc : clsStep .permut = stepPermut := rfl
  have hr : ∀ s, clsReset .permut s = { resetPermut s with cur := 0 } := fun _ => rfl
  rw [hc, hr, hr]
  simp only [stepPermut]
  repeat' split
  all_goals first
    | exact ⟨h1, h2, rfl⟩
    | (rw [permEmit_kids, permEmit_reset]; first | exact ⟨h1, h2, rfl⟩ | exact ⟨hk, rfl, rfl⟩)

theorem interpEmit_kids (kids : List Pat) (st : St) (cur : Val) (sv : List Val) : (interpEmit kids st cur sv).kids = kids := by
  simp only [interpEmit]; split <;> rfl

theorem interpEmit_reset (kids : List Pat) (st : St) (cur : Val) (sv : List Val) :
    resetInterpolate (interpEmit kids st cur sv).st = resetInterpolate st := by
  simp only [interpEmit]; split <;> rfl

theorem interpolate_ok : ClsResetOK .interpolate := by
  intro P rec kids st hrec hk
  obtain ⟨a1, a2⟩ := stepKid_ok hrec kids 0 hk
  obtain ⟨h1, h2⟩ := interpSkip_ok hrec LOOPFUEL kids st.v0 hk
  obtain ⟨t1, t2⟩ := stepKid_ok hrec (interpSkip rec LOOPFUEL kids st.v0).2.1 0 h1
  have hc : clsStep .interpolate = stepInterpolate := rfl
  have hr : ∀ s, clsReset .interpolate s = { resetInterpolate s with cur := 0 } := fun _ => rfl
  rw [hc, hr, hr]
  simp only [stepInterpolate]
  repeat' split
  all_goals first
    | exact ⟨a1, a2, rfl⟩
    | exact ⟨h1, h2, rfl⟩
    | exact ⟨t1, t2.trans h2, rfl⟩
    | exact ⟨hk, rfl, rfl⟩
    | (rw [interpEmit_kids, interpEmit_reset]; exact ⟨t1, t2.trans h2, rfl⟩)

theorem euclidEmit_kids (kids : List Pat) (st : St) (seq : List Bool) : (euclidEmit kids st seq).kids = kids := by
  simp only [euclidEmit]; repeat' split
  all_goals rfl

theorem euclidEmit_reset (kids : List Pat) (st : St) (seq : List Bool) :
    resetEuclidean (euclidEmit kids st seq).st = resetEuclidean st := by
  simp only [euclidEmit]; repeat' split
  all_goals rfl

/-- `PEuclidean.reset()` (fix 64) returns to the initial phase. -/
theorem euclidean_ok : ClsResetOK .euclidean := by
  intro P rec kids st hrec hk
  obtain ⟨h1, h2⟩ := stepKid_ok hrec kids 1 hk
  obtain ⟨t1, t2⟩ := stepKid_ok hrec (stepKid rec kids 1).2 0 h1
  have hc : clsStep .euclidean = stepEuclidean := rfl
  have hr : ∀ s, clsReset .euclidean s = { resetEuclidean s with cur := 0 } := fun _ => rfl
  rw [hc, hr, hr]
  simp only [stepEuclidean]
  repeat' split
  all_goals first
    | exact ⟨h1, h2, rfl⟩
    | exact ⟨t1, t2.trans h2, rfl⟩
    | (rw [euclidEmit_kids, euclidEmit_reset]; exact ⟨t1, t2.trans h2, rfl⟩)

/-- `PArpeggiator.reset()` (fix 63) rewinds `pos`. -/
theorem arpeggiator_ok : ClsResetOK .arpeggiator := by
  intro P rec kids st hrec hk
  have hc : clsStep .arpeggiator = stepArpeggiator := rfl
  have hr : ∀ s, clsReset .arpeggiator s = { resetArpeggiator s with cur := 0 } := fun _ => rfl
  rw [hc, hr, hr]
  simp only [stepArpeggiator, resetArpeggiator]
  repeat' split
  all_goals exact ⟨hk, rfl, rfl⟩

/-- The classes of this group proved reset-correct in the sense of `ClsResetOK`. -/
def Seq2Cls (c : Cls) : Prop :=
  c = .reverse ∨ c = .pad ∨ c = .padToMultiple ∨ c = .counter ∨ c = .collapse ∨ c = .noRepeats ∨ c = .permut ∨
  c = .interpolate ∨ c = .euclidean ∨ c = .arpeggiator

theorem seq2_ok : ∀ c, Seq2Cls c ∨ CoreCls c → ClsResetOK c := by
  intro c h
  rcases h with h | h
  · unfold Seq2Cls at h
    rcases h with h | h | h | h | h | h | h | h | h | h <;> subst h
    · exact reverse_ok
    · exact pad_ok
    · exact padToMultiple_ok
    · exact counter_ok
    · exact collapse_ok
    · exact noRepeats_ok
    · exact permut_ok
    · exact interpolate_ok
    · exact euclidean_ok
    · exact arpeggiator_ok
  · exact core_ok c h

/-- **C04 for this group**: any expression built from the classes above and the core classes, nested to any
    depth, is rewound by `reset()` after any number of steps. -/
theorem reset_rewinds_seq2 (fuel k : Nat) (p0 : Pat) (hp : AllCls (fun c => Seq2Cls c ∨ CoreCls c) p0) (h0 : IsInit p0) :
    reset (after fuel k p0) = p0 :=
  reset_rewinds seq2_ok fuel k p0 hp h0

theorem all_rewinds_seq2 (fuel maximum : Nat) (p0 : Pat) (hp : AllCls (fun c => Seq2Cls c ∨ CoreCls c) p0) (h0 : IsInit p0)
    (hok : (nextn fuel maximum p0).err = Option.none) : (all fuel maximum p0).p = p0 :=
  all_rewinds seq2_ok fuel maximum p0 hp h0 hok

/-! ### PReset: `__next__` calls `reset()` on its pattern

`ClsResetOK` quantifies over arbitrary invariants `P`; a class that itself resets a sub-pattern needs `P` to be
closed under `reset` and `reset` to be idempotent on `P`.  Both hold for `AllCls S` when every class of `S` has an
idempotent own-state reset, so the tree-level theorem is re-derived for that situation. -/

/-- Reset-correctness relative to invariants closed under an idempotent `reset`. -/
def ClsResetOKR (c : Cls) : Prop :=
  ∀ (P : Pat → Prop) (rec : Rec) (kids : List Pat) (st : St), RecOK P rec →
    (∀ k, P k → P (reset k) ∧ reset (reset k) = reset k) → (∀ k ∈ kids, P k) →
    (∀ k ∈ (clsStep c rec kids st).kids, P k) ∧
    (clsStep c rec kids st).kids.map reset = kids.map reset ∧
    clsReset c (clsStep c rec kids st).st = clsReset c st

theorem ClsResetOK.toR {c : Cls} (h : ClsResetOK c) : ClsResetOKR c :=
  fun P rec kids st hrec _ hk => h P rec kids st hrec hk

theorem resetKid_ok {P : Pat → Prop} (hcl : ∀ k, P k → P (reset k) ∧ reset (reset k) = reset k) (kids : List Pat) (i : Nat)
    (hk : ∀ k ∈ kids, P k) :
    (∀ k ∈ resetKid reset kids i, P k) ∧ (resetKid reset kids i).map reset = kids.map reset := by
  unfold resetKid
  cases h : kids[i]? with
  | none => exact ⟨hk, rfl⟩
  | some k =>
    obtain ⟨c1, c2⟩ := hcl k (hk k (List.mem_of_getElem? h))
    constructor
    · intro x hx
      rcases List.mem_or_eq_of_mem_set hx with hx | rfl
      · exact hk x hx
      · exact c1
    · simp only []
      rw [List.map_set, c2]
      exact set_same _ _ _ (by simp [h])

/-- `PReset` keeps no state of its own; it steps the trigger, possibly resets the pattern, then steps it. -/
theorem preset_ok : ClsResetOKR .reset := by
  intro P rec kids st hrec hcl hk
  obtain ⟨h1, h2⟩ := stepKid_ok hrec kids 1 hk
  obtain ⟨r1, r2⟩ := resetKid_ok hcl (stepKid rec kids 1).2 0 h1
  obtain ⟨a1, a2⟩ := stepKid_ok hrec (resetKid reset (stepKid rec kids 1).2 0) 0 r1
  obtain ⟨b1, b2⟩ := stepKid_ok hrec (stepKid rec kids 1).2 0 h1
  have hc : clsStep .reset = stepResetW reset := rfl
  rw [hc]
  simp only [stepResetW]
  repeat' split
  all_goals first
    | exact ⟨a1, a2.trans (r2.trans h2), rfl⟩
    | exact ⟨b1, b2.trans h2, rfl⟩
    | exact ⟨h1, h2, rfl⟩

/-- `reset` preserves the classes of a tree and is idempotent when every own-state reset is. -/
theorem reset_allCls {S : Cls → Prop} (hidem : ∀ c, S c → ∀ st, clsReset c (clsReset c st) = clsReset c st)
    (p : Pat) (hp : AllCls S p) : AllCls S (reset p) ∧ reset (reset p) = reset p := by
  induction hp with
  | node hc hk ih =>
    rename_i c kids st
    rw [reset_node]
    constructor
    · refine AllCls.node hc ?_
      intro k hk'
      obtain ⟨k0, hk0, rfl⟩ := List.mem_map.mp hk'
      exact (ih k0 hk0).1
    · rw [reset_node, hidem c hc st, List.map_map]
      congr 1
      apply List.map_congr_left
      intro k hk0
      exact (ih k hk0).2

theorem reset_stepF_R {S : Cls → Prop} (hS : ∀ c, S c → ClsResetOKR c)
    (hidem : ∀ c, S c → ∀ st, clsReset c (clsReset c st) = clsReset c st) (fuel : Nat) (p : Pat) (hp : AllCls S p) :
    AllCls S (stepF fuel p).p ∧ reset (stepF fuel p).p = reset p := by
  induction fuel generalizing p with
  | zero => exact ⟨hp, rfl⟩
  | succ n ih =>
    cases hp with
    | node hc hk =>
      rename_i c kids st
      have hrec : RecOK (AllCls S) (stepF n) := fun k hk => ih k hk
      obtain ⟨h1, h2, h3⟩ := hS c hc (AllCls S) (stepF n) kids st hrec (reset_allCls hidem) hk
      constructor
      · exact AllCls.node hc h1
      · simp only [stepF, reset_node, h2, h3]

theorem reset_after_R {S : Cls → Prop} (hS : ∀ c, S c → ClsResetOKR c)
    (hidem : ∀ c, S c → ∀ st, clsReset c (clsReset c st) = clsReset c st) (fuel n : Nat) (p : Pat) (hp : AllCls S p) :
    AllCls S (after fuel n p) ∧ reset (after fuel n p) = reset p := by
  induction n generalizing p with
  | zero => exact ⟨hp, rfl⟩
  | succ n ih =>
    obtain ⟨h1, h2⟩ := reset_stepF_R hS hidem fuel p hp
    obtain ⟨i1, i2⟩ := ih _ h1
    exact ⟨i1, i2.trans h2⟩

/-- This group, `PReset` included, and the core classes. -/
def Seq2ClsR (c : Cls) : Prop := c = .reset ∨ Seq2Cls c ∨ CoreCls c

theorem seq2R_ok : ∀ c, Seq2ClsR c → ClsResetOKR c := by
  intro c h
  rcases h with h | h
  · subst h; exact preset_ok
  · exact ClsResetOK.toR (seq2_ok c h)

theorem seq2R_idem : ∀ c, Seq2ClsR c → ∀ st, clsReset c (clsReset c st) = clsReset c st := by
  intro c h st
  rcases h with h | h | h
  · subst h; rfl
  · unfold Seq2Cls at h
    rcases h with h | h | h | h | h | h | h | h | h | h <;> subst h <;> rfl
  · unfold CoreCls at h
    rcases h with h | h | h | h | h | h | h | h | h | h | h | h | h | h | h | h | h | h | h | h | h | h | h <;> subst h <;> rfl

/-- **C04 with `PReset` in the tree**: expressions built from this group (including patterns that reset their
    sub-patterns while running), and the core classes, nested to any depth, are rewound by `reset()` after any
    number of steps. -/
theorem reset_rewinds_seq2_preset (fuel k : Nat) (p0 : Pat) (hp : AllCls Seq2ClsR p0) (h0 : IsInit p0) :
    reset (after fuel k p0) = p0 := by
  rw [(reset_after_R seq2R_ok seq2R_idem fuel k p0 hp).2]; exact h0

/-! Non-vacuity: nested expressions of this group, consumed, then reset. -/
section Example
def cI (i : Int) : Pat := Pat.const (.int i)
def sqI (xs : List Int) (rep : Int) : Pat := .node .seq (xs.map cI) { n0 := rep }
/-- `PPadToMultiple(PReverse(PCounter(PSequence([1, 0, 1], 1))), 4, 1)` -/
def ex1 : Pat := .node .padToMultiple [.node .reverse [.node .counter [sqI [1, 0, 1] 1] {}] {}] { n0 := 4, n1 := 1 }
example : IsInit ex1 := by unfold IsInit; rfl
example : outs 10 9 ex1 = [.val (.int 2), .val (.int 1), .val (.int 1), .val Val.none, .stop, .stop, .stop, .stop, .stop] := by decide
example : reset (after 10 6 ex1) = ex1 := by rfl
/-- `PReset(PNoRepeats(PSequence([5, 5, 6], 1)), PSequence([0, 0, 1, 0]))` -/
def ex2 : Pat := .node .reset [.node .noRepeats [sqI [5, 5, 6] 1] { v0 := .int MAXSIZE }, sqI [0, 0, 1, 0] (-1)] {}
example : IsInit ex2 := by unfold IsInit; rfl
example : outs 10 6 ex2 = [.val (.int 5), .val (.int 6), .val (.int 5), .val (.int 6), .stop, .stop] := by decide
example : reset (after 10 5 ex2) = ex2 := by rfl
end Example

end IsobarV.C04
