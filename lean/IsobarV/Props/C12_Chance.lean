/-
C12 for the stochastic classes: pattern-valued parameters are resolved afresh at every step, exactly
once per use, in the order of the code — per output step for the classes of the form `stepPure idx core`,
per block for the block-wise ones (PRandomImpulseSequence, PShuffleInput).
-/
import IsobarV.Props.C12
import IsobarV.Pat.Cls.Chance

namespace IsobarV.C12
open IsobarV.Pat

/-- Two parameters, both yielding a value: each is exactly one `rec`-step further, and the values the
    class computes on are exactly the two values taken, in order. -/
theorem resolve2 (rec : Rec) (a b : Pat) (x y : Val) (ha : (rec a).out = .val x) (hb : (rec b).out = .val y) :
    resolve rec [0, 1] [a, b] = { vals := [x, y], bad := Option.none, kids := [(rec a).p, (rec b).p] } := by
  simp [resolve, stepKid, ha, hb]

theorem resolve3 (rec : Rec) (a b c : Pat) (x y z : Val) (ha : (rec a).out = .val x) (hb : (rec b).out = .val y)
    (hc : (rec c).out = .val z) :
    resolve rec [0, 1, 2] [a, b, c] = { vals := [x, y, z], bad := Option.none, kids := [(rec a).p, (rec b).p, (rec c).p] } := by
  simp [resolve, stepKid, ha, hb, hc]

/-- **Parameters of a stochastic class are consumed exactly once per output step, in order, and the
    step computes on exactly the values consumed** (PCoin.probability/regular, PChoice.values/weights,
    PSkip.play, PFlipFlop.p_on/p_off, PRandomExponential.min/max). -/
theorem pure2_consumes_once (core : List Val → St → Out × St) (rec : Rec) (a b : Pat) (st : St) (x y : Val)
    (ha : (rec a).out = .val x) (hb : (rec b).out = .val y) :
    (stepPure [0, 1] core rec [a, b] st).kids = [(rec a).p, (rec b).p] ∧
    (stepPure [0, 1] core rec [a, b] st).out = (core [x, y] st).1 := by
  simp [stepPure, resolve2 rec a b x y ha hb]

/-- The same for three parameters (PWhite.min/max/length, PBrown.step/min/max, PRandomWalk.values/min/max,
    PSample.values/count/weights). -/
theorem pure3_consumes_once (core : List Val → St → Out × St) (rec : Rec) (a b c : Pat) (st : St) (x y z : Val)
    (ha : (rec a).out = .val x) (hb : (rec b).out = .val y) (hc : (rec c).out = .val z) :
    (stepPure [0, 1, 2] core rec [a, b, c] st).kids = [(rec a).p, (rec b).p, (rec c).p] ∧
    (stepPure [0, 1, 2] core rec [a, b, c] st).out = (core [x, y, z] st).1 := by
  simp [stepPure, resolve3 rec a b c x y z ha hb hc]

/-- A parameter that ends (or raises) ends the step: own state untouched, later parameters not read. -/
theorem pure_param_ends (core : List Val → St → Out × St) (rec : Rec) (a b : Pat) (st : St) (o : Out)
    (ha : (rec a).out = o) (hno : ∀ v, o ≠ .val v) :
    (stepPure [0, 1] core rec [a, b] st).out = o ∧ (stepPure [0, 1] core rec [a, b] st).st = st ∧
    (stepPure [0, 1] core rec [a, b] st).kids = [(rec a).p, b] := by
  have : resolve rec [0, 1] [a, b] = { vals := [], bad := some o, kids := [(rec a).p, b] } := by
    cases o with
    | val v => exact absurd rfl (hno v)
    | stop => simp [resolve, stepKid, ha]
    | err e => simp [resolve, stepKid, ha]
  simp [stepPure, this]

/-- **Block-wise: PRandomImpulseSequence reads `length` (and `probability`) only at the start of a cycle** —
    in the middle of a cycle no parameter is consumed. -/
theorem ris_mid_cycle_reads_nothing (rec : Rec) (kids : List Pat) (st : St) (h : st.n0.toNat < st.buf.length) :
    (stepRIS rec kids st).kids = kids := by
  simp only [stepRIS]
  rw [if_neg (by omega)]
  split <;> rfl

/-- … and at the start of a cycle `length` is read exactly once (first), `probability` at most once. -/
theorem ris_cycle_start_reads_length (rec : Rec) (p l : Pat) (st : St) (h : st.buf.length ≤ st.n0.toNat) :
    ∃ p', (stepRIS rec [p, l] st).kids = [p', (rec l).p] ∧ (p' = p ∨ p' = (rec p).p) := by
  simp only [stepRIS]
  rw [if_pos h]
  simp only [stepKid, List.getElem?_cons_succ, List.getElem?_cons_zero, List.set_cons_succ, List.set_cons_zero]
  repeat' split
  all_goals first
    | exact ⟨p, rfl, Or.inl rfl⟩
    | exact ⟨(rec p).p, rfl, Or.inr rfl⟩

/-- **Block-wise: PShuffleInput reads `every` only when a new block is fetched.** -/
theorem shuffleInput_mid_block_reads_nothing (rec : Rec) (kids : List Pat) (st : St)
    (h : st.n0.toNat < st.buf.length) (h0 : st.n0 ≠ 0) : (stepShuffleInput rec kids st).kids = kids := by
  simp only [stepShuffleInput]
  rw [if_neg (by intro hc; rcases hc with hc | hc; omega; exact h0 hc)]
  split <;> rfl

/-- **PSwitchOne reads `length` once at every step**, before anything else. -/
theorem switchOne_reads_length (rec : Rec) (inp l : Pat) (st : St) :
    ∃ i', (stepSwitchOne rec [inp, l] st).kids = [i', (rec l).p] ∧ (i' = inp ∨ i' = (rec inp).p) := by
  simp only [stepSwitchOne, stepKid, List.getElem?_cons_succ, List.getElem?_cons_zero, List.set_cons_succ, List.set_cons_zero]
  repeat' split
  all_goals first
    | exact ⟨inp, rfl, Or.inl rfl⟩
    | exact ⟨(rec inp).p, rfl, Or.inr rfl⟩

/-! Non-vacuity: a PFlipFlop whose `p_on` alternates 0, 1 (the repaired code reads it at every step). -/
section Example
def exFF : Pat :=
  .node .flipFlop [.node .seq [Pat.const (.flt 0), Pat.const (.flt 1)] { n0 := -1 }, Pat.const (.flt 0)]
    { v0 := .int 0, v1 := .int 0, tape := [.u (1/2), .u (1/2), .u (1/2)] }
example : outs 5 3 exFF = [.val (.int 0), .val (.int 1), .val (.int 1)] := by decide +kernel
example : (stepPure [0, 1] coinCore (stepF 3) [Pat.const (.flt (3/4)), Pat.const (.bool false)] { tape := [.u (1/2)] }).kids =
    [Pat.const (.flt (3/4)), Pat.const (.bool false)] := by rfl
end Example

end IsobarV.C12
