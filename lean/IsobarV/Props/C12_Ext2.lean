/-
C12 — pattern-valued parameters are resolved afresh at every step: the ext2 group.

`PFilterByKey.key`, `PNearestNoteInKey.key` (and their `pattern`), `PKeyTonic.key`, `PKeyScale.key`, `PFunc.function`:
one `rec`-step per step that yields.  `PSequenceAction.repeats` is resolved exactly when the inner sequence ends — not
while it yields — and exactly once then.
-/
import IsobarV.Pat.Cls.ScalarLemmas
import IsobarV.Props.C12_Scalar

namespace IsobarV.C12Ext2
open IsobarV.Pat

/-- `PFilterByKey.pattern` (index 0) and `PFilterByKey.key` (index 1). -/
theorem filterByKey_params_once (rec : Rec) (kids : List Pat) (st : St) (v : Val)
    (h : (stepFilterByKey rec kids st).out = .val v) (i : Nat) (hi : i < 2) (k : Pat) (hk : kids[i]? = some k) :
    (stepFilterByKey rec kids st).kids[i]? = some (rec k).p :=
  poll_param_once _ _ (fun _ => by decide) rec kids st v h i k
    (by have : i = 0 ∨ i = 1 := by omega
        rcases this with rfl | rfl <;> simp) hk

/-- `PNearestNoteInKey.pattern` (index 0) and `PNearestNoteInKey.key` (index 1). -/
theorem nearestNoteInKey_params_once (rec : Rec) (kids : List Pat) (st : St) (v : Val)
    (h : (stepNearestNoteInKey rec kids st).out = .val v) (i : Nat) (hi : i < 2) (k : Pat) (hk : kids[i]? = some k) :
    (stepNearestNoteInKey rec kids st).kids[i]? = some (rec k).p :=
  poll_param_once _ _ (fun _ => by decide) rec kids st v h i k
    (by have : i = 0 ∨ i = 1 := by omega
        rcases this with rfl | rfl <;> simp) hk

/-- `PKeyTonic.key`. -/
theorem keyTonic_key_once (rec : Rec) (kids : List Pat) (st : St) (v : Val)
    (h : (stepKeyTonic rec kids st).out = .val v) (k : Pat) (hk : kids[0]? = some k) :
    (stepKeyTonic rec kids st).kids[0]? = some (rec k).p :=
  poll_param_once _ _ (fun _ => by decide) rec kids st v h 0 k (by simp) hk

/-- `PKeyScale.key`. -/
theorem keyScale_key_once (rec : Rec) (kids : List Pat) (st : St) (v : Val)
    (h : (stepKeyScale rec kids st).out = .val v) (k : Pat) (hk : kids[0]? = some k) :
    (stepKeyScale rec kids st).kids[0]? = some (rec k).p :=
  poll_param_once _ _ (fun _ => by decide) rec kids st v h 0 k (by simp) hk

/-- `PFunc.function`. -/
theorem func_function_once (rec : Rec) (kids : List Pat) (st : St) (v : Val)
    (h : (stepFunc rec kids st).out = .val v) (k : Pat) (hk : kids[0]? = some k) :
    (stepFunc rec kids st).kids[0]? = some (rec k).p :=
  poll_param_once _ _ (fun _ => by decide) rec kids st v h 0 k (by simp) hk

theorem stepKid_succ_zero (rec : Rec) (kids : List Pat) (j : Nat) : (stepKid rec kids (j + 1)).2[0]? = kids[0]? := by
  unfold stepKid
  split <;> simp

/-- **`PSequenceAction.repeats` is not touched while the inner sequence yields**: such a step is the step of the
    inner sequence, and `repeats` (kid 0) is the same object afterwards. -/
theorem sequenceAction_repeats_untouched_within_pass (rs : Pat → Pat) (rec : Rec) (fuel : Nat) (kids : List Pat) (st : St)
    (v : Val) (h : (saInner rec kids st).out = .val v) :
    saLoop rs rec (fuel + 1) kids st = saInner rec kids st ∧ (saInner rec kids st).kids[0]? = kids[0]? := by
  constructor
  · simp only [saLoop, h]
  · unfold saInner at h ⊢
    split
    · rfl
    · split
      · split
        · exact stepKid_succ_zero rec kids _
        · exact stepKid_succ_zero rec kids _
      · rfl

/-- **… and is resolved exactly once when the inner sequence has ended**: here with a value that ends the pattern
    (`repeat_counter >= repeats`). -/
theorem sequenceAction_repeats_once_at_end (rs : Pat → Pat) (rec : Rec) (fuel : Nat) (kids : List Pat) (st : St)
    (hi : (saInner rec kids st).out = .stop) (k0 : Pat) (hk : (saInner rec kids st).kids[0]? = some k0) (rv : Val)
    (hr : (rec k0).out = .val rv) (hd : saDone ((saInner rec kids st).st.n1 + 1) rv = some true) :
    (saLoop rs rec (fuel + 1) kids st).out = .stop ∧ (saLoop rs rec (fuel + 1) kids st).kids[0]? = some (rec k0).p := by
  have hs := stepKid_get rec (saInner rec kids st).kids 0 k0 hk
  have hlen : 0 < (saInner rec kids st).kids.length := by
    cases hkk : (saInner rec kids st).kids with
    | nil => rw [hkk] at hk; simp at hk
    | cons _ _ => simp
  simp only [saLoop, hi, hs, hr, hd]
  simp [hlen]

/-! Non-vacuity: rotate `[1, 2]` with `repeats` taken from the stream 5, 5, 2: the stream is read once per pass end
    (the last read, 5 again, exceeds the counter 4: the pattern resumes — the selector behaviour noted in C09_Ext2). -/
section Example
def c (i : Int) : Pat := Pat.const (.int i)
def exR : Pat := .node .sequenceAction [.node .seq [c 5, c 5, c 2] { n0 := -1 }, c 1, c 2] { n0 := 2 }
example : outs 10 8 exR = [.val (.int 1), .val (.int 2), .val (.int 2), .val (.int 1), .val (.int 1), .val (.int 2), .stop, .val (.int 2)] := by
  decide +kernel
example : (saInner (stepF 5) exR.kids exR.st).out = .val (.int 1) := by decide +kernel
example : (stepFilterByKey (stepF 5) [c 3, Pat.const (.tup [.int 0, .str "major"])] {}).out = .val Val.none := by decide +kernel
end Example

end IsobarV.C12Ext2
