/-
C08 — arithmetic and comparison operators apply element-wise.

All statements hold for an ARBITRARY semantics `rec` of the operand patterns (hence for operands of any
class and any nesting depth), any operand states, and any number of steps.
-/
import IsobarV.Pat.Lemmas

namespace IsobarV.C08
open IsobarV.Pat

/-- One step of a binary operator: take a value from `a`; only if that succeeds take one from `b`;
    apply `f`.  If `a` ends (or raises) `b` is not consumed; if `b` ends, `a`'s value is lost. -/
theorem bin_step (f : Val → Val → Out) (rec : Rec) (a b : Pat) (st : St) :
    stepBin f rec [a, b] st =
      (match (rec a).out with
       | .val x =>
         (match (rec b).out with
          | .val y => { out := f x y, kids := [(rec a).p, (rec b).p], st := st }
          | o => { out := o, kids := [(rec a).p, (rec b).p], st := st })
       | o => { out := o, kids := [(rec a).p, b], st := st }) := by
  simp only [stepBin, stepKid, List.getElem?_cons_zero, List.set_cons_zero]
  cases h : (rec a).out <;> simp [List.set]
  cases h2 : (rec b).out <;> simp

/-- **Element-wise.**  While both operands yield values, the `i`-th output of the operator pattern is
    `f` applied to the `i`-th outputs of the operands — for every `n`. -/
theorem bin_elementwise (f : Val → Val → Out) (rec : Rec) (n : Nat) (a b : Pat) (st : St) (as bs : List Val)
    (ha : recOuts rec n a = as.map Out.val) (hb : recOuts rec n b = bs.map Out.val) :
    clsOuts (stepBin f) rec n [a, b] st = List.zipWith f as bs := by
  induction n generalizing a b as bs with
  | zero => cases as <;> cases bs <;> simp_all [recOuts, clsOuts]
  | succ n ih =>
    cases as with
    | nil => simp [recOuts] at ha
    | cons x as =>
      cases bs with
      | nil => simp [recOuts] at hb
      | cons y bs =>
        simp only [recOuts, List.map_cons, List.cons.injEq] at ha hb
        simp only [clsOuts, bin_step, ha.1, hb.1, List.zipWith_cons_cons]
        rw [ih _ _ as bs ha.2 hb.2]

/-- **The result ends as soon as either operand ends** (first operand): after `k` common values, if
    `a` is exhausted the operator pattern yields StopIteration and has not consumed `b`'s next value. -/
theorem ends_with_first (f : Val → Val → Out) (rec : Rec) (a b : Pat) (st : St) (h : (rec a).out = .stop) :
    (stepBin f rec [a, b] st).out = .stop ∧ (stepBin f rec [a, b] st).kids = [(rec a).p, b] := by
  simp [bin_step, h]

theorem ends_with_second (f : Val → Val → Out) (rec : Rec) (a b : Pat) (st : St) (x : Val)
    (ha : (rec a).out = .val x) (hb : (rec b).out = .stop) :
    (stepBin f rec [a, b] st).out = .stop ∧ (stepBin f rec [a, b] st).kids = [(rec a).p, (rec b).p] := by
  simp [bin_step, ha, hb]

/-- An exception raised by an operand propagates unchanged. -/
theorem operand_error_propagates (f : Val → Val → Out) (rec : Rec) (a b : Pat) (st : St) (e : Err)
    (h : (rec a).out = .err e) : (stepBin f rec [a, b] st).out = .err e := by
  simp [bin_step, h]

/-- **A rest in either operand gives a rest**, for every arithmetic / comparison operator. -/
theorem none_propagates (op : BinOp) (v : Val) :
    binopVal op Val.none v = .val Val.none ∧ binopVal op v Val.none = .val Val.none := by
  constructor
  · simp [binopVal, Val.none]
  · cases v with
    | a x => cases x <;> simp [binopVal, Val.none]
    | tup xs => simp [binopVal, Val.none]

/-- **`&` yields whether both operands' values are truthy** (a rest is falsy; no None propagation). -/
theorem and_truthy (a b : Val) : andVal a b = .val (.a (.bool (a.truthy && b.truthy))) := rfl

/-- The operators are the Python operators on ints (unbounded): closed forms used by the
    correspondence (`//` and `%` floor towards −∞, `/` is true division, comparisons give bools). -/
theorem int_ops (i j : Int) :
    binopVal .add (.int i) (.int j) = .val (.int (i + j)) ∧
    binopVal .sub (.int i) (.int j) = .val (.int (i - j)) ∧
    binopVal .mul (.int i) (.int j) = .val (.int (i * j)) ∧
    (j ≠ 0 → binopVal .floorDiv (.int i) (.int j) = .val (.int (Int.fdiv i j))) ∧
    (j ≠ 0 → binopVal .mod (.int i) (.int j) = .val (.int (Int.fmod i j))) ∧
    binopVal .lt (.int i) (.int j) = .val (.bool (decide (i < j))) ∧
    binopVal .eq (.int i) (.int j) = .val (.bool (i == j)) := by
  simp only [binopVal, Val.int, Val.bool, binopAtom, Atom.toInt?, binopInt, cmpInt]
  refine ⟨trivial, trivial, trivial, ?_, ?_, trivial, trivial⟩ <;> intro h <;> simp [h]

/-- Division by zero raises ZeroDivisionError for `/`, `//` and `%`. -/
theorem zero_division (i : Int) :
    binopVal .div (.int i) (.int 0) = .err .zeroDivision ∧
    binopVal .floorDiv (.int i) (.int 0) = .err .zeroDivision ∧
    binopVal .mod (.int i) (.int 0) = .err .zeroDivision := by
  simp [binopVal, binopAtom, Atom.toInt?, binopInt]

/-- The whole operator node under the real recursive semantics: `next()` of `a <op> b` at any fuel. -/
theorem node_step (fuel : Nat) (a b : Pat) (st : St) :
    (stepF (fuel + 1) (.node .add [a, b] st)).out =
      (match (stepF fuel a).out with
       | .val x => (match (stepF fuel b).out with | .val y => binopVal .add x y | o => o)
       | o => o) := by
  simp only [stepF, clsStep, clsStepCore, bin_step]
  cases (stepF fuel a).out <;> simp
  cases (stepF fuel b).out <;> simp

/-! Non-vacuity -/
section Examples
def sq (xs : List Int) (rep : Int) : Pat := .node .seq (xs.map (fun i => Pat.const (.int i))) { n0 := rep }
-- (1 2 3)×1 − (10 20)×∞ : ends with the shorter operand; subtraction is not commutative
example : outs 10 5 (.node .sub [sq [1, 2, 3] 1, sq [10, 20] (-1)] {}) =
    [.val (.int (-9)), .val (.int (-18)), .val (.int (-7)), .stop, .stop] := by decide
example : outs 10 2 (.node .floorDiv [sq [-7] (-1), sq [2, 0] (-1)] {}) = [.val (.int (-4)), .err .zeroDivision] := by decide
end Examples

end IsobarV.C08
