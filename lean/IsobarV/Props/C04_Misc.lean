/-
C04 — `reset()` rewinds any pattern: reset-correctness of the misc group (`PLSystem`, `PDict`, `PDictKey`, a constant
whose value is a pattern, a tuple containing patterns) and the instantiated theorem for trees that mix them with
the core classes.

`PLSystem.reset()` builds a new `LSystem` and iterates it again (`pos = 0`, `state = 0`, empty stack); `PDict`,
`PDictKey` and `PConstant` keep no state of their own: `Pattern.reset()` resets the patterns they hold — after fix 90
also the patterns inside tuples (`tupP` nodes), which is what makes a tuple an ordinary node of the tree here.
-/
import IsobarV.Props.C04

namespace IsobarV.C04Misc
open IsobarV.Pat IsobarV.C04

/-- `PLSystem`: no sub-patterns; `reset()` overwrites everything a step changes. -/
theorem lsystem_ok : ClsResetOK .lsystem := by
  intro P rec kids st _ hk
  have hc : clsStep .lsystem = stepLsystem := rfl
  have hr : ∀ s, clsReset .lsystem s = { resetLsystem s with cur := 0 } := fun _ => rfl
  rw [hc, hr, hr]
  simp only [stepLsystem]
  split <;> exact ⟨hk, rfl, rfl⟩

/-- Resolving a list of patterns in order keeps them inside `P` and invisible to `reset`. -/
theorem stepAll_ok {P : Pat → Prop} {rec : Rec} (hrec : RecOK P rec) (kids : List Pat) (hk : ∀ k ∈ kids, P k) :
    (∀ k ∈ (stepAll rec kids).kids, P k) ∧ (stepAll rec kids).kids.map reset = kids.map reset := by
  induction kids with
  | nil => exact ⟨by simp [stepAll], rfl⟩
  | cons k ks ih =>
    obtain ⟨h1, h2⟩ := hrec k (hk k (by simp))
    have hks : ∀ x ∈ ks, P x := fun x hx => hk x (by simp [hx])
    obtain ⟨i1, i2⟩ := ih hks
    simp only [stepAll]
    split
    · refine ⟨?_, by simp [h2, i2]⟩
      intro x hx
      simp only [List.mem_cons] at hx
      rcases hx with rfl | hx
      · exact h1
      · exact i1 x hx
    · refine ⟨?_, by simp [h2]⟩
      intro x hx
      simp only [List.mem_cons] at hx
      rcases hx with rfl | hx
      · exact h1
      · exact hks x hx
    · refine ⟨?_, by simp [h2]⟩
      intro x hx
      simp only [List.mem_cons] at hx
      rcases hx with rfl | hx
      · exact h1
      · exact hks x hx

theorem tuple_ok (c : Cls) (hc : clsStep c = stepTuple) : ClsResetOK c := by
  intro P rec kids st hrec hk
  obtain ⟨h1, h2⟩ := stepAll_ok hrec kids hk
  rw [hc]
  simp only [stepTuple]
  split <;> exact ⟨h1, h2, rfl⟩

/-- `PDict` (either constructor form: a live object is always the dict of its value patterns). -/
theorem dict_ok : ClsResetOK .dict := tuple_ok _ rfl
/-- A tuple containing patterns. -/
theorem tupP_ok : ClsResetOK .tupP := tuple_ok _ rfl

theorem dictKey_ok : ClsResetOK .dictKey := by
  intro P rec kids st hrec hk
  have hc : clsStep .dictKey = stepDictKey := rfl
  rw [hc]
  obtain ⟨a1, a2⟩ := stepKid_ok hrec kids 1 hk
  obtain ⟨b1, b2⟩ := stepKid_ok hrec (stepKid rec kids 1).2 0 a1
  obtain ⟨c1, c2⟩ := stepKid_ok hrec kids 0 hk
  simp only [stepDictKey]
  split
  · split
    · split
      · split
        · exact ⟨b1, b2.trans a2, rfl⟩
        · exact ⟨b1, b2.trans a2, rfl⟩
      · exact ⟨b1, b2.trans a2, rfl⟩
    · exact ⟨a1, a2, rfl⟩
  · split
    · split
      · rename_i j _
        obtain ⟨d1, d2⟩ := stepKid_ok hrec (stepKid rec kids 0).2 (j + 1) c1
        exact ⟨d1, d2.trans c2, rfl⟩
      · exact ⟨c1, c2, rfl⟩
    · exact ⟨c1, c2, rfl⟩
    · exact ⟨c1, c2, rfl⟩

/-- `PConstant(<pattern>)`: the constant has no state; `Pattern.reset()` resets the pattern it holds. -/
theorem constP_ok : ClsResetOK .constP := by
  intro P rec kids st hrec hk
  obtain ⟨h1, h2⟩ := stepKid_ok hrec kids 0 hk
  exact ⟨h1, h2, rfl⟩

/-- The classes of this group. -/
def MiscCls (c : Cls) : Prop := c = .lsystem ∨ c = .dict ∨ c = .dictKey ∨ c = .constP ∨ c = .tupP

theorem misc_ok : ∀ c, MiscCls c ∨ CoreCls c → ClsResetOK c := by
  intro c h
  rcases h with h | h
  · unfold MiscCls at h
    rcases h with h | h | h | h | h <;> subst h
    · exact lsystem_ok
    · exact dict_ok
    · exact dictKey_ok
    · exact constP_ok
    · exact tupP_ok
  · exact core_ok c h

/-- **C04 for the misc group**: any tree built from L-systems, dicts (either constructor form), key lookups,
    constants of patterns, tuples containing patterns and the core classes, nested to any depth, is rewound by
    `reset()` after any number of steps — and so is every pattern nested inside it (equality of whole trees). -/
theorem reset_rewinds_misc (fuel k : Nat) (p0 : Pat) (hp : AllCls (fun c => MiscCls c ∨ CoreCls c) p0) (h0 : IsInit p0) :
    reset (after fuel k p0) = p0 :=
  reset_rewinds misc_ok fuel k p0 hp h0

theorem all_rewinds_misc (fuel maximum : Nat) (p0 : Pat) (hp : AllCls (fun c => MiscCls c ∨ CoreCls c) p0) (h0 : IsInit p0)
    (hok : (nextn fuel maximum p0).err = Option.none) : (all fuel maximum p0).p = p0 :=
  all_rewinds misc_ok fuel maximum p0 hp h0 hok

/-! ### The list-of-dicts constructor produces an initial object -/

theorem chunkRows_mem (m : Nat) : ∀ (fuel : Nat) (items : List Pat), ∀ row ∈ chunkRows m fuel items, ∀ x ∈ row, x ∈ items := by
  intro fuel
  induction fuel with
  | zero => intro items row hr; simp [chunkRows] at hr
  | succ f ih =>
    intro items row hr x hx
    cases items with
    | nil => simp [chunkRows] at hr
    | cons y ys =>
      simp only [chunkRows, List.mem_cons] at hr
      rcases hr with rfl | hr
      · exact List.mem_of_mem_take hx
      · exact List.mem_of_mem_drop (ih _ row hr x hx)

theorem dictColumn_mem (rows : List (List Pat)) (j : Nat) : ∀ x ∈ dictColumn rows j, ∃ row ∈ rows, x ∈ row := by
  intro x hx
  simp only [dictColumn, List.mem_filterMap] at hx
  obtain ⟨row, hr, hj⟩ := hx
  exact ⟨row, hr, List.mem_of_getElem? hj⟩

theorem map_reset_id (ks : List Pat) (h : ∀ k ∈ ks, IsInit k) : ks.map reset = ks := by
  induction ks with
  | nil => rfl
  | cons k ks ih =>
    simp only [List.map_cons]
    rw [h k (by simp), ih (fun x hx => h x (by simp [hx]))]

/-- **`PDict([row₀, row₁, …])` of initial items is an initial object** (what `reset()` rewinds to is the object the
    constructor built), in either form. -/
theorem construct_isInit (kids : List Pat) (st : St) (hk : ∀ k ∈ kids, IsInit k) (hcur : st.cur = 0) :
    IsInit (construct (.node .dict kids st)) := by
  unfold IsInit
  simp only [construct]
  split
  · rw [reset_node]
    have h1 : (dictColumns st.buf.length kids).map reset = dictColumns st.buf.length kids := by
      apply map_reset_id
      intro k hk'
      simp only [dictColumns, List.mem_map] at hk'
      obtain ⟨j, _, rfl⟩ := hk'
      unfold IsInit seqOnce
      rw [reset_node, map_reset_id _ (fun x hx => by
        obtain ⟨row, hr, hxr⟩ := dictColumn_mem _ _ x hx
        exact hk x (chunkRows_mem _ _ _ row hr x hxr))]
      rfl
    rw [h1]
    have h2 : clsReset .dict { st with n0 := 0 } = { st with n0 := 0 } := by
      show ({ st with n0 := 0, cur := 0 } : St) = { st with n0 := 0 }
      cases st; simp_all
    rw [h2]
  · rw [reset_node, map_reset_id _ hk]
    have h2 : clsReset .dict st = st := by
      show ({ st with cur := 0 } : St) = st
      cases st; simp_all
    rw [h2]

/-! Non-vacuity: an L-system inside a dict built from a list of dicts, below a key lookup; a tuple containing a
    pattern inside a sequence; consumed past exhaustion, then reset. -/
section Example
def c (i : Int) : Pat := Pat.const (.int i)
def lsys : Pat := .node .lsystem [] { v0 := .str "N[+N]-N", n0 := 2, n1 := 0 }
def rows : Pat := construct (.node .dict [c 1, lsys, c 2, c 5] { n0 := 1, buf := [.str "a", .str "b"] })
def ex : Pat := .node .dictKey [Pat.const (.str "b"), rows] { n0 := 0, buf := [.str "a", .str "b"] }
def ex2 : Pat := .node .seq [.node .tupP [.node .constP [.node .seq [c 7, c 8] { n0 := 1 }] {}, c 5] {}] { n0 := 3 }
example : IsInit ex := by unfold IsInit; rfl
example : IsInit ex2 := by unfold IsInit; rfl
example : outs 10 4 ex = [.val (.int 0), .val (.int 5), .stop, .stop] := by decide
example : reset (after 10 4 ex) = ex := by rfl
example : outs 10 4 ex2 = [.val (.tup [.int 7, .int 5]), .val (.tup [.int 8, .int 5]), .stop, .stop] ∧
    outs 10 2 (reset (after 10 4 ex2)) = [.val (.tup [.int 7, .int 5]), .val (.tup [.int 8, .int 5])] := by decide
example : outs 10 3 (after 10 3 lsys) = [.val (.int 0), .val (.int 1), .val (.int (-1))] ∧
    outs 10 2 (reset (after 10 3 lsys)) = [.val (.int 0), .val (.int 1)] := by decide
end Example

end IsobarV.C04Misc
