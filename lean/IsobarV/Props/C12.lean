/-
C12 — pattern-valued parameters are resolved afresh at every step.

In the model a plain scalar `x` and `PConstant(x)` are the same node (`Pat.const x`), so "passing the
scalar or a constant pattern of it is indistinguishable" holds by construction on the model side and is
decided on the real objects by the harness.  Theorems here: a reference is transparent; parameters of
the core classes are consumed exactly once per step, in order.  Per-class consumption lemmas for the
other classes live in `IsobarV/Props/C12_*.lean`.
-/
import IsobarV.Pat.Lemmas

namespace IsobarV.C12
open IsobarV.Pat

/-- **A reference is transparent**: `next(PRef(p))` is `next(p)`, and the reference then points to
    the advanced `p` — under any semantics of `p`, at every step. -/
theorem ref_transparent (rec : Rec) (p : Pat) (st : St) :
    (stepRef rec [p] st).out = (rec p).out ∧ (stepRef rec [p] st).kids = [(rec p).p] := by
  simp [stepRef, stepKid]

theorem ref_outs (rec : Rec) (n : Nat) (p : Pat) (st : St) :
    clsOuts stepRef rec n [p] st = recOuts rec n p := by
  induction n generalizing p with
  | zero => rfl
  | succ n ih =>
    obtain ⟨h1, h2⟩ := ref_transparent rec p st
    simp only [clsOuts, recOuts, h1, h2]
    have : (stepRef rec [p] st).st = st := rfl
    rw [this, ih]

/-- **Re-targeting a reference takes effect from the very next step**: after `set_pattern(q)` the next
    value is `q`'s next value, whatever the old target was or had produced. -/
theorem ref_retarget (rec : Rec) (old q : Pat) (st : St) :
    (stepRef rec ([old].set 0 q) st).out = (rec q).out := by
  simp [stepRef, stepKid]

/-- A constant yields its value for ever and is never advanced (so `P(x)` and `P(PConstant(x))`
    cannot differ by consumption). -/
theorem const_constant (rec : Rec) (v : Val) (n : Nat) :
    clsOuts stepConst rec n [] { v0 := v } = List.replicate n (.val v) := by
  induction n with
  | zero => rfl
  | succ n ih => simp only [clsOuts, List.replicate_succ]; rw [← ih]; rfl

/-- **Operands of an operator are consumed exactly once per output step, `a` before `b`**: after a
    step that produced a value, each operand is exactly one `rec`-step further. -/
theorem bin_consumes_once (f : Val → Val → Out) (rec : Rec) (a b : Pat) (st : St) (x y : Val)
    (ha : (rec a).out = .val x) (hb : (rec b).out = .val y) :
    (stepBin f rec [a, b] st).kids = [(rec a).p, (rec b).p] := by
  simp [stepBin, stepKid, ha, hb]

/-- **`PArrayIndex.index` is resolved once per step** (and a rest index yields a rest without touching
    the list). -/
theorem arrayIndex_index_once (rec : Rec) (idx : Pat) (items : List Pat) (st : St) :
    ∃ rest, (stepArrayIndex rec (idx :: items) st).kids = (rec idx).p :: rest ∧ rest.length = items.length := by
  simp only [stepArrayIndex, stepKid, List.getElem?_cons_zero, List.set_cons_zero]
  split
  · exact ⟨items, rfl, rfl⟩
  · split
    · split
      · rename_i j _
        cases hj : ((rec idx).p :: items)[j + 1]? with
        | none => exact ⟨items, by simp, rfl⟩
        | some k => exact ⟨items.set j (rec k).p, by simp [List.set], by simp⟩
      · exact ⟨items, rfl, rfl⟩
    · exact ⟨items, rfl, rfl⟩
    · exact ⟨items, rfl, rfl⟩
  · exact ⟨items, rfl, rfl⟩

/-- `PSequence` items that are themselves patterns are resolved (one value per visit), in order. -/
theorem seq_item_resolved (rec : Rec) (kids : List Pat) (st : St) (k : Pat)
    (hg : ¬ (kids.length = 0 ∨ (0 ≤ st.n0 ∧ st.n0 ≤ st.n2))) (hk : kids[st.n1.toNat]? = some k) :
    (stepSeq rec kids st).out = (rec k).out ∧ (stepSeq rec kids st).kids = kids.set st.n1.toNat (rec k).p := by
  simp only [stepSeq, hg, if_false, stepKid, hk]
  cases (rec k).out <;> simp <;> split <;> simp

end IsobarV.C12
