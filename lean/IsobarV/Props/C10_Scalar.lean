/-
C10 — reference definitions of the deterministic classes of `scalar.py`, `PDegree`, `PMidiNoteToFrequency`,
`PTri`, `PSaw`.

Every theorem is stated for an ARBITRARY semantics `rec` of the sub-patterns (so it holds on nested
combinations), all `n`, and relates the outcomes of the class's step function from its initial state
(`clsOuts stepX rec n kids st`) to a list function of the outcomes of its attributes (`recOuts rec n kid`).

* `PChanged` / `PDiff`: full outcome-level theorem (`delta_reference_outcomes`: any source, finite or not,
  raising or not), value-level corollaries (`changed_reference`, `diff_reference`) and
  "one value shorter than the input" (`delta_ends`).
* the other classes resolve their attributes row by row: `X_reference` = the outcomes are the class's
  documented function applied to the rows of attribute values, plus lemmas that characterise that function
  (`wrapVal_spec`, `roundHalfEven_spec`, `indexOfAtoms_spec`, `normRef`, closed forms for the oscillators…).
  Real powers (`PScaleLinExp`, `PMidiNoteToFrequency`) enter through an uninterpreted function `pw`.
-/
import IsobarV.Pat.Cls.ScalarLemmas
import Mathlib.Data.Rat.Floor
import Mathlib.Tactic.Linarith
import Mathlib.Tactic.Positivity

namespace IsobarV.C10
open IsobarV.Pat

theorem recOuts_length (rec : Rec) (n : Nat) (p : Pat) : (recOuts rec n p).length = n := by
  induction n generalizing p with
  | zero => rfl
  | succ n ih => simp [recOuts, ih]

/-! ### PChanged / PDiff -/

/-- Reference on outcomes: the first value of the source is held back as `current`; afterwards every value
    `x` yields `g current x` and becomes `current` (unless `g` raised); StopIteration / exceptions of the source
    pass through. -/
def deltaRef (g : Val → Val → Out) : Option Val → List Out → List Out
  | _, [] => []
  | cur, o :: os =>
    match cur, o with
    | Option.none, .val c => deltaRef g (some c) os
    | some c, .val x => g c x :: deltaRef g (some (keepOnErr (g c x) c x)) os
    | cur, o => o :: deltaRef g cur os

theorem deltaRef_some_length (g : Val → Val → Out) (c : Val) (os : List Out) :
    (deltaRef g (some c) os).length = os.length := by
  induction os generalizing c with
  | nil => rfl
  | cons o os ih => cases o <;> simp [deltaRef, ih]

/-- Once `current` is loaded. -/
theorem delta_primed (g : Val → Val → Out) (rec : Rec) (n : Nat) (a : Pat) (st : St) (h : st.n0 ≠ 0) :
    clsOuts (stepDelta g) rec n [a] st = deltaRef g (some st.v0) (recOuts rec n a) := by
  induction n generalizing a st with
  | zero => rfl
  | succ n ih =>
    cases ho : (rec a).out with
    | val x =>
      have hs : stepDelta g rec [a] st =
          { out := g st.v0 x, kids := [(rec a).p], st := { st with v0 := keepOnErr (g st.v0 x) st.v0 x } } := by
        simp [stepDelta, h, stepKid, ho]
      simp only [clsOuts, recOuts, hs, ho, deltaRef]
      rw [ih _ _ (by simpa using h)]
    | stop =>
      have hs : stepDelta g rec [a] st = { out := .stop, kids := [(rec a).p], st := st } := by
        simp [stepDelta, h, stepKid, ho]
      simp only [clsOuts, recOuts, hs, ho, deltaRef]
      rw [ih _ _ h]
    | err e =>
      have hs : stepDelta g rec [a] st = { out := .err e, kids := [(rec a).p], st := st } := by
        simp [stepDelta, h, stepKid, ho]
      simp only [clsOuts, recOuts, hs, ho, deltaRef]
      rw [ih _ _ h]

/-- **`PChanged` / `PDiff`, any source** (finite or infinite, raising or not): from the initial state the first
    `n` outcomes are the first `n` entries of `deltaRef` applied to the first `n + 1` outcomes of the source. -/
theorem delta_reference_outcomes (g : Val → Val → Out) (rec : Rec) (n : Nat) (a : Pat) (st : St) (h : st.n0 = 0) :
    clsOuts (stepDelta g) rec n [a] st = (deltaRef g Option.none (recOuts rec (n + 1) a)).take n := by
  induction n generalizing a st with
  | zero => rfl
  | succ n ih =>
    cases ho : (rec a).out with
    | val c =>
      cases ho2 : (rec (rec a).p).out with
      | val x =>
        have hs : stepDelta g rec [a] st =
            { out := g c x, kids := [(rec (rec a).p).p], st := { st with n0 := 1, v0 := keepOnErr (g c x) c x } } := by
          simp [stepDelta, h, stepKid, ho, ho2]
        simp only [clsOuts, recOuts, hs, ho, ho2, deltaRef, List.take_succ_cons]
        rw [delta_primed g rec n _ _ (by simp)]
        simp only []
        rw [List.take_of_length_le (by rw [deltaRef_some_length, recOuts_length])]
      | stop =>
        have hs : stepDelta g rec [a] st =
            { out := .stop, kids := [(rec (rec a).p).p], st := { st with n0 := 1, v0 := c } } := by
          simp [stepDelta, h, stepKid, ho, ho2]
        simp only [clsOuts, recOuts, hs, ho, ho2, deltaRef, List.take_succ_cons]
        rw [delta_primed g rec n _ _ (by simp)]
        simp only []
        rw [List.take_of_length_le (by rw [deltaRef_some_length, recOuts_length])]
      | err e =>
        have hs : stepDelta g rec [a] st =
            { out := .err e, kids := [(rec (rec a).p).p], st := { st with n0 := 1, v0 := c } } := by
          simp [stepDelta, h, stepKid, ho, ho2]
        simp only [clsOuts, recOuts, hs, ho, ho2, deltaRef, List.take_succ_cons]
        rw [delta_primed g rec n _ _ (by simp)]
        simp only []
        rw [List.take_of_length_le (by rw [deltaRef_some_length, recOuts_length])]
    | stop =>
      have hs : stepDelta g rec [a] st = { out := .stop, kids := [(rec a).p], st := st } := by
        simp [stepDelta, h, stepKid, ho]
      have := ih (rec a).p st h
      simp only [recOuts] at this
      simp only [clsOuts, recOuts, hs, ho, deltaRef, List.take_succ_cons, this]
    | err e =>
      have hs : stepDelta g rec [a] st = { out := .err e, kids := [(rec a).p], st := st } := by
        simp [stepDelta, h, stepKid, ho]
      have := ih (rec a).p st h
      simp only [recOuts] at this
      simp only [clsOuts, recOuts, hs, ho, deltaRef, List.take_succ_cons, this]

/-- Reference on values: `current` threaded through the values after the first. -/
def deltaVals (g : Val → Val → Out) : Val → List Val → List Out
  | _, [] => []
  | c, x :: xs => g c x :: deltaVals g (keepOnErr (g c x) c x) xs

theorem deltaVals_length (g : Val → Val → Out) (c : Val) (xs : List Val) : (deltaVals g c xs).length = xs.length := by
  induction xs generalizing c with
  | nil => rfl
  | cons x xs ih => simp [deltaVals, ih]

theorem deltaRef_vals (g : Val → Val → Out) (c : Val) (xs : List Val) (tail : List Out)
    (ht : ∀ c', deltaRef g (some c') tail = tail) :
    deltaRef g (some c) (xs.map .val ++ tail) = deltaVals g c xs ++ tail := by
  induction xs generalizing c with
  | nil => simpa [deltaVals] using ht c
  | cons x xs ih => simp [deltaRef, deltaVals, ih]

/-- **Value level**: if the source yields `x0, x1, …, xn`, the pattern yields `g x0 x1, g x1 x2, …` (`n` values). -/
theorem delta_reference (g : Val → Val → Out) (rec : Rec) (n : Nat) (a : Pat) (st : St) (h : st.n0 = 0)
    (x0 : Val) (xs : List Val) (ha : recOuts rec (n + 1) a = (x0 :: xs).map .val) :
    clsOuts (stepDelta g) rec n [a] st = deltaVals g x0 xs := by
  have hl : xs.length = n := by
    have := congrArg List.length ha
    simp [recOuts_length] at this
    omega
  rw [delta_reference_outcomes g rec n a st h, ha]
  simp only [List.map_cons, deltaRef]
  have := deltaRef_vals g x0 xs [] (fun _ => rfl)
  simp only [List.append_nil] at this
  rw [this, List.take_of_length_le (by rw [deltaVals_length, hl])]

/-- **"The length of the output pattern is always 1 less than the length of the input"**: a source of
    `m + 1` values followed by StopIteration gives `m` values followed by StopIteration. -/
theorem delta_ends (g : Val → Val → Out) (rec : Rec) (a : Pat) (st : St) (h : st.n0 = 0)
    (x0 : Val) (xs : List Val) (ha : recOuts rec (xs.length + 2) a = (x0 :: xs).map .val ++ [.stop]) :
    clsOuts (stepDelta g) rec (xs.length + 1) [a] st = deltaVals g x0 xs ++ [.stop] := by
  rw [delta_reference_outcomes g rec _ a st h, ha]
  simp only [List.map_cons, List.cons_append, deltaRef]
  rw [deltaRef_vals g x0 xs [.stop] (fun _ => rfl), List.take_of_length_le (by simp [deltaVals_length])]

theorem deltaVals_zipWith (g : Val → Val → Out) (c : Val) (xs : List Val)
    (hne : ∀ o ∈ List.zipWith g (c :: xs) xs, ∀ e, o ≠ .err e) :
    deltaVals g c xs = List.zipWith g (c :: xs) xs := by
  induction xs generalizing c with
  | nil => rfl
  | cons x xs ih =>
    have h1 : ∀ e, g c x ≠ .err e := hne (g c x) (by simp)
    have hk : keepOnErr (g c x) c x = x := by
      unfold keepOnErr
      split
      · rename_i e he; exact absurd he (h1 e)
      · rfl
    simp only [deltaVals, hk, List.zipWith_cons_cons]
    rw [ih x (fun o ho e => hne o (by simp [ho]) e)]

/-- **`PChanged`**: `1` where consecutive source values differ (Python `==`), `0` where they are equal. -/
theorem changed_reference (rec : Rec) (n : Nat) (a : Pat) (st : St) (h : st.n0 = 0)
    (x0 : Val) (xs : List Val) (ha : recOuts rec (n + 1) a = (x0 :: xs).map .val) :
    clsOuts (stepDelta changedVal) rec n [a] st =
      List.zipWith (fun c x => .val (.int (if valEq x c then 0 else 1))) (x0 :: xs) xs := by
  rw [delta_reference changedVal rec n a st h x0 xs ha, deltaVals_zipWith]
  · rfl
  · intro o ho e
    obtain ⟨i, _, rfl⟩ := List.getElem_of_mem ho
    simp [changedVal]

/-- **`PDiff`**: the difference of consecutive source values, a rest if either is a rest (as long as no
    subtraction raises, i.e. the values are numbers or rests). -/
theorem diff_reference (rec : Rec) (n : Nat) (a : Pat) (st : St) (h : st.n0 = 0)
    (x0 : Val) (xs : List Val) (ha : recOuts rec (n + 1) a = (x0 :: xs).map .val)
    (hne : ∀ o ∈ List.zipWith (fun c x => binopVal .sub x c) (x0 :: xs) xs, ∀ e, o ≠ .err e) :
    clsOuts (stepDelta diffVal) rec n [a] st = List.zipWith (fun c x => binopVal .sub x c) (x0 :: xs) xs := by
  rw [delta_reference diffVal rec n a st h x0 xs ha, deltaVals_zipWith diffVal x0 xs hne]
  rfl

example : clsOuts (stepDelta changedVal) (stepF 5) 5
    [.node .seq [Pat.const (.int 1), Pat.const (.int 1), Pat.const (.flt 2), Pat.const (.int 2), Pat.const Val.none] { n0 := 1 }] {} =
    [.val (.int 0), .val (.int 1), .val (.int 0), .val (.int 1), .stop] := by decide +kernel
example : clsOuts (stepDelta diffVal) (stepF 5) 4
    [.node .seq [Pat.const (.int 4), Pat.const (.int 5), Pat.const Val.none, Pat.const (.int 1)] { n0 := 1 }] {} =
    [.val (.int 1), .val Val.none, .val Val.none, .stop] := by decide +kernel

/-! ### Row-wise classes: general facts -/

/-- A computation that never changes the own state is applied row by row. -/
theorem runF_const_st (f : St → List Val → FRes) (hf : ∀ st r, (f st r).st = st) (st : St) (rows : List (List Val)) :
    runF f st rows = rows.map (fun r => (f st r).out) := by
  induction rows with
  | nil => rfl
  | cons r rs ih => simp [runF, hf, ih]

/-! ### PSkipIf -/

/-- **`PSkipIf`**: the input value, or a rest where `skip` is true (Python truthiness). -/
theorem skipIf_reference (rec : Rec) (n : Nat) (a s : Pat) (st : St) (xs ss : List Val)
    (ha : recOuts rec n a = xs.map .val) (hs : recOuts rec n s = ss.map .val) :
    clsOuts stepSkipIf rec n [a, s] st = List.zipWith (fun x k => .val (if k.truthy then Val.none else x)) xs ss := by
  unfold stepSkipIf
  rw [poll2_reference _ rfl _ rec n a s st xs ss ha hs, runF_pure1, List.map_zipWith]
  rfl

example : clsOuts stepSkipIf (stepF 5) 4
    [.node .seq [Pat.const (.int 1), Pat.const (.int 2)] { n0 := -1 },
     .node .seq [Pat.const (.int 0), Pat.const (.bool true), Pat.const Val.none] { n0 := -1 }] {} =
    [.val (.int 1), .val Val.none, .val (.int 1), .val (.int 2)] := by decide +kernel

/-! ### PNormalise -/

/-- Smallest / largest element of a non-empty history. -/
def minL : List Rat → Rat
  | [] => 0
  | y :: ys => ys.foldl ratMin y
def maxL : List Rat → Rat
  | [] => 0
  | y :: ys => ys.foldl ratMax y

/-- Reference: a rest stays a rest; a number is normalised into the range spanned by all numbers seen so far,
    itself included (`0.0` while that range is a single point). -/
def normRef : List Rat → List Val → List Out
  | _, [] => []
  | seen, .a .none :: xs => .val Val.none :: normRef seen xs
  | seen, .a x :: xs =>
    match x.toNum with
    | some v => .val (.flt (normOf (minL (seen ++ [v.r])) (maxL (seen ++ [v.r])) v.r)) :: normRef (seen ++ [v.r]) xs
    | Option.none => .err .typeError :: normRef seen xs
  | seen, .tup _ :: xs => .err .typeError :: normRef seen xs

theorem minL_snoc (seen : List Rat) (hs : seen ≠ []) (v : Rat) : minL (seen ++ [v]) = ratMin (minL seen) v := by
  cases seen with
  | nil => exact absurd rfl hs
  | cons y ys => simp [minL, List.foldl_append]

theorem maxL_snoc (seen : List Rat) (hs : seen ≠ []) (v : Rat) : maxL (seen ++ [v]) = ratMax (maxL seen) v := by
  cases seen with
  | nil => exact absurd rfl hs
  | cons y ys => simp [maxL, List.foldl_append]

/-- The own state mirrors the history. -/
def NormInv (st : St) (seen : List Rat) : Prop :=
  (seen = [] ∧ st.n0 = 0) ∨ (seen ≠ [] ∧ st.n0 ≠ 0 ∧ st.v0 = .flt (minL seen) ∧ st.v1 = .flt (maxL seen))

theorem normF_run (st : St) (seen : List Rat) (xs : List Val) (hinv : NormInv st seen) :
    runF normF st (xs.map (fun x => [x])) = normRef seen xs := by
  induction xs generalizing st seen with
  | nil => rfl
  | cons x xs ih =>
    simp only [List.map_cons, runF]
    cases x with
    | tup t => simp only [normF, normRef]; rw [ih _ _ hinv]
    | a x =>
      by_cases hx : x = .none
      · subst hx; simp only [normF, normRef]; rw [ih _ _ hinv]
      · cases hnum : x.toNum with
        | none =>
          have e1 : normF st [.a x] = { out := .err .typeError, st := st } := by
            cases x <;> simp_all [normF, Atom.toNum]
          have e2 : normRef seen (.a x :: xs) = .err .typeError :: normRef seen xs := by
            cases x <;> simp_all [normRef, Atom.toNum]
          rw [e1, e2, ih _ _ hinv]
        | some v =>
          have e2 : normRef seen (.a x :: xs) =
              .val (.flt (normOf (minL (seen ++ [v.r])) (maxL (seen ++ [v.r])) v.r)) :: normRef (seen ++ [v.r]) xs := by
            cases x <;> simp_all [normRef, Atom.toNum]
          rcases hinv with ⟨hs, h0⟩ | ⟨hs, h0, hv0, hv1⟩
          · subst hs
            have e1 : normF st [.a x] =
                { out := .val (.flt 0), st := { st with n0 := 1, v0 := .flt v.r, v1 := .flt v.r } } := by
              cases x <;> simp_all [normF, Atom.toNum]
            rw [e1, e2]
            simp only [List.nil_append, minL, maxL, List.foldl_nil, normOf, if_true]
            rw [ih _ [v.r] (Or.inr ⟨by simp, by simp, by simp [minL], by simp [maxL]⟩)]
          · have e1 : normF st [.a x] =
                { out := .val (.flt (normOf (ratMin (minL seen) v.r) (ratMax (maxL seen) v.r) v.r)),
                  st := { st with v0 := .flt (ratMin (minL seen) v.r), v1 := .flt (ratMax (maxL seen) v.r) } } := by
              cases x <;> simp_all [normF, Atom.toNum]
            rw [e1, e2, minL_snoc seen hs, maxL_snoc seen hs]
            rw [ih _ (seen ++ [v.r]) (Or.inr ⟨by simp, by simpa using h0, by simp [minL_snoc seen hs], by simp [maxL_snoc seen hs]⟩)]

/-- **`PNormalise`** (after fixes 01, 02): running normalisation into `[0, 1]` over the history of the input. -/
theorem normalise_reference (rec : Rec) (n : Nat) (a : Pat) (st : St) (h0 : st.n0 = 0) (xs : List Val)
    (ha : recOuts rec n a = xs.map .val) :
    clsOuts stepNormalise rec n [a] st = normRef [] xs := by
  unfold stepNormalise
  rw [poll1_reference _ rfl _ rec n a st xs ha, normF_run st [] xs (Or.inl ⟨rfl, h0⟩)]

/-- The normalised value lies in `[0, 1]` whenever the value lies within the bounds. -/
theorem normOf_unit (lo hi v : Rat) (h1 : lo ≤ v) (h2 : v ≤ hi) : 0 ≤ normOf lo hi v ∧ normOf lo hi v ≤ 1 := by
  unfold normOf
  split
  · exact ⟨le_refl 0, by norm_num⟩
  · rename_i hne
    have hpos : 0 < hi - lo := by
      have : lo ≤ hi := le_trans h1 h2
      rcases lt_or_eq_of_le this with h | h
      · linarith
      · exact absurd h.symm hne
    constructor
    · exact div_nonneg (by linarith) (le_of_lt hpos)
    · rw [div_le_one hpos]; linarith

theorem ratMin_le_left (a b : Rat) : ratMin a b ≤ a := by unfold ratMin; split <;> [exact le_of_lt ‹_›; exact le_refl a]
theorem ratMin_le_right (a b : Rat) : ratMin a b ≤ b := by unfold ratMin; split <;> [exact le_refl b; exact not_lt.mp ‹_›]
theorem le_ratMax_left (a b : Rat) : a ≤ ratMax a b := by unfold ratMax; split <;> [exact le_of_lt ‹_›; exact le_refl a]
theorem le_ratMax_right (a b : Rat) : b ≤ ratMax a b := by unfold ratMax; split <;> [exact le_refl b; exact not_lt.mp ‹_›]

/-- The newest value always lies within the bounds of the history that includes it, so every number that
    `normRef` yields lies in `[0, 1]`. -/
theorem last_within_bounds (seen : List Rat) (v : Rat) : minL (seen ++ [v]) ≤ v ∧ v ≤ maxL (seen ++ [v]) := by
  by_cases hs : seen = []
  · subst hs; simp [minL, maxL]
  · rw [minL_snoc seen hs, maxL_snoc seen hs]
    exact ⟨ratMin_le_right _ _, le_ratMax_right _ _⟩

theorem normRef_step_unit (seen : List Rat) (v : Rat) :
    0 ≤ normOf (minL (seen ++ [v])) (maxL (seen ++ [v])) v ∧ normOf (minL (seen ++ [v])) (maxL (seen ++ [v])) v ≤ 1 :=
  normOf_unit _ _ _ (last_within_bounds seen v).1 (last_within_bounds seen v).2

example : clsOuts stepNormalise (stepF 5) 5
    [.node .seq [Pat.const (.int 3), Pat.const (.int 1), Pat.const Val.none, Pat.const (.int 5), Pat.const (.int 2)] { n0 := 1 }] {} =
    [.val (.flt 0), .val (.flt 0), .val Val.none, .val (.flt 1), .val (.flt (1/4))] := by decide +kernel

/-! ### PMap / PMapEnumerated -/

theorem mapF_st (st : St) (r : List Val) : (mapF st r).st = st := by
  unfold mapF; split <;> rfl

/-- **`PMap(input, f, arg)`**: `f(x_j, a_j)` for the `j`-th input value and the `j`-th argument value. -/
theorem map_reference1 (rec : Rec) (n : Nat) (a p : Pat) (st : St) (xs ps : List Val)
    (ha : recOuts rec n a = xs.map .val) (hp : recOuts rec n p = ps.map .val) :
    clsOuts stepMap rec n [a, p] st = List.zipWith (fun x y => mapFn st.n0 x [y]) xs ps := by
  unfold stepMap
  rw [poll2r_reference _ rfl _ rec n a p st xs ps ha hp, runF_const_st _ mapF_st, List.map_zipWith]
  rfl

/-- **`PMap(input, f, arg1, arg2)`** (positional or keyword arguments). -/
theorem map_reference2 (rec : Rec) (n : Nat) (a p q : Pat) (st : St) (xs ps qs : List Val)
    (ha : recOuts rec n a = xs.map .val) (hp : recOuts rec n p = ps.map .val) (hq : recOuts rec n q = qs.map .val) :
    clsOuts stepMap rec n [a, p, q] st = (rows3 ps qs xs).map (fun r => (mapF st r).out) := by
  unfold stepMap
  rw [poll3r_reference _ rfl _ rec n a p q st xs ps qs ha hp hq, runF_const_st _ mapF_st]

/-- A row `[arg1, arg2, value]` is evaluated as `f(value, arg1, arg2)`. -/
theorem mapF_row3 (st : St) (x y z : Val) : (mapF st [y, z, x]).out = mapFn st.n0 x [y, z] := rfl

example : clsOuts stepMap (stepF 5) 3
    [.node .seq [Pat.const (.int 4), Pat.const (.int 5), Pat.const (.int 1)] { n0 := 1 },
     .node .seq [Pat.const (.int 10), Pat.const (.int 20)] { n0 := -1 }] { n0 := 0 } =
    [.val (.int 14), .val (.int 25), .val (.int 11)] := by decide +kernel

/-- The counter of `PMapEnumerated` counts the values produced so far. -/
theorem enumF_run (st : St) (xs : List Val) :
    runF enumF st (xs.map (fun x => [x])) = xs.mapIdx (fun j x => enumFn st.n0 (.int (st.n1 + (j : Int))) x []) := by
  induction xs generalizing st with
  | nil => rfl
  | cons x xs ih =>
    simp only [List.map_cons, runF, List.mapIdx_cons]
    have e : enumF st [x] = { out := enumFn st.n0 (.int st.n1) x [], st := { st with n1 := st.n1 + 1 } } := rfl
    rw [e, ih]
    have hf : (fun (j : Nat) (y : Val) => enumFn st.n0 (.int (st.n1 + 1 + (j : Int))) y []) =
        (fun (j : Nat) (y : Val) => enumFn st.n0 (.int (st.n1 + ((j + 1 : Nat) : Int))) y []) := by
      funext j y
      have : st.n1 + 1 + (j : Int) = st.n1 + ((j + 1 : Nat) : Int) := by push_cast; omega
      rw [this]
    simp only [Nat.cast_zero, add_zero, hf]

/-- **`PMapEnumerated(input, f)`**: `f(j, x_j)` with `j = 0, 1, 2, …`. -/
theorem mapEnumerated_reference (rec : Rec) (n : Nat) (a : Pat) (st : St) (h1 : st.n1 = 0) (xs : List Val)
    (ha : recOuts rec n a = xs.map .val) :
    clsOuts stepMapEnumerated rec n [a] st = xs.mapIdx (fun j x => enumFn st.n0 (.int (j : Int)) x []) := by
  unfold stepMapEnumerated
  rw [poll1_reference _ rfl _ rec n a st xs ha, enumF_run, h1]
  simp

example : clsOuts stepMapEnumerated (stepF 5) 4
    [.node .seq [Pat.const (.int 1), Pat.const (.int 11), Pat.const (.int 111)] { n0 := -1 }] { n0 := 0 } =
    [.val (.int 0), .val (.int 11), .val (.int 222), .val (.int 3)] := by decide +kernel

/-! ### PScaleLinLin / PScaleLinExp -/

/-- **`PScaleLinLin`**: `scale_lin_lin` applied to the rows `[from_min, from_max, to_min, to_max, value]`. -/
theorem scaleLinLin_reference (rec : Rec) (n : Nat) (a b c d e : Pat) (st : St) (xs bs cs ds es : List Val)
    (ha : recOuts rec n a = xs.map .val) (hb : recOuts rec n b = bs.map .val) (hc : recOuts rec n c = cs.map .val)
    (hd : recOuts rec n d = ds.map .val) (he : recOuts rec n e = es.map .val) :
    clsOuts stepScaleLinLin rec n [a, b, c, d, e] st = (rows5 bs cs ds es xs).map scaleLinLinVal := by
  unfold stepScaleLinLin
  rw [poll5r_reference _ rfl _ rec n a b c d e st xs bs cs ds es ha hb hc hd he, runF_pure1]

/-- On floats the function is the linear map of `[a, b]` onto `[c, d]` (ZeroDivisionError for an empty range). -/
theorem arith_flt (op : BinOp) (x y : Rat) : arith op (Val.a (Atom.flt x)) (Val.a (Atom.flt y)) = binopFlt op x y := rfl

theorem scaleLinLinVal_flt (a b c d x : Rat) :
    scaleLinLinVal [.flt a, .flt b, .flt c, .flt d, .flt x] =
      if b - a = 0 then .err .zeroDivision else .val (.flt ((x - a) / (b - a) * (d - c) + c)) := by
  by_cases h : b - a = 0 <;> simp [scaleLinLinVal, Val.flt, arith_flt, binopFlt, Out.andThen, h]

/-- The linear map sends `a ↦ c` and `b ↦ d`. -/
theorem scaleLinLin_endpoints (a b c d : Rat) (h : b - a ≠ 0) :
    (a - a) / (b - a) * (d - c) + c = c ∧ (b - a) / (b - a) * (d - c) + c = d := by
  constructor
  · simp
  · rw [div_self h]; ring

example : clsOuts stepScaleLinLin (stepF 5) 3
    [.node .seq [Pat.const (.int 4), Pat.const (.int 5), Pat.const (.flt (-3/2))] { n0 := 1 },
     Pat.const (.int 0), Pat.const (.int 10), Pat.const (.int 100), Pat.const (.int 200)] {} =
    [.val (.flt 140), .val (.flt 150), .val (.flt 85)] := by decide +kernel

/-- **`PScaleLinExp`**, for any power function `pw`: `scale_lin_exp` applied to the rows. -/
theorem scaleLinExp_reference (pw : Rat → Rat → Out) (rec : Rec) (n : Nat) (a b c d e : Pat) (st : St)
    (xs bs cs ds es : List Val)
    (ha : recOuts rec n a = xs.map .val) (hb : recOuts rec n b = bs.map .val) (hc : recOuts rec n c = cs.map .val)
    (hd : recOuts rec n d = ds.map .val) (he : recOuts rec n e = es.map .val) :
    clsOuts (stepScaleLinExp pw) rec n [a, b, c, d, e] st = (rows5 bs cs ds es xs).map (scaleLinExpVal pw) := by
  unfold stepScaleLinExp
  rw [poll5r_reference _ rfl _ rec n a b c d e st xs bs cs ds es ha hb hc hd he, runF_pure1]

/-- On floats inside the input range the function is `(d/c)^((x-a)/(b-a)) · c`; below the range it is `c`, above `d`. -/
theorem scaleLinExpVal_flt (pw : Rat → Rat → Out) (a b c d x : Rat) (hc : c ≠ 0) (hab : b - a ≠ 0) :
    scaleLinExpVal pw [.flt a, .flt b, .flt c, .flt d, .flt x] =
      if x < a then .val (.flt c)
      else if b < x then .val (.flt d)
      else (pw (d / c) ((x - a) / (b - a))).andThen (fun p => arith .mul p (.flt c)) := by
  by_cases h1 : x < a
  · simp [scaleLinExpVal, Val.flt, arith_flt, binopFlt, Out.andThen, cmpOp, Val.truthy, Atom.truthy, h1]
  · by_cases h2 : b < x
    · simp [scaleLinExpVal, Val.flt, arith_flt, binopFlt, Out.andThen, cmpOp, Val.truthy, Atom.truthy, h1, h2]
    · simp [scaleLinExpVal, Val.flt, arith_flt, binopFlt, Out.andThen, cmpOp, Val.truthy, Atom.truthy, h1, h2, hc, hab, powVia,
        Atom.toNum]

example : clsOuts (stepScaleLinExp powApprox) (stepF 5) 4
    [.node .seq [Pat.const (.int 0), Pat.const (.int 1), Pat.const (.int 2), Pat.const (.int 9)] { n0 := 1 },
     Pat.const (.int 0), Pat.const (.int 2), Pat.const (.int 10), Pat.const (.int 40)] {} =
    [.val (.flt 10), .val (.flt 20), .val (.flt 40), .val (.int 40)] := by decide +kernel

/-! ### PRound -/

/-- **`PRound`**: `round(x_j, ndigits_j)` row by row (`ndigits = None`: to an integer). -/
theorem round_reference (rec : Rec) (n : Nat) (a d : Pat) (st : St) (xs ds : List Val)
    (ha : recOuts rec n a = xs.map .val) (hd : recOuts rec n d = ds.map .val) :
    clsOuts stepRound rec n [a, d] st = List.zipWith (fun x nd => roundVal [nd, x]) xs ds := by
  unfold stepRound
  rw [poll2r_reference _ rfl _ rec n a d st xs ds ha hd, runF_pure1, List.map_zipWith]

/-- `roundHalfEven q` is a nearest integer, and the even one when `q` is exactly half-way. -/
theorem roundHalfEven_spec (q : Rat) :
    (q - (roundHalfEven q : Rat) ≤ 1 / 2 ∧ (roundHalfEven q : Rat) - q ≤ 1 / 2) ∧
    ((q - (roundHalfEven q : Rat) = 1 / 2 ∨ (roundHalfEven q : Rat) - q = 1 / 2) → roundHalfEven q % 2 = 0) := by
  have h1 := Rat.floor_le q
  have h2 := Rat.lt_floor_add_one q
  push_cast at h2
  unfold roundHalfEven
  split
  · rename_i h
    refine ⟨⟨by linarith, by linarith⟩, ?_⟩
    rintro (h' | h') <;> linarith
  · rename_i h
    split
    · rename_i h'
      push_cast
      refine ⟨⟨by linarith, by linarith⟩, ?_⟩
      rintro (h'' | h'') <;> linarith
    · rename_i h'
      have heq : q - (q.floor : Rat) = 1 / 2 := le_antisymm (not_lt.mp h') (not_lt.mp h)
      split
      · rename_i he
        exact ⟨⟨by linarith, by linarith⟩, fun _ => he⟩
      · rename_i he
        push_cast
        exact ⟨⟨by linarith, by linarith⟩, fun _ => by omega⟩

theorem roundVal_flt_none (q : Rat) : roundVal [Val.none, .flt q] = .val (.int (roundHalfEven q)) := rfl
theorem roundVal_rest (nd : Val) : roundVal [nd, Val.none] = .val Val.none := rfl
theorem roundVal_flt_digits (q : Rat) (k : Int) : roundVal [.int k, .flt q] = .val (.flt (roundTo q k)) := rfl

example : clsOuts stepRound (stepF 5) 6
    [.node .seq [Pat.const (.flt (1/2)), Pat.const (.flt (3/2)), Pat.const (.flt (5/2)), Pat.const Val.none,
                 Pat.const (.flt (-39/10)), Pat.const (.int 7)] { n0 := 1 }, Pat.const Val.none] {} =
    [.val (.int 0), .val (.int 2), .val (.int 2), .val Val.none, .val (.int (-4)), .val (.int 7)] := by decide +kernel
example : clsOuts stepRound (stepF 5) 3
    [.node .seq [Pat.const (.int 42), Pat.const (.int 59), Pat.const (.flt (-71/10))] { n0 := 1 }, Pat.const (.int (-1))] {} =
    [.val (.int 40), .val (.int 60), .val (.flt (-10))] := by decide +kernel

/-! ### PScalar -/

/-- **`PScalar`**: the reduction `scalarVal` row by row. -/
theorem scalar_reference (rec : Rec) (n : Nat) (a m : Pat) (st : St) (xs ms : List Val)
    (ha : recOuts rec n a = xs.map .val) (hm : recOuts rec n m = ms.map .val) :
    clsOuts stepScalar rec n [a, m] st = List.zipWith (fun x method => scalarVal [method, x]) xs ms := by
  unfold stepScalar
  rw [poll2r_reference _ rfl _ rec n a m st xs ms ha hm, runF_pure1, List.map_zipWith]

theorem scalarVal_empty (m : Val) : scalarVal [m, .tup []] = .val Val.none := rfl
theorem scalarVal_first (x : Atom) (xs : List Atom) : scalarVal [Val.str "first", .tup (x :: xs)] = .val (.a x) := by
  simp [scalarVal, Val.str]
theorem scalarVal_mean (x : Atom) (xs : List Atom) (s : Num) (h : sumAtoms (x :: xs) = some s) :
    scalarVal [Val.str "mean", .tup (x :: xs)] = .val (.flt (s.r / ((xs.length + 1 : Nat) : Rat))) := by
  simp [scalarVal, h]
theorem scalarVal_number (m : Val) (i : Int) : scalarVal [m, .int i] = .val (.int i) := rfl

example : clsOuts stepScalar (stepF 5) 5
    [.node .seq [Pat.const (.int 1), Pat.const (.tup [.int 2, .int 3]), Pat.const (.tup [.int 4, .int 5, .int 6]),
                 Pat.const (.tup []), Pat.const (.int 7)] { n0 := 1 }, Pat.const (.str "mean")] {} =
    [.val (.int 1), .val (.flt (5/2)), .val (.flt 5), .val Val.none, .val (.int 7)] := by decide +kernel

/-! ### PWrap -/

/-- **`PWrap`** (after fixes 04–06): `wrapVal` applied to the rows `[value, min, max]`. -/
theorem wrap_reference (rec : Rec) (n : Nat) (a mn mx : Pat) (st : St) (xs los his : List Val)
    (ha : recOuts rec n a = xs.map .val) (hl : recOuts rec n mn = los.map .val) (hh : recOuts rec n mx = his.map .val) :
    clsOuts stepWrap rec n [a, mn, mx] st = (rows3 xs los his).map wrapVal := by
  unfold stepWrap
  rw [poll3_reference _ rfl _ rec n a mn mx st xs los his ha hl hh, runF_pure1]

theorem wrapRat_bounds (x lo hi : Rat) (h : lo < hi) : lo ≤ wrapRat x lo hi ∧ wrapRat x lo hi < hi := by
  unfold wrapRat
  have hw : 0 < hi - lo := by linarith
  have h1 := Rat.floor_le ((x - lo) / (hi - lo))
  have h2 := Rat.lt_floor_add_one ((x - lo) / (hi - lo))
  push_cast at h2
  have h3 := mul_le_mul_of_nonneg_left h1 (le_of_lt hw)
  have h4 := mul_lt_mul_of_pos_left h2 hw
  have h5 : (hi - lo) * ((x - lo) / (hi - lo)) = x - lo := by field_simp
  rw [h5] at h3 h4
  constructor <;> nlinarith

/-- **Wrap into `[min, max)`**: for `min < max` the result lies in `[min, max)` and differs from the input by a
    whole number of range widths; a rest stays a rest; an empty range raises ValueError. -/
theorem wrapVal_spec (x lo hi : Rat) (h : lo < hi) :
    ∃ r, wrapVal [.flt x, .flt lo, .flt hi] = .val (.flt r) ∧ lo ≤ r ∧ r < hi ∧ ∃ k : Int, r = x - (hi - lo) * (k : Rat) := by
  by_cases hin : lo ≤ x ∧ x < hi
  · refine ⟨x, ?_, hin.1, hin.2, 0, by simp⟩
    simp [wrapVal, Val.flt, Atom.toNum, not_le.mpr h, hin]
  · refine ⟨wrapRat x lo hi, ?_, (wrapRat_bounds x lo hi h).1, (wrapRat_bounds x lo hi h).2, _, rfl⟩
    simp [wrapVal, Val.flt, Atom.toNum, not_le.mpr h, hin, mkNum]

theorem wrapVal_rest (lo hi : Val) : wrapVal [Val.none, lo, hi] = .val Val.none := rfl
theorem wrapVal_empty_range (x lo hi : Rat) (h : hi ≤ lo) : wrapVal [.flt x, .flt lo, .flt hi] = .err .valueError := by
  simp [wrapVal, Val.flt, Atom.toNum, h]

example : clsOuts stepWrap (stepF 5) 6
    [.node .seq [Pat.const (.int 5), Pat.const (.int 8), Pat.const (.int 11), Pat.const (.int (-3)), Pat.const Val.none,
                 Pat.const (.flt (41/2))] { n0 := 1 }, Pat.const (.int 0), Pat.const (.int 10)] {} =
    [.val (.int 5), .val (.int 8), .val (.int 1), .val (.int 7), .val Val.none, .val (.flt (1/2))] := by decide +kernel

/-! ### PIndexOf -/

/-- **`PIndexOf`**: `indexOfVal` applied to the rows `[list, item]`. -/
theorem indexOf_reference (rec : Rec) (n : Nat) (l i : Pat) (st : St) (ls is : List Val)
    (hl : recOuts rec n l = ls.map .val) (hi : recOuts rec n i = is.map .val) :
    clsOuts stepIndexOf rec n [l, i] st = List.zipWith (fun lst item => indexOfVal [lst, item]) ls is := by
  unfold stepIndexOf
  rw [poll2_reference _ rfl _ rec n l i st ls is hl hi, runF_pure1, List.map_zipWith]

/-- `indexOfAtoms` finds the FIRST position holding an equal element, or nothing if there is none. -/
theorem indexOfAtoms_spec (x : Atom) (ys : List Atom) (i : Nat) :
    match indexOfAtoms x ys i with
    | some j => ∃ m y, j = i + m ∧ ys[m]? = some y ∧ atomEq x y = true ∧
        ∀ m' y', m' < m → ys[m']? = some y' → atomEq x y' = false
    | Option.none => ∀ y ∈ ys, atomEq x y = false := by
  induction ys generalizing i with
  | nil => simp [indexOfAtoms]
  | cons y ys ih =>
    simp only [indexOfAtoms]
    by_cases h : atomEq x y = true
    · simp only [h, if_true]
      exact ⟨0, y, rfl, rfl, h, fun m' y' hm _ => absurd hm (Nat.not_lt_zero _)⟩
    · simp only [h]
      have hf : atomEq x y = false := by simpa using h
      have := ih (i + 1)
      split at this
      · rename_i j hj
        obtain ⟨m, y0, e1, e2, e3, e4⟩ := this
        simp only [hj, Bool.false_eq_true, if_false]
        refine ⟨m + 1, y0, by omega, by simpa using e2, e3, ?_⟩
        intro m' y' hm hy
        cases m' with
        | zero => simp at hy; subst hy; exact hf
        | succ m' => exact e4 m' y' (by omega) (by simpa using hy)
      · rename_i hj
        simp only [hj, Bool.false_eq_true, if_false]
        intro y' hy'
        rcases List.mem_cons.mp hy' with rfl | hmem
        · exact hf
        · exact this y' hmem

example : clsOuts stepIndexOf (stepF 5) 5
    [Pat.const (.tup [.int 1, .int 2, .int 3, .int 2]),
     .node .seq [Pat.const (.int 2), Pat.const (.flt 3), Pat.const (.int 7), Pat.const Val.none, Pat.const (.int 1)] { n0 := 1 }] {} =
    [.val (.int 1), .val (.int 2), .val Val.none, .val Val.none, .val (.int 0)] := by decide +kernel

/-! ### PDegree -/

/-- **`PDegree`**: `degreeVal` applied to the rows `[degree, scale]`. -/
theorem degree_reference (rec : Rec) (n : Nat) (d s : Pat) (st : St) (ds ss : List Val)
    (hd : recOuts rec n d = ds.map .val) (hs : recOuts rec n s = ss.map .val) :
    clsOuts stepDegree rec n [d, s] st = List.zipWith (fun deg sc => degreeVal [deg, sc]) ds ss := by
  unfold stepDegree
  rw [poll2_reference _ rfl _ rec n d s st ds ss hd hs, runF_pure1, List.map_zipWith]

/-- An integer degree maps to `Scale.get` (`octave_size · (d div len) + semitones[d mod len]`, floor division:
    negative degrees descend); a rest stays a rest; a chord is mapped element by element. -/
theorem degreeVal_int (name : String) (s : Tonal.Scale) (h : scaleByName name = some s) (i : Int) :
    degreeVal [.int i, .str name] =
      .val (.int (s.octave * Int.fdiv i s.semitones.length + s.semitones.getD (Int.fmod i s.semitones.length).toNat 0)) := by
  simp [degreeVal, Val.int, h, degreeAtom, Tonal.Scale.get, Tonal.pyDiv, Tonal.pyMod, Tonal.Scale.len]

theorem degreeVal_rest (sc : Val) : degreeVal [Val.none, sc] = .val Val.none := rfl

theorem degreeVal_chord (name : String) (s : Tonal.Scale) (h : scaleByName name = some s) (xs ys : List Atom)
    (hx : degreeAtoms s xs = some ys) : degreeVal [.tup xs, .str name] = .val (.tup ys) := by
  simp [degreeVal, h, hx]

example : clsOuts stepDegree (stepF 5) 5
    [.node .seq [Pat.const (.int 0), Pat.const (.int 1), Pat.const (.int (-1)), Pat.const Val.none, Pat.const (.int 7)] { n0 := 1 },
     Pat.const (.str "major")] {} =
    [.val (.int 0), .val (.int 2), .val (.int (-1)), .val Val.none, .val (.int 12)] := by decide +kernel

/-! ### PMidiNoteToFrequency -/

/-- **`PMidiNoteToFrequency`**, for any power function: `440 · 2^((note − 69)/12)` value by value, rests pass. -/
theorem midi_reference (pw : Rat → Rat → Out) (rec : Rec) (n : Nat) (a : Pat) (st : St) (xs : List Val)
    (ha : recOuts rec n a = xs.map .val) :
    clsOuts (stepMidi pw) rec n [a] st = xs.map (fun x => midiVal pw [x]) := by
  unfold stepMidi
  rw [poll1_reference _ rfl _ rec n a st xs ha, runF_pure1, List.map_map]
  rfl

theorem midiVal_int (pw : Rat → Rat → Out) (i : Int) (y : Rat) (h : pw 2 (((i : Rat) - 69) / 12) = .val (.flt y)) :
    midiVal pw [.int i] = .val (.flt (440 * y)) := by
  simp [midiVal, Val.flt, Atom.toNum, h] at h ⊢

theorem midiVal_rest (pw : Rat → Rat → Out) : midiVal pw [Val.none] = .val Val.none := rfl

example : clsOuts (stepMidi powApprox) (stepF 5) 4
    [.node .seq [Pat.const (.int 69), Pat.const (.int 81), Pat.const Val.none, Pat.const (.flt 45)] { n0 := 1 }] {} =
    [.val (.flt 440), .val (.flt 880), .val Val.none, .val (.flt 110)] := by decide +kernel

/-! ### PTri / PSaw -/

/-- **`PTri` / `PSaw`, pattern-valued parameters**: the phase recurrence `oscF` threaded over the rows
    `[length, min, max]` of parameter values. -/
theorem osc_reference (shape : Rat → Rat) (rec : Rec) (n : Nat) (l mn mx : Pat) (st : St) (ls los his : List Val)
    (hl : recOuts rec n l = ls.map .val) (hlo : recOuts rec n mn = los.map .val) (hhi : recOuts rec n mx = his.map .val) :
    clsOuts (stepPoll (fun _ => [0, 1, 2]) (oscF shape)) rec n [l, mn, mx] st = runF (oscF shape) st (rows3 ls los his) :=
  poll3_reference _ rfl _ rec n l mn mx st ls los his hl hlo hhi

theorem tri_reference (rec : Rec) (n : Nat) (l mn mx : Pat) (st : St) (ls los his : List Val)
    (hl : recOuts rec n l = ls.map .val) (hlo : recOuts rec n mn = los.map .val) (hhi : recOuts rec n mx = his.map .val) :
    clsOuts stepTri rec n [l, mn, mx] st = runF (oscF triShape) st (rows3 ls los his) :=
  osc_reference triShape rec n l mn mx st ls los his hl hlo hhi

theorem saw_reference (rec : Rec) (n : Nat) (l mn mx : Pat) (st : St) (ls los his : List Val)
    (hl : recOuts rec n l = ls.map .val) (hlo : recOuts rec n mn = los.map .val) (hhi : recOuts rec n mx = his.map .val) :
    clsOuts stepSaw rec n [l, mn, mx] st = runF (oscF id) st (rows3 ls los his) :=
  osc_reference id rec n l mn mx st ls los his hl hlo hhi

/-- The phase at step `j` for a constant integer `length = L ≥ 1` (observed behaviour of the code: the first
    cycle runs through the phases `0 … L`, every later cycle through `1 … L`). -/
def phaseAt (L j : Nat) : Nat := if j = 0 then 0 else (j - 1) % L + 1

theorem succ_mod (m L : Nat) (hL : 1 ≤ L) : (m + 1) % L = if m % L + 1 = L then 0 else m % L + 1 := by
  have hr : m % L < L := Nat.mod_lt _ (by omega)
  have hm : L * (m / L) + m % L = m := Nat.div_add_mod m L
  split
  · rename_i h
    have : m + 1 = L * (m / L + 1) := by rw [Nat.mul_add, Nat.mul_one]; omega
    rw [this, Nat.mul_mod_right]
  · rename_i h
    have : m + 1 = L * (m / L) + (m % L + 1) := by omega
    rw [this, Nat.mul_add_mod, Nat.mod_eq_of_lt (by omega)]

theorem phaseAt_succ (L j : Nat) (hL : 1 ≤ L) :
    nextPhase ((phaseAt L j : Nat) : Rat) ((L : Nat) : Rat) = ((phaseAt L (j + 1) : Nat) : Rat) := by
  have hL' : (1 : Rat) ≤ (L : Rat) := by exact_mod_cast hL
  cases j with
  | zero =>
    simp only [phaseAt, nextPhase, if_true, Nat.cast_zero, zero_add]
    rw [if_neg (by linarith)]
    simp
  | succ m =>
    have hp : phaseAt L (m + 1) = m % L + 1 := by simp [phaseAt]
    have hp2 : phaseAt L (m + 1 + 1) = (m + 1) % L + 1 := by simp [phaseAt]
    rw [hp, hp2, succ_mod m L hL]
    have hr : m % L < L := Nat.mod_lt _ (by omega)
    unfold nextPhase
    by_cases hc : m % L + 1 = L
    · have hcast : ((L : Nat) : Rat) = ((m % L : Nat) : Rat) + 1 := by
        have := congrArg (fun t : Nat => (t : Rat)) hc
        push_cast at this
        linarith
      rw [if_pos hc, if_pos (by push_cast; rw [hcast]; linarith)]
      push_cast
      rw [hcast]; ring
    · have hlt : m % L + 2 ≤ L := by omega
      have hcast : ((m % L : Nat) : Rat) + 2 ≤ ((L : Nat) : Rat) := by exact_mod_cast hlt
      rw [if_neg hc, if_neg (by push_cast; linarith)]
      push_cast; ring

theorem rows3_replicate (n : Nat) (a b c : Val) :
    rows3 (List.replicate n a) (List.replicate n b) (List.replicate n c) = List.replicate n [a, b, c] := by
  induction n with
  | zero => rfl
  | succ n ih => simp [List.replicate_succ, rows3, ih]

theorem osc_run_const (shape : Rat → Rat) (L : Nat) (hL : 1 ≤ L) (lo hi : Atom) (vlo vhi : Num)
    (hlo : lo.toNum = some vlo) (hhi : hi.toNum = some vhi) (n j0 : Nat) (st : St)
    (hst : st.v0 = .flt ((phaseAt L j0 : Nat) : Rat)) :
    runF (oscF shape) st (List.replicate n [.int (L : Int), .a lo, .a hi]) =
      (List.range n).map (fun j => .val (.flt (vlo.r + (vhi.r - vlo.r) * shape (((phaseAt L (j0 + j) : Nat) : Rat) / ((L : Nat) : Rat))))) := by
  induction n generalizing st j0 with
  | zero => rfl
  | succ n ih =>
    have hL0 : ((L : Nat) : Rat) ≠ 0 := by
      have : (1 : Rat) ≤ (L : Rat) := by exact_mod_cast hL
      intro h; rw [h] at this; norm_num at this
    have e : oscF shape st [.int (L : Int), .a lo, .a hi] =
        { out := .val (.flt (vlo.r + (vhi.r - vlo.r) * shape (((phaseAt L j0 : Nat) : Rat) / ((L : Nat) : Rat)))),
          st := { st with v0 := .flt (nextPhase ((phaseAt L j0 : Nat) : Rat) ((L : Nat) : Rat)) } } := by
      have hLn : (Atom.int (L : Int)).toNum = some { r := ((L : Int) : Rat), isFloat := false } := rfl
      simp [oscF, Val.int, Val.flt, hst, hLn, hlo, hhi, hL0]
    rw [List.replicate_succ, List.range_succ_eq_map]
    simp only [runF, e, List.map_cons, List.map_map, Nat.add_zero]
    rw [ih (j0 + 1) _ (by simp [phaseAt_succ L j0 hL])]
    congr 1
    apply List.map_congr_left
    intro j _
    simp only [Function.comp, Nat.succ_eq_add_one]
    have : j0 + 1 + j = j0 + (j + 1) := by omega
    rw [this]

/-- **`PTri(L, lo, hi)` / `PSaw(L, lo, hi)` with constant integer length `L ≥ 1` and numeric bounds**: step `j`
    yields `lo + (hi − lo) · shape(phase_j / L)` with `phase_0 = 0`, `phase_j = ((j − 1) mod L) + 1`
    (as floats).  For `PTri` the waveform has period `L` from the start (both ends of the first cycle give `lo`) and
    reaches `hi` only when `L` is even; `PSaw` restarts from `lo + (hi − lo)/L`, never from `lo`, after its first cycle. -/
theorem osc_closed_form (shape : Rat → Rat) (rec : Rec) (n : Nat) (l mn mx : Pat) (st : St) (L : Nat) (hL : 1 ≤ L)
    (lo hi : Atom) (vlo vhi : Num) (hlo : lo.toNum = some vlo) (hhi : hi.toNum = some vhi)
    (hst : st.v0 = .flt 0)
    (hl : recOuts rec n l = List.replicate n (.val (.int (L : Int))))
    (hmn : recOuts rec n mn = List.replicate n (.val (.a lo))) (hmx : recOuts rec n mx = List.replicate n (.val (.a hi))) :
    clsOuts (stepPoll (fun _ => [0, 1, 2]) (oscF shape)) rec n [l, mn, mx] st =
      (List.range n).map (fun j => .val (.flt (vlo.r + (vhi.r - vlo.r) * shape (((phaseAt L j : Nat) : Rat) / ((L : Nat) : Rat))))) := by
  rw [osc_reference shape rec n l mn mx st (List.replicate n (.int (L : Int))) (List.replicate n (.a lo))
      (List.replicate n (.a hi)) (by simpa using hl) (by simpa using hmn) (by simpa using hmx),
    rows3_replicate, osc_run_const shape L hL lo hi vlo vhi hlo hhi n 0 st (by simpa [phaseAt] using hst)]
  simp

theorem tri_closed_form (rec : Rec) (n : Nat) (l mn mx : Pat) (st : St) (L : Nat) (hL : 1 ≤ L)
    (lo hi : Atom) (vlo vhi : Num) (hlo : lo.toNum = some vlo) (hhi : hi.toNum = some vhi) (hst : st.v0 = .flt 0)
    (hl : recOuts rec n l = List.replicate n (.val (.int (L : Int))))
    (hmn : recOuts rec n mn = List.replicate n (.val (.a lo))) (hmx : recOuts rec n mx = List.replicate n (.val (.a hi))) :
    clsOuts stepTri rec n [l, mn, mx] st =
      (List.range n).map (fun j => .val (.flt (vlo.r + (vhi.r - vlo.r) * triShape (((phaseAt L j : Nat) : Rat) / ((L : Nat) : Rat))))) :=
  osc_closed_form triShape rec n l mn mx st L hL lo hi vlo vhi hlo hhi hst hl hmn hmx

theorem saw_closed_form (rec : Rec) (n : Nat) (l mn mx : Pat) (st : St) (L : Nat) (hL : 1 ≤ L)
    (lo hi : Atom) (vlo vhi : Num) (hlo : lo.toNum = some vlo) (hhi : hi.toNum = some vhi) (hst : st.v0 = .flt 0)
    (hl : recOuts rec n l = List.replicate n (.val (.int (L : Int))))
    (hmn : recOuts rec n mn = List.replicate n (.val (.a lo))) (hmx : recOuts rec n mx = List.replicate n (.val (.a hi))) :
    clsOuts stepSaw rec n [l, mn, mx] st =
      (List.range n).map (fun j => .val (.flt (vlo.r + (vhi.r - vlo.r) * (((phaseAt L j : Nat) : Rat) / ((L : Nat) : Rat))))) :=
  osc_closed_form id rec n l mn mx st L hL lo hi vlo vhi hlo hhi hst hl hmn hmx

/-- The triangle shape: `0` at both ends, `1` in the middle, within `[0, 1]` on `[0, 1]`. -/
theorem triShape_values : triShape 0 = 0 ∧ triShape (1 / 2) = 1 ∧ triShape 1 = 0 := by
  refine ⟨?_, ?_, ?_⟩ <;> norm_num [triShape]

theorem triShape_unit (x : Rat) (h0 : 0 ≤ x) (h1 : x ≤ 1) : 0 ≤ triShape x ∧ triShape x ≤ 1 := by
  unfold triShape
  split <;> constructor <;> linarith

example : clsOuts stepTri (stepF 5) 7 [Pat.const (.int 4), Pat.const (.int 0), Pat.const (.int 1)] { v0 := .flt 0 } =
    [.val (.flt 0), .val (.flt (1/2)), .val (.flt 1), .val (.flt (1/2)), .val (.flt 0), .val (.flt (1/2)), .val (.flt 1)] := by
  decide +kernel
example : clsOuts stepSaw (stepF 5) 7 [Pat.const (.int 4), Pat.const (.int 0), Pat.const (.int 1)] { v0 := .flt 0 } =
    [.val (.flt 0), .val (.flt (1/4)), .val (.flt (1/2)), .val (.flt (3/4)), .val (.flt 1), .val (.flt (1/4)), .val (.flt (1/2))] := by
  decide +kernel

/-! ### Finite inputs: the pattern ends with its input, after exactly the values the reference defines -/

/-- `PSkipIf` over an input of `m` values ends after `m` values (`skip` needs only `m` values). -/
theorem skipIf_ends (rec : Rec) (a s : Pat) (st : St) (xs ss : List Val)
    (ha : recOuts rec (xs.length + 1) a = xs.map .val ++ [.stop]) (hs : recOuts rec xs.length s = ss.map .val) :
    clsOuts stepSkipIf rec (xs.length + 1) [a, s] st =
      List.zipWith (fun x k => .val (if k.truthy then Val.none else x)) xs ss ++ [.stop] := by
  unfold stepSkipIf
  rw [poll2_ends _ rfl _ rec a s st xs ss ha hs, runF_pure1, List.map_zipWith]
  rfl

theorem normalise_ends (rec : Rec) (a : Pat) (st : St) (h0 : st.n0 = 0) (xs : List Val)
    (ha : recOuts rec (xs.length + 1) a = xs.map .val ++ [.stop]) :
    clsOuts stepNormalise rec (xs.length + 1) [a] st = normRef [] xs ++ [.stop] := by
  unfold stepNormalise
  rw [poll1_ends _ rfl _ rec a st xs ha, normF_run st [] xs (Or.inl ⟨rfl, h0⟩)]

theorem mapEnumerated_ends (rec : Rec) (a : Pat) (st : St) (h1 : st.n1 = 0) (xs : List Val)
    (ha : recOuts rec (xs.length + 1) a = xs.map .val ++ [.stop]) :
    clsOuts stepMapEnumerated rec (xs.length + 1) [a] st =
      xs.mapIdx (fun j x => enumFn st.n0 (.int (j : Int)) x []) ++ [.stop] := by
  unfold stepMapEnumerated
  rw [poll1_ends _ rfl _ rec a st xs ha, enumF_run, h1]
  simp

/-- `PMap(input, f, arg)`: the argument is resolved once more than the input yields values. -/
theorem map_ends1 (rec : Rec) (a p : Pat) (st : St) (xs ps : List Val) (p' : Val)
    (ha : recOuts rec (xs.length + 1) a = xs.map .val ++ [.stop])
    (hp : recOuts rec (xs.length + 1) p = ps.map .val ++ [.val p']) :
    clsOuts stepMap rec (xs.length + 1) [a, p] st = List.zipWith (fun x y => mapFn st.n0 x [y]) xs ps ++ [.stop] := by
  unfold stepMap
  rw [poll2r_ends _ rfl _ rec a p st xs ps p' ha hp, runF_const_st _ mapF_st, List.map_zipWith]
  rfl

theorem round_ends (rec : Rec) (a d : Pat) (st : St) (xs ds : List Val) (d' : Val)
    (ha : recOuts rec (xs.length + 1) a = xs.map .val ++ [.stop])
    (hd : recOuts rec (xs.length + 1) d = ds.map .val ++ [.val d']) :
    clsOuts stepRound rec (xs.length + 1) [a, d] st = List.zipWith (fun x nd => roundVal [nd, x]) xs ds ++ [.stop] := by
  unfold stepRound
  rw [poll2r_ends _ rfl _ rec a d st xs ds d' ha hd, runF_pure1, List.map_zipWith]

theorem scalar_ends (rec : Rec) (a m : Pat) (st : St) (xs ms : List Val) (m' : Val)
    (ha : recOuts rec (xs.length + 1) a = xs.map .val ++ [.stop])
    (hm : recOuts rec (xs.length + 1) m = ms.map .val ++ [.val m']) :
    clsOuts stepScalar rec (xs.length + 1) [a, m] st = List.zipWith (fun x method => scalarVal [method, x]) xs ms ++ [.stop] := by
  unfold stepScalar
  rw [poll2r_ends _ rfl _ rec a m st xs ms m' ha hm, runF_pure1, List.map_zipWith]

theorem wrap_ends (rec : Rec) (a mn mx : Pat) (st : St) (xs los his : List Val)
    (ha : recOuts rec (xs.length + 1) a = xs.map .val ++ [.stop])
    (hl : recOuts rec xs.length mn = los.map .val) (hh : recOuts rec xs.length mx = his.map .val) :
    clsOuts stepWrap rec (xs.length + 1) [a, mn, mx] st = (rows3 xs los his).map wrapVal ++ [.stop] := by
  unfold stepWrap
  rw [poll3_ends _ rfl _ rec a mn mx st xs los his ha hl hh, runF_pure1]

theorem degree_ends (rec : Rec) (d s : Pat) (st : St) (ds ss : List Val)
    (hd : recOuts rec (ds.length + 1) d = ds.map .val ++ [.stop]) (hs : recOuts rec ds.length s = ss.map .val) :
    clsOuts stepDegree rec (ds.length + 1) [d, s] st = List.zipWith (fun deg sc => degreeVal [deg, sc]) ds ss ++ [.stop] := by
  unfold stepDegree
  rw [poll2_ends _ rfl _ rec d s st ds ss hd hs, runF_pure1, List.map_zipWith]

theorem midi_ends (pw : Rat → Rat → Out) (rec : Rec) (a : Pat) (st : St) (xs : List Val)
    (ha : recOuts rec (xs.length + 1) a = xs.map .val ++ [.stop]) :
    clsOuts (stepMidi pw) rec (xs.length + 1) [a] st = xs.map (fun x => midiVal pw [x]) ++ [.stop] := by
  unfold stepMidi
  rw [poll1_ends _ rfl _ rec a st xs ha, runF_pure1, List.map_map]
  rfl

end IsobarV.C10
