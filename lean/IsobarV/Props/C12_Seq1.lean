/-
C12 — pattern-valued parameters are resolved afresh at every step: consumption lemmas for the pattern-valued
parameters of PSeries (length, step), PRange (end, step), PGeom (multiply), PImpulse (period), PStutter (count,
once per block), PSubsequence (offset, length) and PCreep (length, creep, repeats, prob).

Each lemma: after a step that yields a value, the parameter kid is exactly one `rec`-step further (`(rec k).p`):
it was read, once.  Stated for an arbitrary semantics `rec` of the parameter patterns and arbitrary own state.
(`PGeom.length` and `PLoop.count` are plain attributes of the real classes, never resolved: not parameters.)
-/
import IsobarV.Pat.Lemmas

namespace IsobarV.C12Seq1
open IsobarV.Pat

theorem stepKid1_0 (rec : Rec) (a : Pat) : stepKid rec [a] 0 = ((rec a).out, [(rec a).p]) := by simp [stepKid]
theorem stepKid2_0 (rec : Rec) (a b : Pat) : stepKid rec [a, b] 0 = ((rec a).out, [(rec a).p, b]) := by simp [stepKid]
theorem stepKid2_1 (rec : Rec) (a b : Pat) : stepKid rec [a, b] 1 = ((rec b).out, [a, (rec b).p]) := by simp [stepKid]

/-- **PSeries**: a step that yields a value has read `length` once, then `step` once. -/
theorem series_params_once (rec : Rec) (len stp : Pat) (st : St) (v : Val)
    (h : (stepSeries rec [len, stp] st).out = .val v) :
    (stepSeries rec [len, stp] st).kids = [(rec len).p, (rec stp).p] := by
  simp only [stepSeries, stepKid2_0, stepKid2_1] at h ⊢
  split at h
  · split at h
    · simp at h
    · simp at h
    · split at h
      · split at h
        · simp_all
        · simp_all
      · simp_all
  · simp_all

/-- PSeries reads `length` on EVERY call, also on the one that ends the series. -/
theorem series_length_every_call (rec : Rec) (len stp : Pat) (st : St) :
    ∃ s, (stepSeries rec [len, stp] st).kids = [(rec len).p, s] := by
  simp only [stepSeries, stepKid2_0, stepKid2_1]
  (repeat' split) <;> exact ⟨_, rfl⟩

/-- **PRange**: a step that yields a value has read `end` once, then `step` once. -/
theorem range_params_once (rec : Rec) (e d : Pat) (st : St) (v : Val)
    (h : (stepRange rec [e, d] st).out = .val v) :
    (stepRange rec [e, d] st).kids = [(rec e).p, (rec d).p] := by
  simp only [stepRange, rangeEmit, stepKid2_0, stepKid2_1] at h ⊢
  (repeat' split at h) <;> simp_all <;> (repeat' split) <;> rfl

/-- **PGeom**: a step that yields a value has read `multiply` once. -/
theorem geom_multiply_once (rec : Rec) (m : Pat) (st : St) (v : Val)
    (h : (stepGeom rec [m] st).out = .val v) : (stepGeom rec [m] st).kids = [(rec m).p] := by
  simp only [stepGeom, stepKid1_0] at h ⊢
  (repeat' split at h) <;> simp_all <;> split <;> first | rfl | omega

/-- **PImpulse**: every step that yields a value has read `period` once. -/
theorem impulse_period_once (rec : Rec) (p : Pat) (st : St) (v : Val)
    (h : (stepImpulse rec [p] st).out = .val v) : (stepImpulse rec [p] st).kids = [(rec p).p] := by
  simp only [stepImpulse, stepKid1_0] at h ⊢
  (repeat' split at h) <;> simp_all

/-- **PStutter is block-wise**: when the held value has been played `count_current` times a step that yields
    a value reads `count` once and the input once … -/
theorem stutter_count_once_per_block (rec : Rec) (inp cnt : Pat) (st : St) (v : Val)
    (hb : numCmp .ge (Val.int st.n0) st.v1 = some true)
    (h : (stepStutter rec [inp, cnt] st).out = .val v) :
    (stepStutter rec [inp, cnt] st).kids = [(rec inp).p, (rec cnt).p] ∧
    (stepStutter rec [inp, cnt] st).st.v1 = match (rec cnt).out with | .val c => c | _ => st.v1 := by
  simp only [stepStutter, hb, stepKid2_0, stepKid2_1] at h ⊢
  (repeat' split at h) <;> simp_all

/-- … and inside a block neither `count` nor the input is touched. -/
theorem stutter_count_untouched_in_block (rec : Rec) (inp cnt : Pat) (st : St)
    (hb : numCmp .ge (Val.int st.n0) st.v1 = some false) :
    (stepStutter rec [inp, cnt] st).kids = [inp, cnt] ∧ (stepStutter rec [inp, cnt] st).out = .val st.v0 := by
  simp [stepStutter, hb]

theorem stepKid3_1 (rec : Rec) (a b c : Pat) : stepKid rec [a, b, c] 1 = ((rec b).out, [a, (rec b).p, c]) := by
  simp [stepKid]
theorem stepKid3_2 (rec : Rec) (a b c : Pat) : stepKid rec [a, b, c] 2 = ((rec c).out, [a, b, (rec c).p]) := by
  simp [stepKid]

/-- The fill loop only ever replaces the input (kid 0). -/
theorem fillBuf_tail (rec : Rec) (k : Nat) (a : Pat) (rest : List Pat) (buf : List Val) :
    ∃ a', (fillBuf rec k (a :: rest) buf).2.1 = a' :: rest := by
  induction k generalizing a buf with
  | zero => exact ⟨a, rfl⟩
  | succ k ih =>
    simp only [fillBuf, stepKid, List.getElem?_cons_zero, List.set_cons_zero]
    split
    · exact ih _ _
    · exact ⟨_, rfl⟩

/-- **PSubsequence**: every step that yields a value has read `offset` once, then `length` once (the input
    is read as often as the window requires). -/
theorem subsequence_params_once (rec : Rec) (inp off len : Pat) (st : St) (v : Val)
    (h : (stepSubsequence rec [inp, off, len] st).out = .val v) :
    ∃ inp', (stepSubsequence rec [inp, off, len] st).kids = [inp', (rec off).p, (rec len).p] := by
  have hf := fun k => fillBuf_tail rec k inp [(rec off).p, (rec len).p] st.buf
  simp only [stepSubsequence, subEmit, stepKid3_1, stepKid3_2] at h ⊢
  (repeat' split at h) <;> simp_all <;> exact hf _

theorem creepLoop_tail (rec : Rec) (k : Nat) (a : Pat) (rest : List Pat) (buf : List Val) :
    ∃ a', (creepLoop rec k (a :: rest) buf).2.1 = a' :: rest := by
  induction k generalizing a buf with
  | zero => exact ⟨a, rfl⟩
  | succ k ih =>
    simp only [creepLoop, stepKid, List.getElem?_cons_zero, List.set_cons_zero]
    split
    · exact ⟨_, rfl⟩
    · split
      · exact ih _ _
      · exact ⟨_, rfl⟩

theorem stepKidsSeq5 (rec : Rec) (inp l c r p : Pat) (x : Val)
    (h : (stepKidsSeq rec [1, 2, 3, 4] [inp, l, c, r, p] []).1 = .val x) :
    (stepKidsSeq rec [1, 2, 3, 4] [inp, l, c, r, p] []).2.1 = [inp, (rec l).p, (rec c).p, (rec r).p, (rec p).p] := by
  simp only [stepKidsSeq, stepKid, List.getElem?_cons_succ, List.getElem?_cons_zero, List.set_cons_succ, List.set_cons_zero] at h ⊢
  (repeat' split at h) <;> simp_all

theorem creepEmit_kids (kids : List Pat) (b : List Val) (pos rc : Int) (st : St) :
    (creepEmit kids b pos rc st).kids = kids := by
  unfold creepEmit; (repeat' split) <;> rfl

theorem creepAfterLoop_kids (r : Out × List Pat × List Val) (rep : Bool) (st : St) :
    (creepAfterLoop r rep st).kids = r.2.1 := by
  unfold creepAfterLoop; split
  · exact creepEmit_kids _ _ _ _ _
  · rfl

theorem creepMain_kids (rec : Rec) (cr : Int) (rp pr : Val) (kids : List Pat) (b : List Val) (st : St) :
    (creepMain rec cr rp pr kids b st).kids = kids ∨
    (creepMain rec cr rp pr kids b st).kids = (creepLoop rec cr.toNat kids b).2.1 := by
  unfold creepMain
  (repeat' split) <;> simp [creepEmit_kids, creepAfterLoop_kids]

/-- Whatever happens, a step of PCreep changes at most the input among its kids once the four parameters
    have been resolved. -/
theorem creep_kids_shape (rec : Rec) (inp : Pat) (T : List Pat) (kids : List Pat) (st : St)
    (hS : (stepKidsSeq rec [1, 2, 3, 4] kids []).2.1 = inp :: T) :
    ∃ inp', (stepCreep rec kids st).kids = inp' :: T := by
  simp only [stepCreep, creepAfterFill]
  have hf := fun k => fillBuf_tail rec k inp T st.buf
  split
  · rw [hS]
    rename_i len cr rp pr _ _
    obtain ⟨a', ha⟩ := hf (len - st.buf.length).toNat
    split
    · split
      · exact ⟨a', ha⟩
      · rcases creepMain_kids rec cr rp pr (fillBuf rec (len - ↑st.buf.length).toNat (inp :: T) st.buf).2.1
            (List.drop ((fillBuf rec (len - ↑st.buf.length).toNat (inp :: T) st.buf).2.2.length - len.toNat)
              (fillBuf rec (len - ↑st.buf.length).toNat (inp :: T) st.buf).2.2) st with h | h
        · rw [h]; exact ⟨a', ha⟩
        · rw [h, ha]; exact creepLoop_tail rec _ a' T _
    · exact ⟨a', ha⟩
  · exact ⟨inp, hS⟩
  · exact ⟨inp, hS⟩

theorem creep_val_resolved (rec : Rec) (kids : List Pat) (st : St) (v : Val)
    (h : (stepCreep rec kids st).out = .val v) : ∃ x, (stepKidsSeq rec [1, 2, 3, 4] kids []).1 = .val x := by
  simp only [stepCreep] at h
  split at h
  · rename_i x _ _ _ _ hx _; exact ⟨x, hx⟩
  · simp at h
  · rename_i o _ hn _; simp at h; exact absurd h (hn v)

/-- **PCreep**: a step that yields a value has read `length`, `creep`, `repeats` and `prob` once each, in that
    order (the input is read as often as filling and creeping require). -/
theorem creep_params_once (rec : Rec) (inp l c r p : Pat) (st : St) (v : Val)
    (h : (stepCreep rec [inp, l, c, r, p] st).out = .val v) :
    ∃ inp', (stepCreep rec [inp, l, c, r, p] st).kids = [inp', (rec l).p, (rec c).p, (rec r).p, (rec p).p] := by
  obtain ⟨x, hx⟩ := creep_val_resolved rec _ st v h
  exact creep_kids_shape rec inp _ _ st (stepKidsSeq5 rec inp l c r p x hx)

/-! Non-vacuity: varying parameter streams, consumed one value per use. -/
section Example
def c (i : Int) : Pat := Pat.const (.int i)
def sq (xs : List Int) : Pat := .node .seq (xs.map c) { n0 := -1 }
def sqAt (xs : List Int) (pos : Int) : Pat := .node .seq (xs.map c) { n0 := -1, n1 := pos }

example : clsOuts stepSeries (stepF 5) 5 [c 5, sq [1, 10]] { v0 := .int 0, v1 := .int 0 } =
    [.val (.int 0), .val (.int 1), .val (.int 11), .val (.int 12), .val (.int 22)] := by decide
example : (stepSeries (stepF 5) [c 5, sq [1, 10]] { v0 := .int 0, v1 := .int 0 }).kids = [c 5, sqAt [1, 10] 1] := by rfl
example : clsOuts stepStutter (stepF 5) 6 [sq [7, 8, 9], sq [1, 3]] { v0 := .int 0, v1 := .int 0 } =
    [.val (.int 7), .val (.int 8), .val (.int 8), .val (.int 8), .val (.int 9), .val (.int 7)] := by decide
example : clsOuts stepSubsequence (stepF 5) 4 [sq [0, 1, 2, 3, 4, 5], sq [0, 2], c 3] {} =
    [.val (.int 0), .val (.int 3), .val (.int 2), .stop] := by decide
example : clsOuts stepCreep (stepF 5) 8 [sq [0, 1, 2, 3, 4, 5], c 2, sq [1, 2], c 2, c 1] { n1 := 1 } =
    [.val (.int 0), .val (.int 1), .val (.int 0), .val (.int 1), .val (.int 1), .val (.int 2), .val (.int 1), .val (.int 2)] := by
  decide
end Example

end IsobarV.C12Seq1
