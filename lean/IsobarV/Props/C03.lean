/-
Property C03 — event dictionaries resolve to the documented device messages.

All theorems are about the executable model `IsobarV/Event/Model.lean` (`Event.__init__` = `resolve` /
`eventInit`, `Track.perform_event` = `perform`, one event through `Track.tick` = `trackEvent`) and hold for EVERY
event dictionary, every assignment of timeline defaults and every value of the model's universe — no bound.
Vocabulary: `IsobarV/Event/Spec.lean`; helper lemmas: `IsobarV/Event/Lemmas.lean`.
The key whitelist, the `EVENT_*` names and the library defaults come from the tables GENERATED from the repository
(`constants_as_assumed`, `library_defaults_as_documented` are decided by the kernel on those tables).
Only property theorems live here; every theorem is followed by a non-vacuity `example`.
-/
import IsobarV.Event.Lemmas
import IsobarV.Props.C13

set_option linter.unusedSimpArgs false
set_option linter.unusedVariables false

namespace IsobarV.C03
open IsobarV.Event IsobarV.Tonal

/-- the key of the examples: C# "pureminor" -/
def exKey : Key := { tonic := 1, scale := { semitones := [0, 3, 7], octave := 12 } }

/-- an example dictionary: a three-voice chord by degrees, with legacy keys, per-voice gate and channel -/
def exChord : Dict := [
  ("degree", .tup [.int 0, .int (-1), .int 4]), ("key", .a (.key exKey)), ("octave", .int 4), ("transpose", .int 2),
  ("amp", .int 90), ("amplitude", .int 10), ("gate", .tup [.flt (1/2), .int 1, .int 0]), ("channel", .tup [.int 1, .int 2, .int 3]),
  ("dur", .flt (1/2))]

/-! ### the model computes the documented meaning -/

/-- `Event.__init__` (a sequence of dictionary updates) computes exactly the declarative reading of the
    dictionary: per field the first of [explicit (with synonyms), timeline default, library default], the pitch
    formula, the first-present rule for the type; and it fails exactly when that reading fails, with the same error. -/
theorem resolve_eq_spec (d ov : Dict) : resolve d ov = specResolve d ov := resolve_eq_spec_aux d ov

example : resolve exChord [] = .ok {
    payload := .note (.list [.int 51, .int 46, .int 66]) (.int 90) (.tup [.flt (1/2), .int 1, .int 0])
                 (.tup [.int 1, .int 2, .int 3]) .none,
    duration := .flt (1/2), active := .bool true } := by decide +kernel
example : specResolve exChord [] = resolve exChord [] := (resolve_eq_spec exChord []).symm
example : resolve [("note", .int 60), ("foo", .int 1)] [] = .error .valueError := by decide +kernel
example : specResolve [("control", .int 7)] [] = .error .keyError := by decide +kernel

/-- the names the model spells out are the repository's `EVENT_*` constants (generated table). -/
theorem constants_as_assumed :
    assumedConstants.all (fun p => Generated.eventConstants.lookup p.1 == some (.str p.2)) = true := by decide +kernel

example : assumedConstants.length = 38 := by decide

/-- the library defaults are the documented ones: channel 0, duration 1, gate 1.0, amplitude 64, octave 0,
    transpose 0, key C major, active (generated table). -/
theorem library_defaults_as_documented : libraryDefaults = documentedDefaults := by decide +kernel

example : libraryDefaults.get "amplitude" = some (.int 64) := by decide +kernel

/-! ### rejected dictionaries -/

/-- a key that is not an event parameter: `ValueError`, whatever else the dictionary contains. -/
theorem unknown_key_rejected (d ov : Dict) (k : String) (v : Val) (hk : (k, v) ∈ d)
    (hu : k ∉ Generated.allEventParameters) : resolve d ov = .error .valueError := by
  rw [resolve_eq_spec]
  unfold specResolve
  have : (d.any fun kv => !Generated.allEventParameters.contains kv.1) = true := by
    rw [List.any_eq_true]
    exact ⟨(k, v), hk, by simpa using hu⟩
  rw [this]
  rfl

example : resolve [("note", .int 60), ("pitch", .int 1)] [] = .error .valueError :=
  unknown_key_rejected _ _ "pitch" (.int 1) (by decide) (by decide)

/-- a note together with a degree: `InvalidEventException`. -/
theorem note_and_degree_rejected (d ov : Dict) (hk : ∀ kv ∈ d, kv.1 ∈ Generated.allEventParameters)
    (hn : d.contains "note" = true) (hd : d.contains "degree" = true) :
    resolve d ov = .error .invalidEventException := by
  rw [resolve_eq_spec]
  unfold specResolve
  have : (d.any fun kv => !Generated.allEventParameters.contains kv.1) = false := by
    rw [List.any_eq_false]
    intro kv hkv
    simpa using hk kv hkv
  rw [this, hn, hd]
  rfl

example : resolve [("note", .int 60), ("degree", .none)] [] = .error .invalidEventException :=
  note_and_degree_rejected _ _ (by decide) (by decide) (by decide)

/-- no type-selecting key at all: `InvalidEventException`. -/
theorem untyped_rejected (d ov : Dict) (hk : ∀ kv ∈ d, kv.1 ∈ Generated.allEventParameters)
    (hn : ∀ k ∈ typeKeys, hasTypeKey d k = false) : resolve d ov = .error .invalidEventException := by
  rw [resolve_eq_spec]
  unfold specResolve
  have hany : (d.any fun kv => !Generated.allEventParameters.contains kv.1) = false := by
    rw [List.any_eq_false]
    intro kv hkv
    simpa using hk kv hkv
  have hget : ∀ k ∈ ["action", "patch", "control", "program_change", "osc_address", "synth", "note", "degree"], d.get k = none := by
    intro k hkm
    simp only [List.mem_cons, List.not_mem_nil, or_false] at hkm
    have h1 := hn "action" (by decide)
    have h2 := hn "patch" (by decide)
    have h3 := hn "control" (by decide)
    have h4 := hn "program_change" (by decide)
    have h5 := hn "osc_address" (by decide)
    have h6 := hn "synth" (by decide)
    have h7 := hn "note" (by decide)
    simp [hasTypeKey, Dict.contains] at h1 h2 h3 h4 h5 h6 h7
    rcases hkm with rfl | rfl | rfl | rfl | rfl | rfl | rfl | rfl <;> simp_all
  have hnote : d.contains "note" = false := by simp [Dict.contains, hget "note" (by decide)]
  rw [hany, hnote]
  simp only [Bool.false_eq_true, if_false, Bool.false_and]
  have hp : specPitch d ov = .ok .absent := by
    unfold specPitch pitchOf
    rw [specField_degree, specField_note, hget "degree" (by decide), hget "note" (by decide)]
  rw [hp, ok_bind]
  have hf : ∀ k ∈ ["action", "patch", "control", "program_change", "osc_address", "synth", "note"],
      specFinal d ov .absent k = none := by
    intro k hkm
    have hnl : k ∉ libraryDefaults.map (·.1) := by
      rw [libraryDefaults_keys]
      simp only [List.mem_cons, List.not_mem_nil, or_false] at hkm
      rcases hkm with rfl | rfl | rfl | rfl | rfl | rfl | rfl <;> decide
    show specField d ov k = none
    rw [specField_plain d ov k hnl]
    apply hget
    simp only [List.mem_cons, List.not_mem_nil, or_false] at hkm ⊢
    rcases hkm with rfl | rfl | rfl | rfl | rfl | rfl | rfl <;> simp
  unfold specEvent specPayload
  simp [hf]
  rfl

example : resolve [("value", .int 4), ("duration", .int 1)] [] = .error .invalidEventException :=
  untyped_rejected _ _ (by decide) (by decide)

/-! ### the type of an event -/

/-- the type is the FIRST PRESENT of action, patch, control, program_change, osc_address, synth, note|degree —
    for every combination of type-selecting keys. -/
theorem type_precedence (d ov : Dict) (e : Event) (h : resolve d ov = .ok e) :
    typeKeys.find? (hasTypeKey d) = some e.payload.typeKey := by
  obtain ⟨_, _, p, hp, he⟩ := resolve_ok d ov e h
  have hpay := (specEvent_ok _ e he).1
  have := specPayload_typeKey _ _ hpay
  rw [← this]
  have hnote := final_note_isSome d ov p hp
  have hother : ∀ k, k ≠ "note" → k ∉ libraryDefaults.map (·.1) → (specFinal d ov p k).isSome = d.contains k := by
    intro k hk hnl
    unfold specFinal
    have ha : k ≠ "amplitude" := by intro e; subst e; exact hnl (by rw [libraryDefaults_keys]; decide)
    have hg : k ≠ "gate" := by intro e; subst e; exact hnl (by rw [libraryDefaults_keys]; decide)
    rw [finalOf_other _ _ _ hk ha hg, specField_plain d ov k hnl]
    rfl
  have nl : ∀ k ∈ ["action", "patch", "control", "program_change", "osc_address", "synth"], k ∉ libraryDefaults.map (·.1) := by
    rw [libraryDefaults_keys]; decide
  simp only [typeKeys, List.find?, hasTypeKey]
  rw [hother "action" (by decide) (nl _ (by decide)), hother "patch" (by decide) (nl _ (by decide)),
      hother "control" (by decide) (nl _ (by decide)), hother "program_change" (by decide) (nl _ (by decide)),
      hother "osc_address" (by decide) (nl _ (by decide)), hother "synth" (by decide) (nl _ (by decide)), hnote]
  simp

example : (resolve [("note", .int 60), ("synth", .str "foo"), ("program_change", .int 3), ("control", .int 1), ("value", .int 2)] []).toOption.map
    (fun e => e.payload.typeKey) = some "control" := by decide +kernel
example : typeKeys.find? (hasTypeKey [("degree", .int 1), ("osc_address", .str "/x")]) = some "osc_address" := by decide

/-! ### fields: explicit, else the timeline's default, else the library default -/

/-- duration and active of EVERY event: the event's own value (`dur` before `duration`), else the timeline's
    default, else the library default. -/
theorem duration_active_precedence (d ov : Dict) (e : Event) (h : resolve d ov = .ok e) :
    some e.duration = firstSome [d.get "dur", d.get "duration", timelineDefault ov "duration", libraryDefaults.get "duration"] ∧
    some e.active = firstSome [d.get "active", timelineDefault ov "active", libraryDefaults.get "active"] := by
  obtain ⟨_, _, p, hp, he⟩ := resolve_ok d ov e h
  obtain ⟨_, hd, ha⟩ := specEvent_ok _ e he
  unfold specFinal at hd ha
  rw [finalOf_other _ _ _ (by decide) (by decide) (by decide)] at hd ha
  rw [← hd, ← ha]
  unfold specField explicitField
  simp only [show ¬ "duration" = "amplitude" by decide, show ¬ "active" = "amplitude" by decide,
    show ¬ "active" = "duration" by decide, if_true, if_false]
  constructor
  · cases d.get "dur" <;> cases d.get "duration" <;> rfl
  · trivial

example : resolve [("control", .int 1), ("value", .int 2), ("duration", .int 4), ("dur", .flt (1/2))] [("duration", .int 2), ("active", .bool false)]
    = .ok { payload := .control (.int 1) (.int 2) (.int 0), duration := .flt (1/2), active := .bool false } := by decide +kernel
example : resolve [("control", .int 1), ("value", .int 2)] [("duration", .int 2)]
    = .ok { payload := .control (.int 1) (.int 2) (.int 0), duration := .int 2, active := .bool true } := by decide +kernel

/-- a note event that is not a rest: amplitude (`velocity` before `amp` before `amplitude`), gate, channel and
    pitch bend are the event's own values, else the timeline's defaults, else the library defaults. -/
theorem field_precedence (d ov : Dict) (e : Event) (n a g c pb : Val) (h : resolve d ov = .ok e)
    (hp : e.payload = .note n a g c pb) (hnr : specPitch d ov ≠ .ok .rest) :
    some a = firstSome [d.get "velocity", d.get "amp", d.get "amplitude", timelineDefault ov "amplitude", libraryDefaults.get "amplitude"] ∧
    some g = firstSome [d.get "gate", timelineDefault ov "gate", libraryDefaults.get "gate"] ∧
    some c = firstSome [d.get "channel", timelineDefault ov "channel", libraryDefaults.get "channel"] ∧
    some pb = firstSome [d.get "pitchbend", timelineDefault ov "pitchbend", libraryDefaults.get "pitchbend"] := by
  obtain ⟨_, _, p, hpitch, he⟩ := resolve_ok d ov e h
  have hpay := (specEvent_ok _ e he).1
  rw [hp] at hpay
  obtain ⟨_, _, _, _, _, _, _, ha, hg, hc, hpb⟩ := specPayload_note _ _ _ _ _ _ hpay
  have hrest : p ≠ .rest := by intro e; subst e; exact hnr hpitch
  unfold specFinal at ha hg hc hpb
  rw [finalOf_other _ _ _ (by decide) (by decide) (by decide)] at hc hpb
  have hfa : finalOf (specField d ov) p "amplitude" = specField d ov "amplitude" := by
    cases p <;> simp [finalOf] at hrest ⊢
  have hfg : finalOf (specField d ov) p "gate" = specField d ov "gate" := by
    cases p <;> simp [finalOf] at hrest ⊢
  rw [hfa] at ha
  rw [hfg] at hg
  rw [← ha, ← hg, ← hc, ← hpb]
  unfold specField explicitField
  simp only [show ¬ "gate" = "amplitude" by decide, show ¬ "gate" = "duration" by decide,
    show ¬ "channel" = "amplitude" by decide, show ¬ "channel" = "duration" by decide,
    show ¬ "pitchbend" = "amplitude" by decide, show ¬ "pitchbend" = "duration" by decide, if_true, if_false]
  refine ⟨?_, trivial, trivial, trivial⟩
  cases d.get "velocity" <;> cases d.get "amp" <;> cases d.get "amplitude" <;> rfl

example : resolve [("note", .int 60), ("amplitude", .int 20), ("amp", .int 10), ("gate", .flt (1/4))] [("channel", .int 5), ("gate", .int 2)]
    = .ok { payload := .note (.int 60) (.int 10) (.flt (1/4)) (.int 5) .none, duration := .int 1, active := .bool true } := by
  decide +kernel
example : firstSome [(none : Option Val), some (.int 10), some (.int 20), none, some (.int 64)] = some (.int 10) := rfl

/-! ### the pitch of every voice -/

/-- a chord given by DEGREES (tuple or list), key given as an object or by name: the note of the event is, voice
    by voice, `key[degree] + 12 × octave + transpose`. -/
theorem voice_pitch (d ov : Dict) (ds : List Int) (kv : Val) (k : Key) (o t : Int) (e : Event) (n a g c pb : Val)
    (hdeg : d.get "degree" = some (.tup (ds.map Atom.int)) ∨ d.get "degree" = some (.list (ds.map Atom.int)))
    (hkv : specField d ov "key" = some kv) (hk : resolveKey kv = .ok (.key k)) (hne : k.scale.semitones ≠ [])
    (ho : specField d ov "octave" = some (.int o)) (ht : specField d ov "transpose" = some (.int t))
    (h : resolve d ov = .ok e) (hp : e.payload = .note n a g c pb) :
    n = .list (ds.map fun dg => Atom.int (k.get dg + 12 * o + t)) := by
  obtain ⟨_, _, p, hpitch, he⟩ := resolve_ok d ov e h
  have hp2 : specPitch d ov = .ok (.notes (.list ((ds.map k.get).map fun n => Atom.int (n + (o * 12 + t))))) := by
    unfold specPitch pitchOf
    rw [specField_degree]
    rcases hdeg with hd | hd
    · rw [hd]
      simp only [Val.none, reduceCtorEq, if_false]
      rw [degreeInts_tup, ok_bind, hkv, needSome, ok_bind, hk, ok_bind]
      simp only [keyLookup]
      rw [mapM_keyGet k hne]
      simp only [Except.map, ok_bind, ho, ht, needSome]
      rw [shiftNote_list_ints]
      rfl
    · rw [hd]
      simp only [Val.none, reduceCtorEq, if_false]
      rw [degreeInts_list, ok_bind, hkv, needSome, ok_bind, hk, ok_bind]
      simp only [keyLookup]
      rw [mapM_keyGet k hne]
      simp only [Except.map, ok_bind, ho, ht, needSome]
      rw [shiftNote_list_ints]
      rfl
  rw [hp2] at hpitch
  cases hpitch
  have hpay := (specEvent_ok _ e he).1
  rw [hp] at hpay
  have hn := (specPayload_note _ _ _ _ _ _ hpay).2.2.2.2.2.2.1
  simp only [specFinal, finalOf, if_true, Option.some.injEq] at hn
  rw [← hn, List.map_map]
  congr 1
  apply List.map_congr_left
  intro dg _
  simp only [Function.comp]
  congr 1
  omega

example : resolve exChord [] = .ok {
    payload := .note (.list ([0, -1, 4].map fun dg => Atom.int (exKey.get dg + 12 * 4 + 2))) (.int 90)
                 (.tup [.flt (1/2), .int 1, .int 0]) (.tup [.int 1, .int 2, .int 3]) .none,
    duration := .flt (1/2), active := .bool true } := by decide +kernel
-- keys given by name: `Key("C# minor")`, `Key("eb")` (major), and names that are refused
example : parseKey ['C', '#', ' ', 'm', 'i', 'n', 'o', 'r']
    = .ok { tonic := 1, scale := { semitones := [0, 2, 3, 5, 7, 8, 10], octave := 12 } } := by decide +kernel
example : parseKey ['e', 'b'] = .ok { tonic := 3, scale := { semitones := [0, 2, 4, 5, 7, 9, 11], octave := 12 } } := by
  decide +kernel
example : parseKey ['H', ' ', 'm', 'i', 'n', 'o', 'r'] = .error .unknownNoteName := by decide +kernel
example : parseKey ['C', ' ', 'f', 'o', 'o'] = .error .unknownScaleName := by decide +kernel
example : parseKey ['C', ' ', 'a', 'u', 'g', 'm', 'e', 'n', 't', 'e', 'd', ' ', '2'] = .error .valueError := by decide +kernel

/-- a single degree: `key[degree] + 12 × octave + transpose`. -/
theorem voice_pitch_scalar (d ov : Dict) (dg : Int) (kv : Val) (k : Key) (o t : Int) (e : Event) (n a g c pb : Val)
    (hdeg : d.get "degree" = some (.int dg))
    (hkv : specField d ov "key" = some kv) (hk : resolveKey kv = .ok (.key k)) (hne : k.scale.semitones ≠ [])
    (ho : specField d ov "octave" = some (.int o)) (ht : specField d ov "transpose" = some (.int t))
    (h : resolve d ov = .ok e) (hp : e.payload = .note n a g c pb) :
    n = .int (k.get dg + 12 * o + t) := by
  obtain ⟨_, _, p, hpitch, he⟩ := resolve_ok d ov e h
  have hkg : keyGet k dg = .ok (k.get dg) := by
    have := mapM_keyGet k hne [dg]
    simp only [List.mapM_cons, List.mapM_nil, List.map_cons, List.map_nil] at this
    cases hx : keyGet k dg with
    | error x => rw [hx] at this; cases this
    | ok v =>
      rw [hx] at this
      simp only [bind_pure_comp, map_pure, ok_bind] at this
      cases this
      rfl
  have hp2 : specPitch d ov = .ok (.notes (.int (k.get dg + (o * 12 + t)))) := by
    unfold specPitch pitchOf
    rw [specField_degree, hdeg]
    simp only [Val.none, Val.int, reduceCtorEq, Atom.int.injEq, Val.a.injEq, if_false]
    simp only [degreeInts, Atom.iterOOM, Bool.false_eq_true, if_false, pyIntAtom, Except.map, ok_bind, hkv, needSome, hk,
      keyLookup, hkg, ho, ht]
    rw [shiftNote_int]
    rfl
  rw [hp2] at hpitch
  cases hpitch
  have hpay := (specEvent_ok _ e he).1
  rw [hp] at hpay
  have hn := (specPayload_note _ _ _ _ _ _ hpay).2.2.2.2.2.2.1
  simp only [specFinal, finalOf, if_true, Option.some.injEq] at hn
  rw [← hn]
  show Val.int _ = Val.int _
  congr 1
  omega

example : resolve [("degree", .int (-4)), ("octave", .int 5)] [("key", .str "A minor"), ("transpose", .int 1)]
    = .ok { payload := .note (.int (({ tonic := 9, scale := { semitones := [0, 2, 3, 5, 7, 8, 10], octave := 12 } } : Key).get (-4) + 12 * 5 + 1))
              (.int 64) (.flt 1) (.int 0) .none, duration := .int 1, active := .bool true } := by decide +kernel

/-- the pitch of a degree in closed form (C13's degree formula): for THE floor decomposition
    `degree = n·q + r`, `0 ≤ r < n` (`n` = number of scale degrees), the voice sounds
    `tonic + scale[r] + octave size × q + 12 × octave + transpose` — negative degrees have negative `q` and
    descend, degrees beyond one octave ascend. -/
theorem voice_pitch_degree_formula (k : Key) (hne : k.scale.semitones ≠ []) (dg q r o t : Int)
    (hr0 : 0 ≤ r) (hr1 : r < k.scale.semitones.length) (hd : dg = k.scale.semitones.length * q + r) :
    k.get dg + 12 * o + t = k.tonic + k.scale.semitones.getD r.toNat 0 + k.scale.octave * q + 12 * o + t := by
  rw [C13.degree_formula k hne dg q r hr0 hr1 hd]

example : exKey.get (-1) + 12 * 4 + 2 = 1 + 7 + 12 * (-1) + 12 * 4 + 2 :=
  voice_pitch_degree_formula exKey (by decide) (-1) (-1) 2 4 2 (by decide) (by decide) (by decide)
example : exKey.get 4 + 12 * 4 + 2 = 1 + 3 + 12 * 1 + 12 * 4 + 2 :=
  voice_pitch_degree_formula exKey (by decide) 4 1 1 4 2 (by decide) (by decide) (by decide)

/-- notes given directly (a chord as tuple or list, or a single note): `note + 12 × octave + transpose`. -/
theorem given_note_pitch (d ov : Dict) (o t : Int) (e : Event) (n a g c pb : Val)
    (hnd : d.get "degree" = none)
    (ho : specField d ov "octave" = some (.int o)) (ht : specField d ov "transpose" = some (.int t))
    (h : resolve d ov = .ok e) (hp : e.payload = .note n a g c pb) :
    (∀ ns : List Int, (d.get "note" = some (.tup (ns.map Atom.int)) ∨ d.get "note" = some (.list (ns.map Atom.int))) →
      n = .list (ns.map fun x => Atom.int (x + 12 * o + t))) ∧
    (∀ x : Int, d.get "note" = some (.int x) → n = .int (x + 12 * o + t)) := by
  obtain ⟨_, _, p, hpitch, he⟩ := resolve_ok d ov e h
  have hpay := (specEvent_ok _ e he).1
  rw [hp] at hpay
  have hn := (specPayload_note _ _ _ _ _ _ hpay).2.2.2.2.2.2.1
  unfold specPitch pitchOf at hpitch
  rw [specField_degree, hnd, specField_note] at hpitch
  constructor
  · intro ns hnote
    have hv : p = .notes (.list (ns.map fun x => Atom.int (x + (o * 12 + t)))) := by
      rcases hnote with hx | hx
      · rw [hx] at hpitch
        simp only [Val.none, reduceCtorEq, if_false, ho, ht, needSome, ok_bind] at hpitch
        rw [shiftNote_tup_ints] at hpitch
        cases hpitch
        rfl
      · rw [hx] at hpitch
        simp only [Val.none, reduceCtorEq, if_false, ho, ht, needSome, ok_bind] at hpitch
        rw [shiftNote_list_ints] at hpitch
        cases hpitch
        rfl
    subst hv
    simp only [specFinal, finalOf, if_true, Option.some.injEq] at hn
    rw [← hn]
    congr 1
    apply List.map_congr_left
    intro x _
    congr 1
    omega
  · intro x hx
    rw [hx] at hpitch
    simp only [Val.none, Val.int, reduceCtorEq, Atom.int.injEq, Val.a.injEq, if_false, ho, ht, needSome, ok_bind] at hpitch
    have := shiftNote_int x o t
    simp only [Val.int] at this
    rw [this] at hpitch
    cases hpitch
    simp only [specFinal, finalOf, if_true, Option.some.injEq] at hn
    rw [← hn]
    show Val.int _ = Val.int _
    congr 1
    omega

example : resolve [("note", .tup [.int 60, .int 64]), ("octave", .int (-1)), ("transpose", .int 3)] []
    = .ok { payload := .note (.list [.int (60 + 12 * (-1) + 3), .int (64 + 12 * (-1) + 3)]) (.int 64) (.flt 1) (.int 0) .none,
            duration := .int 1, active := .bool true } := by decide +kernel

/-- a non-negative float degree counts as the degree below it (`int()` truncation). -/
theorem float_degree_truncates (r : Rat) (hr : 0 ≤ r) : degreeInts (.flt r) = degreeInts (.int r.floor) := by
  simp [degreeInts, Val.flt, Val.int, Atom.iterOOM, pyIntAtom, truncRat, hr]

example : degreeInts (.flt (11/4)) = .ok (.one 2) := by decide +kernel
example : (resolve [("degree", .flt (11/4)), ("key", .a (.key exKey))] []).toOption.map (·.payload)
    = (resolve [("degree", .int 2), ("key", .a (.key exKey))] []).toOption.map (·.payload) := by decide +kernel

/-! ### silence -/

/-- `None` as note or degree is a rest: the note event performs nothing (no note-on, no note-off, no pitch bend). -/
theorem rest_is_silent (d ov : Dict) (e : Event) (n a g c pb : Val) (h : resolve d ov = .ok e)
    (hp : e.payload = .note n a g c pb)
    (hrest : d.get "degree" = some .none ∨ (d.get "degree" = none ∧ d.get "note" = some .none)) :
    perform e = { calls := [] } := by
  obtain ⟨_, _, p, hpitch, he⟩ := resolve_ok d ov e h
  have hpr : p = .rest := by
    unfold specPitch pitchOf at hpitch
    rw [specField_degree, specField_note] at hpitch
    rcases hrest with hd | ⟨hd, hn⟩
    · rw [hd] at hpitch; simp at hpitch; exact hpitch.symm
    · rw [hd, hn] at hpitch; simp at hpitch; exact hpitch.symm
  subst hpr
  have hpay := (specEvent_ok _ e he).1
  rw [hp] at hpay
  have ha := (specPayload_note _ _ _ _ _ _ hpay).2.2.2.2.2.2.2.1
  have ha' : a = .int 0 := by
    simp [specFinal, finalOf] at ha
    exact ha.symm
  subst ha'
  unfold perform
  split
  · rfl
  · rw [hp]
    rfl

example : (resolve [("note", .none), ("amplitude", .int 100)] []).toOption.map perform = some { calls := [] } := by decide +kernel
example : (resolve [("degree", .none), ("key", .a (.key exKey))] []).toOption.map perform = some { calls := [] } := by decide +kernel

/-- an event whose `active` is false performs nothing. -/
theorem inactive_is_silent (e : Event) (h : truthy e.active = false) : perform e = { calls := [] } := by
  simp [perform, h]

example : (resolve [("note", .int 60), ("active", .bool false)] []).toOption.map perform = some { calls := [] } := by decide +kernel

/-! ### dispatch: one call of the matching method, with the resolved arguments -/

/-- control, program-change, OSC, synth and action events make exactly one call, of the matching device method
    (or of the callable), with the event's attributes as arguments. -/
theorem dispatch_table (e : Event) (ha : truthy e.active = true) :
    (∀ c v ch, e.payload = .control c v ch → perform e = { calls := [.control c v ch] }) ∧
    (∀ p ch, e.payload = .program p ch → perform e = { calls := [.programChange p ch] }) ∧
    (∀ a ps, e.payload = .osc a ps → perform e = { calls := [.send a ps] }) ∧
    (∀ n ps, e.payload = .synth n ps → perform e = { calls := [.create n ps] }) ∧
    (∀ id params kw args, e.payload = .action (.a (.fn id params kw)) args →
      (kw = true ∨ ∀ kv ∈ args, kv.1 ∈ params) →
      perform e = { calls := [.action (.a (.fn id params kw)) args] }) := by
  refine ⟨?_, ?_, ?_, ?_, ?_⟩
  · intro c v ch hp; simp [perform, ha, hp]
  · intro p ch hp; simp [perform, ha, hp]
  · intro a ps hp; simp [perform, ha, hp]
  · intro n ps hp; simp [perform, ha, hp]
  · intro id params kw args hp hargs
    simp only [perform, ha, hp, performAction, Bool.not_true, Bool.false_eq_true, if_false]
    have : (kw || args.all fun kv => params.contains kv.1) = true := by
      rcases hargs with hk | hall
      · simp [hk]
      · rw [Bool.or_eq_true]
        right
        rw [List.all_eq_true]
        intro kv hkv
        simpa using hall kv hkv
    rw [this]
    rfl

example : (resolve [("control", .int 7), ("value", .int 100), ("channel", .int 3), ("note", .int 60)] []).toOption.map perform
    = some { calls := [.control (.int 7) (.int 100) (.int 3)] } := by decide +kernel
example : (resolve [("action", .a (.fn 1 ["a"] false)), ("args", .dict [("a", .int 5)])] []).toOption.map perform
    = some { calls := [.action (.a (.fn 1 ["a"] false)) [("a", .int 5)]] } := by decide +kernel
example : (resolve [("action", .a (.fn 1 [] true)), ("args", .dict [("zz", .int 5)])] []).toOption.map perform
    = some { calls := [.action (.a (.fn 1 [] true)) [("zz", .int 5)]] } := by decide +kernel

/-- where the arguments of those calls come from: the event's own keys; the channel by the usual precedence. -/
theorem resolved_arguments (d ov : Dict) (e : Event) (h : resolve d ov = .ok e) :
    (∀ c v ch, e.payload = .control c v ch →
      d.get "control" = some c ∧ d.get "value" = some v ∧ specField d ov "channel" = some ch) ∧
    (∀ p ch, e.payload = .program p ch → d.get "program_change" = some p ∧ specField d ov "channel" = some ch) ∧
    (∀ a ps, e.payload = .osc a ps → d.get "osc_address" = some a ∧
      ((d.get "osc_params" = none ∧ ps = .dict []) ∨ ∃ p, d.get "osc_params" = some p ∧ oscParams p = .ok ps)) ∧
    (∀ n ps, e.payload = .synth n ps → d.get "synth" = some n ∧
      ((d.get "params" = none ∧ ps = .dict []) ∨ d.get "params" = some ps)) ∧
    (∀ fn args, e.payload = .action fn args → d.get "action" = some fn ∧
      ((d.get "args" = none ∧ args = []) ∨ d.get "args" = some (.dict args))) := by
  obtain ⟨_, _, p, hpitch, he⟩ := resolve_ok d ov e h
  have hpay := (specEvent_ok _ e he).1
  have hplain : ∀ k ∈ ["control", "value", "program_change", "osc_address", "osc_params", "synth", "params", "action", "args"],
      specFinal d ov p k = d.get k := by
    intro k hk
    have hnl : k ∉ libraryDefaults.map (·.1) := by
      rw [libraryDefaults_keys]
      simp only [List.mem_cons, List.not_mem_nil, or_false] at hk
      rcases hk with rfl | rfl | rfl | rfl | rfl | rfl | rfl | rfl | rfl <;> decide
    have h1 : k ≠ "note" := by
      simp only [List.mem_cons, List.not_mem_nil, or_false] at hk
      rcases hk with rfl | rfl | rfl | rfl | rfl | rfl | rfl | rfl | rfl <;> decide
    have h2 : k ≠ "amplitude" := by intro e; subst e; exact hnl (by rw [libraryDefaults_keys]; decide)
    have h3 : k ≠ "gate" := by intro e; subst e; exact hnl (by rw [libraryDefaults_keys]; decide)
    unfold specFinal
    rw [finalOf_other _ _ _ h1 h2 h3, specField_plain d ov k hnl]
  have hchan : specFinal d ov p "channel" = specField d ov "channel" := by
    unfold specFinal
    exact finalOf_other _ _ _ (by decide) (by decide) (by decide)
  refine ⟨?_, ?_, ?_, ?_, ?_⟩
  · intro c v ch hp
    rw [hp] at hpay
    obtain ⟨_, _, h1, h2, h3⟩ := specPayload_control _ _ _ _ hpay
    rw [hplain _ (by decide)] at h1 h2
    rw [hchan] at h3
    exact ⟨h1, h2, h3⟩
  · intro pr ch hp
    rw [hp] at hpay
    obtain ⟨_, _, _, h1, h2⟩ := specPayload_program _ _ _ hpay
    rw [hplain _ (by decide)] at h1
    rw [hchan] at h2
    exact ⟨h1, h2⟩
  · intro a ps hp
    rw [hp] at hpay
    obtain ⟨_, _, _, _, h1, h2⟩ := specPayload_osc _ _ _ hpay
    rw [hplain _ (by decide)] at h1 h2
    exact ⟨h1, h2⟩
  · intro n ps hp
    rw [hp] at hpay
    obtain ⟨_, _, _, _, _, h1, h2⟩ := specPayload_synth _ _ _ hpay
    rw [hplain _ (by decide)] at h1 h2
    refine ⟨h1, ?_⟩
    rcases h2 with h2 | ⟨h2, _⟩
    · exact Or.inl h2
    · exact Or.inr h2
  · intro fn args hp
    rw [hp] at hpay
    obtain ⟨h1, h2⟩ := specPayload_action _ _ _ hpay
    rw [hplain _ (by decide)] at h1 h2
    exact ⟨h1, h2⟩

example : resolve [("program_change", .int 5)] [("channel", .int 9)]
    = .ok { payload := .program (.int 5) (.int 9), duration := .int 1, active := .bool true } := by decide +kernel

/-! ### the voices of a note event -/

/-- one voice: it takes ITS amplitude, channel and gate (the i-th of a tuple, else the common value); it sounds
    iff amplitude and gate are positive (`None` counts as not positive); the note-on carries (note, amplitude,
    channel) and the note-off is due `duration × gate` beats later on the same (note, channel). -/
theorem voice_sounds (duration amplitude gate channel : Val) (i : Nat) (note : Atom) (a g c len : Val) (pa pg : Bool)
    (ha : pick amplitude i = .ok a) (hc : pick channel i = .ok c) (hg : pick gate i = .ok g)
    (hpa : positive a = .ok pa) (hpg : positive g = .ok pg) (hl : mulVal duration g = .ok len) :
    voice duration amplitude gate channel i note
      = .ok { calls := if pa && pg then [.noteOn (.a note) a c, .noteOffAfter len (.a note) c] else [], channel := c } := by
  unfold voice
  simp only [ha, hc, hg, hpa, hpg, hl, ok_bind, bind_pure_comp]
  cases pa <;> cases pg <;> rfl

example : voice (.flt (1/2)) (.int 90) (.tup [.flt (1/2), .int 1, .int 0]) (.tup [.int 1, .int 2, .int 3]) 0 (.int 51)
    = .ok { calls := [.noteOn (.int 51) (.int 90) (.int 1), .noteOffAfter (.flt (1/4)) (.int 51) (.int 1)], channel := .int 1 } := by
  decide +kernel
example : pick (.tup [.int 1, .int 2]) 1 = .ok (.int 2) ∧ pick (.int 7) 5 = .ok (.int 7) ∧ pick (.tup [.int 1]) 1 = .error .indexError := by
  decide

/-- a note event (audible amplitude, no pitch bend) whose voices are all well-formed performs exactly the calls
    of its voices, in chord order — nothing else, and each voice exactly once. -/
theorem note_voices (duration amplitude gate channel : Val) (notes : List Atom) (vs : List Voice) (e : Event)
    (hact : truthy e.active = true) (hd : e.duration = duration)
    (hp : e.payload = .note (.list notes) amplitude gate channel .none)
    (haud : audible amplitude = .ok true)
    (hlen : notes.length = vs.length)
    (h : ∀ j (hj : j < notes.length), voice duration amplitude gate channel j notes[j] = .ok (vs[j]'(hlen ▸ hj))) :
    perform e = { calls := (vs.map (·.calls)).flatten } := by
  have hl := voiceLoop_all_ok duration amplitude gate channel notes vs 0
    { calls := [], channel := none, err := none } rfl hlen (by intro j hj; simpa using h j hj)
  simp only [perform, hact, Bool.not_true, Bool.false_eq_true, if_false, hp, performNote, hd, haud, notesOf, afterLoop,
    withBend, hl.1, hl.2, List.nil_append]

example : audible (.tup [.int 0, .int 5]) = .ok true ∧ audible (.int 64) = .ok true ∧ audible (.int 0) = .ok false := by decide
example : (resolve exChord []).toOption.map perform = some { calls := [
    .noteOn (.int 51) (.int 90) (.int 1), .noteOffAfter (.flt (1/4)) (.int 51) (.int 1),
    .noteOn (.int 46) (.int 90) (.int 2), .noteOffAfter (.flt (1/2)) (.int 46) (.int 2)] } := by decide +kernel

/-! ### arguments are resolved once per event -/

/-- what `Event.__init__` does with patterns is: pass every timeline default through `Pattern.value` (the
    defaults then stand as `pulledDefaults`), read the dictionary against those values exactly as `resolve`
    does, and pass the action arguments through `Pattern.value`. -/
theorem event_init_is_resolve (env : PatEnv) (cur : Cursor) (d ov : Dict) :
    eventInit env cur d ov =
      (checkKeys d >>= fun _ => resolve d (pulledDefaults env cur ov) >>= fun e =>
        .ok ({ e with payload := (pullPayload env e.payload (pullDefaults env (effectiveDefaults ov) cur).2).1 },
             (pullPayload env e.payload (pullDefaults env (effectiveDefaults ov) cur).2).2)) := by
  unfold eventInit resolve
  rw [effectiveDefaults_pulled]
  rfl

example : (eventInit (fun _ i => .int (10 * (i + 1))) (fun _ => 0) [("note", .int 60)] [("amplitude", .a (.pat 1))]).toOption.map (·.1)
    = (resolve [("note", .int 60)] [("amplitude", .int 10)]).toOption := by decide +kernel

/-- every pattern object is advanced once per occurrence — among the timeline defaults (all of them, used or
    not) and, for an action event, among its arguments — and by nothing else: `perform` takes no cursor, so
    performing the event cannot advance a pattern, and the callable receives the values taken here. -/
theorem args_resolved_once (env : PatEnv) (cur cur' : Cursor) (d ov : Dict) (e : Event)
    (h : eventInit env cur d ov = .ok (e, cur')) :
    ∃ e0, resolve d (pulledDefaults env cur ov) = .ok e0 ∧
      e.payload = (pullPayload env e0.payload (pullDefaults env (effectiveDefaults ov) cur).2).1 ∧
      e.duration = e0.duration ∧ e.active = e0.active ∧
      ∀ id, cur' id = cur id + patCountVals id (effectiveDefaults ov) + patCountPayload id e0.payload := by
  rw [event_init_is_resolve] at h
  simp only [bind_eq_ok, Except.ok.injEq, Prod.mk.injEq] at h
  obtain ⟨_, _, e0, he0, hpe, hc⟩ := h
  refine ⟨e0, he0, ?_, ?_, ?_, ?_⟩
  · rw [← hpe]
  · rw [← hpe]
  · rw [← hpe]
  · intro id
    rw [← hc, pullPayload_cursor, pullDefaults_cursor]

/-- the pattern of the examples: pattern object 1 yields 10, 20, 30, ... -/
def exEnv : PatEnv := fun _ i => .int (10 * (i + 1))

example : (eventInit exEnv (fun _ => 0) [("action", .a (.fn 1 ["a", "b"] false)), ("args", .dict [("a", .pat 1), ("b", .pat 1)])]
      [("amplitude", .a (.pat 1))]).toOption.map (fun r => (r.1.payload, r.2 1))
    = some (.action (.a (.fn 1 ["a", "b"] false)) [("a", .int 20), ("b", .int 30)], 3) := by decide +kernel
example : patCountVals 1 (effectiveDefaults [("amplitude", .a (.pat 1))]) = 1 := by decide +kernel

/-- a dictionary that `Event.__init__` refuses is not played: the outcome of the track's step is the rejection
    (it carries no calls), and no later step of the same event happens. -/
theorem rejected_plays_nothing (env : PatEnv) (cur : Cursor) (d ov : Dict) (err : Err)
    (hk : checkKeys d = .error err ∨ resolve d (pulledDefaults env cur ov) = .error err) :
    (trackEvent env cur d ov).1 = .rejected err := by
  unfold trackEvent
  rw [event_init_is_resolve]
  rcases hk with hk | hk
  · rw [hk]; rfl
  · cases hc : checkKeys d with
    | error x =>
      -- the key check fails first: then `resolve` reports the same ValueError
      have : resolve d (pulledDefaults env cur ov) = .error x := by
        unfold resolve resolveWith
        rw [hc]; rfl
      rw [this] at hk
      cases hk
      rfl
    | ok u => rw [hk]; rfl

example : (trackEvent exEnv (fun _ => 0) [("note", .int 60), ("degree", .int 1)] []).1 = .rejected .invalidEventException := by
  decide +kernel
example : (trackEvent exEnv (fun _ => 0) [("note", .int 60), ("pitch", .int 1)] []).1 = .rejected .valueError :=
  rejected_plays_nothing _ _ _ _ _ (Or.inl (by decide +kernel))

/-- the two generated renderings of `Scale.dict` (rows, and names as character lists) are aligned, so a key given
    by name gets the scale of that name. -/
theorem scale_names_aligned : Generated.scaleNameChars = Generated.scaleTable.map (·.name.toList) := by decide +kernel

example : scaleByName ['p', 'u', 'r', 'e', 'm', 'i', 'n', 'o', 'r'] = some { semitones := [0, 3, 7], octave := 12 } := by decide +kernel

/-! ### silent note events send nothing (the clause C02 shares with this model; fix "pitch bend only with a played note") -/

/-- a voice makes either no call or a note-on followed by its scheduled note-off. -/
theorem voice_calls (duration amplitude gate channel : Val) (index : Nat) (note : Atom) (v : Voice)
    (h : voice duration amplitude gate channel index note = .ok v) :
    v.calls = [] ∨ ∃ amp chan len, v.calls = [.noteOn (.a note) amp chan, .noteOffAfter len (.a note) chan] := by
  unfold voice at h
  simp only [bind, Except.bind, pure, Except.pure] at h
  repeat' split at h
  all_goals (cases h <;> first | exact Or.inl rfl | exact Or.inr ⟨_, _, _, rfl⟩)

/-- the calls of the voice loop: whatever was there, then per voice nothing or note-on + note-off; if it added
    anything, it added a note-on. -/
theorem voiceLoop_calls (duration amplitude gate channel : Val) (notes : List Atom) :
    ∀ (index : Nat) (acc : Loop),
      ∃ added, (voiceLoop duration amplitude gate channel notes index acc).calls = acc.calls ++ added ∧
        (added = [] ∨ ∃ n a c, Call.noteOn n a c ∈ added) ∧ ∀ v ch, Call.pitchBend v ch ∉ added := by
  induction notes with
  | nil => intro index acc; exact ⟨[], by simp [voiceLoop], Or.inl rfl, by simp⟩
  | cons note rest ih =>
    intro index acc
    simp only [voiceLoop]
    cases hv : voice duration amplitude gate channel index note with
    | error e => exact ⟨[], by simp, Or.inl rfl, by simp⟩
    | ok v =>
      obtain ⟨added, h1, h2, h3⟩ := ih (index + 1) { calls := acc.calls ++ v.calls, channel := some v.channel, err := Option.none }
      refine ⟨v.calls ++ added, by simp only [h1, List.append_assoc], ?_, ?_⟩
      · rcases voice_calls _ _ _ _ _ _ _ hv with hc | ⟨amp, chan, len, hc⟩
        · rw [hc]; simpa using h2
        · right; exact ⟨.a note, amp, chan, List.mem_append.mpr (Or.inl (by rw [hc]; simp))⟩
      · intro x ch hmem
        rcases List.mem_append.mp hmem with hm | hm
        · rcases voice_calls _ _ _ _ _ _ _ hv with hc | ⟨amp, chan, len, hc⟩
          · rw [hc] at hm; simp at hm
          · rw [hc] at hm; simp at hm
        · exact h3 x ch hm

/-- **A note event that plays no voice sends nothing at all; a pitch bend goes out only together with a note-on**
    (rests, zero amplitude, zero gate — scalar or per voice — produce no message, whatever other keys the event has). -/
theorem withBend_calls (l : Loop) (pb : Val) :
    (withBend l pb).calls = l.calls ∨ (l.calls ≠ [] ∧ ∃ ch, (withBend l pb).calls = l.calls ++ [.pitchBend pb ch]) := by
  unfold withBend
  split
  · exact Or.inl rfl
  · split
    · exact Or.inl rfl
    · rename_i hne
      split
      · right
        refine ⟨?_, _, rfl⟩
        intro he; apply hne; rw [he]; rfl
      · exact Or.inl rfl

theorem afterLoop_calls (l : Loop) (pb : Val) :
    (afterLoop l pb).calls = l.calls ∨ (l.calls ≠ [] ∧ ∃ ch, (afterLoop l pb).calls = l.calls ++ [.pitchBend pb ch]) := by
  unfold afterLoop
  split
  · exact Or.inl rfl
  · exact withBend_calls l pb

theorem pitch_bend_only_with_a_note_on (duration note amplitude gate channel pitchbend : Val) (v ch : Val)
    (h : Call.pitchBend v ch ∈ (performNote duration note amplitude gate channel pitchbend).calls) :
    ∃ n a c, Call.noteOn n a c ∈ (performNote duration note amplitude gate channel pitchbend).calls := by
  unfold performNote at h ⊢
  split at h
  · simp at h
  · simp at h
  · rename_i ha
    split at h
    · simp at h
    · rename_i notes hn
      obtain ⟨added, h1, h2, h3⟩ := voiceLoop_calls duration amplitude gate channel notes 0
        { calls := [], channel := Option.none, err := Option.none }
      simp only [List.nil_append] at h1
      generalize voiceLoop duration amplitude gate channel notes 0 { calls := [], channel := Option.none, err := Option.none } = l at h h1 ⊢
      rcases afterLoop_calls l pitchbend with hc | ⟨hne, ch', hc⟩
      · rw [hc, h1] at h
        exact absurd h (h3 v ch)
      · rw [hc]
        rcases h2 with h2 | ⟨n, a, c, h2⟩
        · exact absurd (h1.trans h2) hne
        · exact ⟨n, a, c, List.mem_append.mpr (Or.inl (by rw [h1]; exact h2))⟩

/-- **An event none of whose voices sounds sends nothing**: if the voice loop made no call (every voice a rest,
    zero amplitude or zero gate), the whole note event makes none — whatever its pitch bend. -/
theorem silent_note_sends_nothing (l : Loop) (pitchbend : Val) (h : l.calls = []) : (afterLoop l pitchbend).calls = [] := by
  rcases afterLoop_calls l pitchbend with hc | ⟨hne, _, _⟩
  · rw [hc, h]
  · exact absurd h hne

end IsobarV.C03
