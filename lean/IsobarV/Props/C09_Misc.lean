/-
C09 — stickiness of StopIteration for the misc group.

`ClsSticky` (for ALL own states) holds for `PLSystem`, `PDict` (both forms), constants of patterns and tuples
containing patterns.  `PDictKey` over a PATTERN of dicts (register n0 = 0) is sticky: it ends with its dict or its
key.  `PDictKey` over a plain dict whose values are patterns is a selector (like `PArrayIndex`: with another key it
may yield again after an exhausted value) and is sticky in its key only (`dictKey_plain_key_final`); the lifting
theorem is instantiated with the state invariant "n0 = 0" on `dictKey` nodes (`sticky_stepF_I` of C09_Seq2).
-/
import IsobarV.Props.C09_Seq2

namespace IsobarV.C09Misc
open IsobarV.Pat IsobarV.C09

/-! ### PLSystem -/

/-- A scan that ends in StopIteration has read the string to its end. -/
theorem lsysScan_stop_pos (ts : List Char) : ∀ (pos : Nat) (s : Int) (stk : List Val),
    (lsysScan ts pos s stk).out = .stop → (lsysScan ts pos s stk).pos = pos + ts.length := by
  induction ts with
  | nil => intro pos s stk _; simp [lsysScan]
  | cons c ts ih =>
    intro pos s stk
    simp only [lsysScan, List.length_cons]
    repeat' split
    all_goals first
      | (intro h; simp at h; done)
      | (intro h; have := ih _ _ _ h; omega)

/-- `PLSystem`: StopIteration means `pos` has reached the end of the string, where it stays (also with `loop=True`:
    the flag only reacts to rest tokens). -/
theorem lsystem_sticky : ClsSticky .lsystem := by
  intro P rec kids st _ hk
  have hc : clsStep .lsystem = stepLsystem := rfl
  rw [hc]
  have hkids : ∀ kids st, (stepLsystem rec kids st).kids = kids := by
    intro kids st; simp only [stepLsystem]; split <;> rfl
  refine ⟨by rw [hkids]; exact hk, fun hs => ?_⟩
  let I : List Pat → St → Prop := fun _ st => (lsysTokens st).length ≤ st.n2.toNat
  have htok : ∀ (st : St) (r : LsysRes), lsysTokens (lsysSt st r) = lsysTokens st := fun _ _ => rfl
  have hn2 : ∀ (st : St) (r : LsysRes), (lsysSt st r).n2.toNat = r.pos := by
    intro st r; simp [lsysSt]
  have hd : I (stepLsystem rec kids st).kids (stepLsystem rec kids st).st := by
    by_cases hcnd : (lsysFirst st).out = .val Val.none ∧ st.n1 ≠ 0
    · simp only [stepLsystem, if_pos hcnd] at hs ⊢
      show (lsysTokens (lsysSt st (lsysAgain st))).length ≤ (lsysSt st (lsysAgain st)).n2.toNat
      rw [htok, hn2]
      have := lsysScan_stop_pos (lsysTokens st) 0 0 [] hs
      unfold lsysAgain
      omega
    · simp only [stepLsystem, if_neg hcnd] at hs ⊢
      show (lsysTokens (lsysSt st (lsysFirst st))).length ≤ (lsysSt st (lsysFirst st)).n2.toNat
      rw [htok, hn2]
      have := lsysScan_stop_pos ((lsysTokens st).drop st.n2.toNat) st.n2.toNat st.n3 st.buf hs
      unfold lsysFirst
      rw [this, List.length_drop]
      omega
  intro n
  apply clsOuts_noVal stepLsystem rec I _ n _ _ hd
  intro kids st h
  have hdrop : (lsysTokens st).drop st.n2.toNat = [] := List.drop_eq_nil_of_le h
  have hf : lsysFirst st = { out := .stop, pos := st.n2.toNat, state := st.n3, stack := st.buf } := by
    unfold lsysFirst; rw [hdrop]; rfl
  have hcnd : ¬ ((lsysFirst st).out = .val Val.none ∧ st.n1 ≠ 0) := by rw [hf]; simp
  simp only [stepLsystem, if_neg hcnd]
  refine ⟨by rw [hf]; exact noVal_stop, ?_⟩
  show (lsysTokens (lsysSt st (lsysFirst st))).length ≤ (lsysSt st (lsysFirst st)).n2.toNat
  rw [htok, hn2, hf]
  exact h

/-! ### Resolving a list of patterns -/

theorem stepAll_P {P : Pat → Prop} {rec : Rec} (hrec : RecSticky P rec) (kids : List Pat) (hk : ∀ k ∈ kids, P k) :
    ∀ k ∈ (stepAll rec kids).kids, P k := by
  induction kids with
  | nil => simp [stepAll]
  | cons k ks ih =>
    have h1 := (hrec k (hk k (by simp))).1
    have hks : ∀ x ∈ ks, P x := fun x hx => hk x (by simp [hx])
    simp only [stepAll]
    split
    · intro x hx
      simp only [List.mem_cons] at hx
      rcases hx with rfl | hx
      · exact h1
      · exact ih hks x hx
    · intro x hx
      simp only [List.mem_cons] at hx
      rcases hx with rfl | hx
      · exact h1
      · exact hks x hx
    · intro x hx
      simp only [List.mem_cons] at hx
      rcases hx with rfl | hx
      · exact h1
      · exact hks x hx

/-- Once one of the patterns is dead, resolving the list never succeeds again, and that pattern stays dead. -/
theorem stepAll_dead {rec : Rec} (kids : List Pat) : ∀ (i : Nat), DeadAt rec kids i →
    (∃ o, (stepAll rec kids).fail = some o ∧ NoVal o) ∧ DeadAt rec (stepAll rec kids).kids i := by
  induction kids with
  | nil => intro i h; obtain ⟨k, hk, _⟩ := h; simp at hk
  | cons k ks ih =>
    intro i h
    cases i with
    | zero =>
      obtain ⟨k', hk', hd⟩ := h
      simp only [List.getElem?_cons_zero, Option.some.injEq] at hk'
      subst hk'
      obtain ⟨d1, d2⟩ := hd.step
      simp only [stepAll]
      split
      · rename_i x hx; exact absurd hx (d1 _)
      · rename_i xs hx; exact absurd hx (d1 _)
      · exact ⟨⟨_, rfl, d1⟩, ⟨(rec k).p, by simp, d2⟩⟩
    | succ j =>
      have hj : DeadAt rec ks j := by
        obtain ⟨k', hk', hd⟩ := h
        exact ⟨k', by simpa using hk', hd⟩
      simp only [stepAll]
      split
      · obtain ⟨i1, k', hk', hd⟩ := ih j hj
        exact ⟨i1, ⟨k', by simpa using hk', hd⟩⟩
      · obtain ⟨k', hk', hd⟩ := hj
        exact ⟨⟨_, rfl, noVal_err _⟩, ⟨k', by simpa using hk', hd⟩⟩
      · rename_i h1 h2
        obtain ⟨k', hk', hd⟩ := hj
        refine ⟨⟨_, rfl, ?_⟩, ⟨k', by simpa using hk', hd⟩⟩
        intro v hv
        cases v with
        | a x => exact h1 x hv
        | tup xs => exact h2 xs hv

/-- When resolving the list ends in StopIteration, the pattern that raised it is dead from then on. -/
theorem stepAll_stop_dead {P : Pat → Prop} {rec : Rec} (hrec : RecSticky P rec) (kids : List Pat)
    (hk : ∀ k ∈ kids, P k) (hs : (stepAll rec kids).fail = some .stop) : ∃ i, DeadAt rec (stepAll rec kids).kids i := by
  induction kids with
  | nil => simp [stepAll] at hs
  | cons k ks ih =>
    have hks : ∀ x ∈ ks, P x := fun x hx => hk x (by simp [hx])
    simp only [stepAll] at hs ⊢
    split at hs
    · obtain ⟨i, k', hk', hd⟩ := ih hks hs
      exact ⟨i + 1, k', by simpa using hk', hd⟩
    · simp at hs
    · rename_i h1 h2
      simp only [Option.some.injEq] at hs
      have hd := (hrec k (hk k (by simp))).2 hs
      exact ⟨0, (rec k).p, by simp, hd⟩

theorem tuple_sticky (c : Cls) (hc : clsStep c = stepTuple) : ClsSticky c := by
  intro P rec kids st hrec hk
  rw [hc]
  have hkids : ∀ kids st, (stepTuple rec kids st).kids = (stepAll rec kids).kids := by
    intro kids st; simp only [stepTuple]; split <;> rfl
  refine ⟨by rw [hkids]; exact stepAll_P hrec kids hk, fun hs => ?_⟩
  have hfail : (stepAll rec kids).fail = some .stop := by
    simp only [stepTuple] at hs
    split at hs
    · rename_i o ho; simp only at hs; rw [ho, hs]
    · simp at hs
  have hd : ∃ i, DeadAt rec (stepTuple rec kids st).kids i := by
    rw [hkids]; exact stepAll_stop_dead hrec kids hk hfail
  intro n
  apply clsOuts_noVal stepTuple rec (fun kids _ => ∃ i, DeadAt rec kids i) _ n _ _ hd
  intro kids st ⟨i, h⟩
  obtain ⟨⟨o, ho, hn⟩, h2⟩ := stepAll_dead kids i h
  refine ⟨?_, ⟨i, by rw [hkids]; exact h2⟩⟩
  simp only [stepTuple, ho]
  exact hn

/-- **`PDict`: StopIteration of any value ends the stream for good** (either constructor form). -/
theorem dict_sticky : ClsSticky .dict := tuple_sticky _ rfl
/-- A tuple containing patterns ends for good with the first of them that ends. -/
theorem tupP_sticky : ClsSticky .tupP := tuple_sticky _ rfl

/-- A constant of a pattern ends (as seen through `Pattern.value`) when the pattern does. -/
theorem constP_sticky : ClsSticky .constP := by
  intro P rec kids st hrec hk
  refine ⟨stepKid_P hrec kids 0 hk, fun hs => ?_⟩
  have hd : DeadAt rec (stepKid rec kids 0).2 0 := stepKid_stop_dead hrec hk hs
  intro n
  apply clsOuts_noVal (clsStep .constP) rec (fun kids _ => DeadAt rec kids 0) _ n _ _ hd
  intro kids st h
  exact h.step

/-! ### PDictKey -/

theorem dictLookup_ne_stop (keys : List Val) (xs : List Atom) (key : Val) : dictLookup keys xs key ≠ .stop := by
  unfold dictLookup
  (repeat' split) <;> simp

theorem stepDictKey_st (rec : Rec) (kids : List Pat) (st : St) : (stepDictKey rec kids st).st = st := by
  simp only [stepDictKey]
  (repeat' split) <;> rfl

/-- **`PDictKey` over a pattern of dicts ends for good with its dict or its key.** -/
theorem dictKey_sticky : ClsStickyI (fun st => st.n0 = 0) .dictKey := by
  intro P rec kids st hrec hk h0
  have hc : clsStep .dictKey = stepDictKey := rfl
  rw [hc]
  refine ⟨by rw [stepDictKey_st]; exact h0, ?_, ?_⟩
  · have a1 := stepKid_P hrec kids 1 hk
    have b1 := stepKid_P hrec _ 0 a1
    simp only [stepDictKey, if_pos h0]
    split
    · split
      · split <;> exact b1
      · exact b1
    · exact a1
  · intro hs
    let J : List Pat → St → Prop := fun kids st => st.n0 = 0 ∧ (DeadAt rec kids 0 ∨ DeadAt rec kids 1)
    have hd : J (stepDictKey rec kids st).kids (stepDictKey rec kids st).st := by
      refine ⟨by rw [stepDictKey_st]; exact h0, ?_⟩
      simp only [stepDictKey, if_pos h0] at hs ⊢
      split at hs
      · rename_i d hdv
        split at hs
        · rename_i key _
          split at hs
          · exact absurd hs (dictLookup_ne_stop _ _ _)
          · simp at hs
        · rename_i o _ hb
          left
          have hb' : (stepKid rec (stepKid rec kids 1).2 0).1 = .stop := by simpa using hs
          have := stepKid_stop_dead hrec (stepKid_P hrec kids 1 hk) hb'
          cases hx : (stepKid rec (stepKid rec kids 1).2 0).1 <;> simp_all
      · right
        have ha' : (stepKid rec kids 1).1 = .stop := by simpa using hs
        have := stepKid_stop_dead hrec hk ha'
        cases hx : (stepKid rec kids 1).1 <;> simp_all
    intro n
    apply clsOuts_noVal stepDictKey rec J _ n _ _ hd
    intro kids st ⟨h0, h⟩
    refine ⟨?_, by rw [stepDictKey_st]; exact h0, ?_⟩
    · rcases h with h | h
      · have h1 : DeadAt rec (stepKid rec kids 1).2 0 := h.other (by decide)
        obtain ⟨n1, _⟩ := h1.step
        simp only [stepDictKey, if_pos h0]
        split
        · split
          · rename_i key hkey; exact absurd hkey (n1 key)
          · rename_i o _ ho; simpa using n1
        · rename_i o _ ho
          intro v hv; exact ho v (by simpa using hv)
      · obtain ⟨n1, _⟩ := h.step
        simp only [stepDictKey, if_pos h0]
        split
        · rename_i d hdv; exact absurd hdv (n1 d)
        · simpa using n1
    · rcases h with h | h
      · have h1 : DeadAt rec (stepKid rec kids 1).2 0 := h.other (by decide)
        obtain ⟨n1, n2⟩ := h1.step
        simp only [stepDictKey, if_pos h0]
        split
        · split
          · rename_i key hkey; exact absurd hkey (n1 key)
          · exact Or.inl n2
        · exact Or.inl h1
      · obtain ⟨n1, n2⟩ := h.step
        simp only [stepDictKey, if_pos h0]
        split
        · rename_i d hdv; exact absurd hdv (n1 d)
        · exact Or.inr n2

/-- `PDictKey` over a plain dict: once the KEY pattern has ended no later step yields a value (the values of the
    dict are selected by the key: an exhausted value does not end the lookup, by design). -/
theorem dictKey_plain_key_final (rec : Rec) (kids : List Pat) (st : St) (h1 : st.n0 ≠ 0) (hd : DeadAt rec kids 0) :
    ∀ n, ∀ o ∈ clsOuts stepDictKey rec n kids st, NoVal o := by
  intro n
  apply clsOuts_noVal stepDictKey rec (fun kids st => st.n0 ≠ 0 ∧ DeadAt rec kids 0) _ n _ _ ⟨h1, hd⟩
  intro kids st ⟨h1, hd⟩
  obtain ⟨n1, n2⟩ := hd.step
  refine ⟨?_, by rw [stepDictKey_st]; exact h1, ?_⟩
  · simp only [stepDictKey, if_neg h1]
    split
    · rename_i k hk; exact absurd hk (n1 _)
    · rename_i xs hk; exact absurd hk (n1 _)
    · simpa using n1
  · simp only [stepDictKey, if_neg h1]
    split
    · rename_i k hk; exact absurd hk (n1 _)
    · rename_i xs hk; exact absurd hk (n1 _)
    · exact n2

/-! ### The group -/

/-- Classes of this group that are sticky for all own states. -/
def MiscSticky (c : Cls) : Prop := c = .lsystem ∨ c = .dict ∨ c = .constP ∨ c = .tupP

theorem misc_sticky (c : Cls) (h : MiscSticky c) : ClsSticky c := by
  unfold MiscSticky at h
  rcases h with h | h | h | h <;> subst h
  · exact lsystem_sticky
  · exact dict_sticky
  · exact constP_sticky
  · exact tupP_sticky

/-- State invariant of this group: a `dictKey` node looks up a PATTERN of dicts. -/
def miscInv (c : Cls) (st : St) : Prop := c = .dictKey → st.n0 = 0

theorem misc_stickyI (c : Cls) (h : c = .dictKey ∨ MiscSticky c ∨ StickyCore c) : ClsStickyI (miscInv c) c := by
  rcases h with h | h
  · subst h
    intro P rec kids st hrec hk hinv
    obtain ⟨a, b, d⟩ := dictKey_sticky P rec kids st hrec hk (hinv rfl)
    exact ⟨fun _ => a, b, d⟩
  · have hs : ClsSticky c := by
      rcases h with h | h
      · exact misc_sticky c h
      · exact core_sticky c h
    have hne : c ≠ .dictKey := by
      rcases h with h | h
      · unfold MiscSticky at h
        rcases h with h | h | h | h <;> subst h <;> decide
      · unfold StickyCore at h
        rcases h with h | h | h | h | h | h | h | h | h | h | h | h | h | h | h | h | h | h | h | h | h <;> subst h <;> decide
    intro P rec kids st hrec hk _
    exact ⟨fun hc => absurd hc hne, (hs P rec kids st hrec hk).1, (hs P rec kids st hrec hk).2⟩

/-- **C09 for the misc group**: in any expression built from L-systems, dicts (either form), key lookups in a
    pattern of dicts, constants of patterns, tuples containing patterns and the sticky core classes, nested to any
    depth, once `next()` has raised StopIteration no later `next()` yields a value. -/
theorem sticky_misc (fuel : Nat) (p : Pat)
    (hp : AllNodes (fun c => c = .dictKey ∨ MiscSticky c ∨ StickyCore c) miscInv p)
    (hstop : (stepF fuel p).out = .stop) : ∀ n, ∀ o ∈ outs fuel n (stepF fuel p).p, NoVal o :=
  (sticky_stepF_I misc_stickyI fuel p hp).2 hstop

/-! Non-vacuity -/
section Example
def cI (i : Int) : Pat := Pat.const (.int i)
def sqI (xs : List Int) (rep : Int) : Pat := .node .seq (xs.map cI) { n0 := rep }
/-- `PDictKey(PDict({"a": PSequence([1, 2], 1), "b": PLSystem("N+N", 2, True)}), "b")` -/
def ex : Pat := .node .dictKey [Pat.const (.str "b"),
  .node .dict [sqI [1, 2] 1, .node .lsystem [] { v0 := .str "N+N", n0 := 2, n1 := 1 }] { buf := [.str "a", .str "b"] }]
  { n0 := 0, buf := [.str "a", .str "b"] }
example : outs 10 5 ex = [.val (.int 0), .val (.int 1), .stop, .stop, .stop] := by decide
example : outs 10 7 (.node .lsystem [] { v0 := .str "N+N", n0 := 2, n1 := 1 }) =
    [.val (.int 0), .val (.int 1), .val (.int 2), .val (.int 3), .stop, .stop, .stop] := by decide
example : (nextn 10 9 ex).vals = [.int 0, .int 1] ∧ (len 10 100 ex).1 = some 2 := by decide
/-- the plain-dict form is a selector: `PDictKey({"a": PSequence([1], 1), "b": 7}, PSequence(["a", "a", "b"]))` -/
example : outs 10 4 (.node .dictKey [.node .seq [Pat.const (.str "a"), Pat.const (.str "a"), Pat.const (.str "b")] { n0 := -1 },
    sqI [1] 1, cI 7] { n0 := 1, buf := [.str "a", .str "b"] }) = [.val (.int 1), .stop, .val (.int 7), .stop] := by decide
end Example

end IsobarV.C09Misc
