/-
C07 / C17 over whole runs — the multi-tick form of non-interference and of fault isolation.

`C07.non_interference` is about one tick.  Here the statement is lifted to any number of consecutive
ticks: what the timeline does besides its tracks (the time, the queue of pending starts) evolves
independently of the tracks (`Frame`), every track follows a trajectory of its own (`alone`) which is
a function of that track and the frame only, and the device calls of every tick are, phase by phase
and in scheduling order, the concatenation of what each track does on its own trajectory — which is
literally what the timeline holding that track alone does (`alone_is_the_solo_timeline`).
-/
import IsobarV.Props.C12Names
import IsobarV.Sched.Multi

namespace IsobarV.C07
open IsobarV.Sched

/-- What a track sees of the timeline: tick length, time, pending start actions. -/
structure Frame where
  q : Nat
  now : Nat
  actions : List PAct
  deriving Repr

def Frame.due (f : Frame) (a : PAct) : Bool := a.time ≤ f.now * f.q
/-- One tick later: the time has advanced, the due starts are consumed. -/
def Frame.next (f : Frame) : Frame := { f with now := f.now + 1, actions := f.actions.filter (fun a => ! f.due a) }
def Frame.after (f : Frame) : Nat → Frame
  | 0 => f
  | n + 1 => (f.after n).next
def frameOf (tl : TL) : Frame := { q := tl.q, now := tl.now, actions := tl.actions }

/-- A track at the start of the event phase: its due note-offs released, its due starts applied. -/
def prep (f : Frame) (t : Track) : Track := applyStarts f.q (f.actions.filter f.due) (t.processOffs f.q)
/-- The track one tick later (none: finished and removed, or failed and removed). -/
def trackNext (W : World) (f : Frame) (t : Track) : Option Track := survivor W f.q (prep f t)
/-- Its device calls in the note-off phase of the tick … -/
def trackOffs (f : Frame) (t : Track) : List Call := offCalls (dueOffs f.q t)
/-- … and in the event phase. -/
def trackEvents (W : World) (f : Frame) (t : Track) : List Call := contribution W f.q (prep f t)

/-- The trajectory of one track: a function of the track, the world's streams and the frame only. -/
def alone (W : World) (f : Frame) : Nat → Track → Option Track
  | 0, t => some t
  | n + 1, t => (alone W f n t).bind (trackNext W (f.after n))

/-- `n` consecutive ticks of the timeline. -/
def ticks (W : World) : Nat → TL → TL
  | 0, tl => tl
  | n + 1, tl => (tickTL W (ticks W n tl)).tl

/-- The device calls of a tick in which the tracks `cur` are scheduled, if tracks do not interfere:
    all their note-offs in scheduling order, then all their events in scheduling order. -/
def mergedCalls (W : World) (f : Frame) (cur : List Track) : List Call :=
  (cur.map (trackOffs f)).flatten ++ (cur.map (trackEvents W f)).flatten

/-- The timeline `n` ticks later, if tracks do not interfere: the frame after `n` steps, the survivors of
    the tracks' own trajectories in scheduling order, every setting as it was. -/
def stateAfter (W : World) (tl : TL) (n : Nat) : TL :=
  { tl with now := ((frameOf tl).after n).now, actions := ((frameOf tl).after n).actions,
            tracks := tl.tracks.filterMap (alone W (frameOf tl) n) }

theorem Frame.after_q (f : Frame) (n : Nat) : (f.after n).q = f.q := by
  induction n with
  | zero => rfl
  | succ n ih => simpa [Frame.after, Frame.next] using ih

theorem stateAfter_q (W : World) (tl : TL) (n : Nat) : (stateAfter W tl n).q = tl.q := rfl
theorem stateAfter_tolerant (W : World) (tl : TL) (n : Nat) : (stateAfter W tl n).tolerant = tl.tolerant := rfl
theorem stateAfter_stopWhenDone (W : World) (tl : TL) (n : Nat) : (stateAfter W tl n).stopWhenDone = tl.stopWhenDone := rfl
theorem stateAfter_tracks (W : World) (tl : TL) (n : Nat) :
    (stateAfter W tl n).tracks = tl.tracks.filterMap (alone W (frameOf tl) n) := rfl

theorem frameOf_stateAfter (W : World) (tl : TL) (n : Nat) : frameOf (stateAfter W tl n) = (frameOf tl).after n := by
  have hq := Frame.after_q (frameOf tl) n
  have : frameOf (stateAfter W tl n) =
      { q := tl.q, now := ((frameOf tl).after n).now, actions := ((frameOf tl).after n).actions } := rfl
  rw [this]
  cases h : (frameOf tl).after n with
  | mk q now actions =>
    rw [h] at hq
    simp only [Frame.mk.injEq, and_true]
    exact hq.symm

theorem prepared_eq (tl : TL) : prepared tl = tl.tracks.map (prep (frameOf tl)) := by
  rw [prepared_pointwise]; rfl

theorem applyStarts_id (q : Nat) (as : List PAct) (t : Track) : (applyStarts q as t).id = t.id := by
  unfold applyStarts
  induction as generalizing t with
  | nil => rfl
  | cons a as ih => rw [List.foldl_cons, ih, startIf_id]

theorem trackNext_id {W : World} {f : Frame} {t u : Track} (h : trackNext W f t = some u) : u.id = t.id := by
  unfold trackNext survivor at h
  split at h
  · cases h
    rw [soloTick_id]
    unfold prep
    rw [applyStarts_id]; rfl
  · cases h

theorem nodup_filterMap_id (f : Track → Option Track) (hf : ∀ t u, f t = some u → u.id = t.id) (ts : List Track)
    (hnd : (ts.map Track.id).Nodup) : ((ts.filterMap f).map Track.id).Nodup ∧ ∀ u ∈ ts.filterMap f, u.id ∈ ts.map Track.id := by
  induction ts with
  | nil => simp
  | cons t ts ih =>
    simp only [List.map_cons, List.nodup_cons] at hnd
    obtain ⟨i1, i2⟩ := ih hnd.2
    cases hft : f t with
    | none =>
      simp only [List.filterMap_cons, hft]
      exact ⟨i1, fun u hu => by simp [i2 u hu]⟩
    | some u =>
      have hid := hf t u hft
      simp only [List.filterMap_cons, hft, List.map_cons, List.nodup_cons]
      refine ⟨⟨?_, i1⟩, ?_⟩
      · intro hmem
        obtain ⟨v, hv, hvid⟩ := List.mem_map.mp hmem
        apply hnd.1
        rw [← hid, ← hvid]
        exact i2 v hv
      · intro v hv
        simp only [List.mem_cons] at hv
        rcases hv with rfl | hv
        · simp [hid]
        · simp [i2 v hv]

/-- **One tick, all of it**: calls and the complete timeline state afterwards (no callbacks, durations
    of at least one unit, unique track identities, stop-when-done off; tolerant mode, or a world without
    faults). -/
theorem tick_is_merge (W : World) (hW : NoActions W) (hP : PosDur W) (tl : TL) (hnd : (tl.tracks.map Track.id).Nodup)
    (hmode : tl.tolerant = true ∨ Faultless W) (hs : tl.stopWhenDone = false) :
    (tickTL W tl).calls = mergedCalls W (frameOf tl) tl.tracks ∧
    (tickTL W tl).res = .ok ∧
    (tickTL W tl).tl = { tl with now := (frameOf tl).next.now, actions := (frameOf tl).next.actions,
                                  tracks := tl.tracks.filterMap (trackNext W (frameOf tl)) } := by
  have hdom : ∀ t ∈ prepared tl, (soloTick W tl.q t).out ≠ .diverged := fun t _ => soloTick_not_diverged W hP tl.q t
  have hmode' : tl.tolerant = true ∨ ∀ t ∈ prepared tl, (soloTick W tl.q t).out = .ok := by
    rcases hmode with h | h
    · exact Or.inl h
    · right
      intro t _
      have h1 := soloTick_not_diverged W hP tl.q t
      have h2 := soloTick_not_raised W h tl.q t
      cases hout : (soloTick W tl.q t).out with
      | ok => rfl
      | raised => exact absurd hout h2
      | diverged => exact absurd hout h1
  obtain ⟨n1, _⟩ := non_interference W hW tl hnd hdom hmode'
  obtain ⟨m1, m2, m3⟩ := event_phase_is_merge W tl.q tl.tolerant (prepared tl) hdom hmode'
  obtain ⟨r1, r2⟩ := tickTL_frame W hW tl hnd m3 hs
  refine ⟨?_, r1, ?_⟩
  · rw [n1, prepared_eq, List.map_map]
    rfl
  · rw [r2, m2, prepared_eq, List.filterMap_map]
    rfl

/-- **Non-interference over whole runs.**  After any number `n` of ticks the timeline's tracks are the
    survivors of the tracks' own trajectories, the rest of the timeline is the frame after `n` steps,
    and the calls of the next tick are the merge of what the tracks do on their own trajectories. -/
theorem run_is_merge (W : World) (hW : NoActions W) (hP : PosDur W) (tl : TL) (hnd : (tl.tracks.map Track.id).Nodup)
    (hmode : tl.tolerant = true ∨ Faultless W) (hs : tl.stopWhenDone = false) (n : Nat) :
    ticks W n tl = stateAfter W tl n ∧
    (tickTL W (ticks W n tl)).calls =
      mergedCalls W ((frameOf tl).after n) (tl.tracks.filterMap (alone W (frameOf tl) n)) ∧
    (tickTL W (ticks W n tl)).res = .ok := by
  have key : ∀ n, ticks W n tl = stateAfter W tl n ∧
      ((tl.tracks.filterMap (alone W (frameOf tl) n)).map Track.id).Nodup ∧
      (∀ t u, alone W (frameOf tl) n t = some u → u.id = t.id) := by
    intro n
    induction n with
    | zero =>
      refine ⟨?_, ?_, ?_⟩
      · simp [ticks, alone, Frame.after, frameOf, stateAfter]
      · simpa [alone] using hnd
      · intro t u h; simp only [alone, Option.some.injEq] at h; rw [h]
    | succ n ih =>
      obtain ⟨i1, i2, i3⟩ := ih
      have hfr : frameOf (ticks W n tl) = (frameOf tl).after n := by rw [i1]; exact frameOf_stateAfter W tl n
      have htol : (ticks W n tl).tolerant = tl.tolerant := by rw [i1]; rfl
      have hswd : (ticks W n tl).stopWhenDone = tl.stopWhenDone := by rw [i1]; rfl
      have htr : (ticks W n tl).tracks = tl.tracks.filterMap (alone W (frameOf tl) n) := by rw [i1]; rfl
      obtain ⟨_, _, t3⟩ := tick_is_merge W hW hP (ticks W n tl) (by rw [htr]; exact i2)
        (by rw [htol]; exact hmode) (by rw [hswd]; exact hs)
      have hstep : ∀ t u, alone W (frameOf tl) (n + 1) t = some u → u.id = t.id := by
        intro t u h
        simp only [alone] at h
        cases ha : alone W (frameOf tl) n t with
        | none => rw [ha] at h; cases h
        | some v =>
          rw [ha] at h
          simp only [Option.bind_some] at h
          rw [trackNext_id h, i3 t v ha]
      refine ⟨?_, ?_, hstep⟩
      · simp only [ticks]
        rw [t3, hfr, htr, List.filterMap_filterMap]
        rw [i1]
        rfl
      · exact (nodup_filterMap_id _ hstep tl.tracks hnd).1
  obtain ⟨k1, k2, _⟩ := key n
  have hfr : frameOf (ticks W n tl) = (frameOf tl).after n := by rw [k1]; exact frameOf_stateAfter W tl n
  have htr : (ticks W n tl).tracks = tl.tracks.filterMap (alone W (frameOf tl) n) := by rw [k1]; rfl
  have htol : (ticks W n tl).tolerant = tl.tolerant := by rw [k1]; rfl
  have hswd : (ticks W n tl).stopWhenDone = tl.stopWhenDone := by rw [k1]; rfl
  obtain ⟨t1, t2, _⟩ := tick_is_merge W hW hP (ticks W n tl) (by rw [htr]; exact k2)
    (by rw [htol]; exact hmode) (by rw [hswd]; exact hs)
  refine ⟨k1, ?_, t2⟩
  rw [t1, hfr, htr]

/-- **What a track produces alone**: in the timeline that holds only the track `t` (same time, same
    pending starts, same settings), the track after `n` ticks is `alone … n t` and the calls of the next
    tick are its own note-offs followed by its own events — the very lists that `run_is_merge`
    concatenates for the multi-track timeline. -/
theorem alone_is_the_solo_timeline (W : World) (hW : NoActions W) (hP : PosDur W) (tl : TL) (t : Track)
    (hmode : tl.tolerant = true ∨ Faultless W) (hs : tl.stopWhenDone = false) (n : Nat) :
    (ticks W n { tl with tracks := [t] }).tracks = (alone W (frameOf tl) n t).toList ∧
    (tickTL W (ticks W n { tl with tracks := [t] })).calls =
      mergedCalls W ((frameOf tl).after n) (alone W (frameOf tl) n t).toList := by
  obtain ⟨r1, r2, _⟩ := run_is_merge W hW hP { tl with tracks := [t] } (by simp) hmode hs n
  have r1' := congrArg TL.tracks r1
  rw [stateAfter_tracks] at r1'
  have hf : frameOf { tl with tracks := [t] } = frameOf tl := rfl
  have htk : ({ tl with tracks := [t] } : TL).tracks = [t] := rfl
  rw [hf, htk] at r1' r2
  have hl : [t].filterMap (alone W (frameOf tl) n) = (alone W (frameOf tl) n t).toList := by
    cases h : alone W (frameOf tl) n t <;> simp [h]
  rw [hl] at r1' r2
  exact ⟨r1', r2⟩

/-- The merge is a concatenation over the tracks: in each of the two phases, the tracks' own calls in
    scheduling order. -/
theorem mergedCalls_append (W : World) (f : Frame) (a b : List Track) :
    mergedCalls W f (a ++ b) =
      (a.map (trackOffs f)).flatten ++ (b.map (trackOffs f)).flatten ++
      ((a.map (trackEvents W f)).flatten ++ (b.map (trackEvents W f)).flatten) := by
  simp [mergedCalls]

/-- **Fault isolation over whole runs** (C17): in tolerant mode, for any track `bad` (however and
    whenever it fails) scheduled between the tracks `ts1` and `ts2`, after any number of ticks the other
    tracks are in exactly the states they are in without `bad`, and the calls of the next tick are those
    of the run without `bad` with `bad`'s own calls inserted at its place in each phase. -/
theorem fault_isolated_run (W : World) (hW : NoActions W) (hP : PosDur W) (tl : TL) (ts1 ts2 : List Track) (bad : Track)
    (hnd : ((ts1 ++ bad :: ts2).map Track.id).Nodup) (htol : tl.tolerant = true) (hs : tl.stopWhenDone = false) (n : Nat) :
    (ticks W n { tl with tracks := ts1 ++ bad :: ts2 }).tracks =
      ts1.filterMap (alone W (frameOf tl) n) ++ (alone W (frameOf tl) n bad).toList ++ ts2.filterMap (alone W (frameOf tl) n) ∧
    (ticks W n { tl with tracks := ts1 ++ ts2 }).tracks =
      ts1.filterMap (alone W (frameOf tl) n) ++ ts2.filterMap (alone W (frameOf tl) n) ∧
    (tickTL W (ticks W n { tl with tracks := ts1 ++ bad :: ts2 })).calls =
      ((ts1.filterMap (alone W (frameOf tl) n)).map (trackOffs ((frameOf tl).after n))).flatten ++
      (((alone W (frameOf tl) n bad).toList).map (trackOffs ((frameOf tl).after n))).flatten ++
      ((ts2.filterMap (alone W (frameOf tl) n)).map (trackOffs ((frameOf tl).after n))).flatten ++
      (((ts1.filterMap (alone W (frameOf tl) n)).map (trackEvents W ((frameOf tl).after n))).flatten ++
       (((alone W (frameOf tl) n bad).toList).map (trackEvents W ((frameOf tl).after n))).flatten ++
       ((ts2.filterMap (alone W (frameOf tl) n)).map (trackEvents W ((frameOf tl).after n))).flatten) ∧
    (tickTL W (ticks W n { tl with tracks := ts1 ++ ts2 })).calls =
      ((ts1.filterMap (alone W (frameOf tl) n)).map (trackOffs ((frameOf tl).after n))).flatten ++
      ((ts2.filterMap (alone W (frameOf tl) n)).map (trackOffs ((frameOf tl).after n))).flatten ++
      (((ts1.filterMap (alone W (frameOf tl) n)).map (trackEvents W ((frameOf tl).after n))).flatten ++
       ((ts2.filterMap (alone W (frameOf tl) n)).map (trackEvents W ((frameOf tl).after n))).flatten) := by
  have hnd' : ((ts1 ++ ts2).map Track.id).Nodup := by
    rw [List.map_append] at hnd ⊢
    rw [List.map_cons] at hnd
    exact List.Nodup.sublist (List.Sublist.append_left (List.sublist_cons_self _ _) _) hnd
  obtain ⟨a1, a2, _⟩ := run_is_merge W hW hP { tl with tracks := ts1 ++ bad :: ts2 } hnd (Or.inl htol) hs n
  obtain ⟨b1, b2, _⟩ := run_is_merge W hW hP { tl with tracks := ts1 ++ ts2 } hnd' (Or.inl htol) hs n
  have a1' := congrArg TL.tracks a1
  have b1' := congrArg TL.tracks b1
  rw [stateAfter_tracks] at a1' b1'
  have hf1 : frameOf { tl with tracks := ts1 ++ bad :: ts2 } = frameOf tl := rfl
  have hf2 : frameOf { tl with tracks := ts1 ++ ts2 } = frameOf tl := rfl
  have ht1 : ({ tl with tracks := ts1 ++ bad :: ts2 } : TL).tracks = ts1 ++ bad :: ts2 := rfl
  have ht2 : ({ tl with tracks := ts1 ++ ts2 } : TL).tracks = ts1 ++ ts2 := rfl
  rw [hf1, ht1] at a1' a2
  rw [hf2, ht2] at b1' b2
  have hl : (ts1 ++ bad :: ts2).filterMap (alone W (frameOf tl) n) =
      ts1.filterMap (alone W (frameOf tl) n) ++ (alone W (frameOf tl) n bad).toList ++ ts2.filterMap (alone W (frameOf tl) n) := by
    rw [List.filterMap_append, List.filterMap_cons]
    cases h : alone W (frameOf tl) n bad <;> simp
  rw [hl] at a1' a2
  rw [List.filterMap_append] at b1' b2
  refine ⟨a1', b1', ?_, ?_⟩
  · rw [a2]
    simp only [mergedCalls, List.map_append, List.flatten_append, List.append_assoc]
  · rw [b2]
    simp only [mergedCalls, List.map_append, List.flatten_append, List.append_assoc]

/-! Non-vacuity: a concrete two-track world meeting every hypothesis, run for three ticks. -/

def exW : World := fun sid pos =>
  if sid = 0 then (if pos < 3 then some (.ev 2 true (.note [{ note := 60 + pos, amp := 64, len := 1, gpos := true, chan := 0 }])) else none)
  else (if pos < 2 then some (.ev 3 true (.control 7 (10 + pos) 0 false)) else none)

theorem exW_noActions : NoActions exW := by
  intro sid pos d a ops out h
  unfold exW at h
  split at h <;> split at h <;> cases h

theorem exW_posDur : PosDur exW := by
  intro sid pos d a k h
  unfold exW at h
  split at h <;> split at h <;> cases h <;> decide

theorem exW_faultless : Faultless exW := by
  refine ⟨?_, ?_, ?_, ?_, ?_⟩
  · intro sid pos h; unfold exW at h; split at h <;> split at h <;> cases h
  · intro sid pos h; unfold exW at h; split at h <;> split at h <;> cases h
  · intro sid pos d a vs h v hv
    unfold exW at h
    split at h <;> split at h <;> cases h
    simp only [List.mem_singleton] at hv
    rw [hv]
  · intro sid pos d a cc v ch h; unfold exW at h; split at h <;> split at h <;> cases h
  · intro sid pos d a p ch h; unfold exW at h; split at h <;> split at h <;> cases h

def exTL : TL :=
  { q := 1, tracks := [{ (newTrack 0 none 0 true) with started := true, sid := 0 },
                       { (newTrack 1 none 0 true) with started := true, sid := 1 }] }

example : ((exTL.tracks.map Track.id).Nodup) ∧ exTL.stopWhenDone = false := by decide
example : (tickTL exW (ticks exW 3 exTL)).calls = [Call.noteOff 61 0, Call.control 7 11 0] := by decide +kernel
example : (tickTL exW (ticks exW 3 exTL)).calls = mergedCalls exW ((frameOf exTL).after 3) (exTL.tracks.filterMap (alone exW (frameOf exTL) 3)) :=
  (run_is_merge exW exW_noActions exW_posDur exTL (by decide) (Or.inr exW_faultless) rfl 3).2.1

end IsobarV.C07
