/-
C10 — `PMetropolis` (after fix 4d5b1f5): the reference definition, block by block.

For note number `i` (with `r = repeats[i mod |repeats|]`, `s = rests[i mod |rests|]`, both ≥ 0) the pattern plays the note
`r` times and then `s + 1` rests (the code compares `note_offset > repeats + rests`, so a block is one step longer than
`repeats + rests`), then moves on to note `i + 1`, wrapping to note 0 after the last.  `met_inside` is one step inside a block,
`met_block` the whole rest of a block from any offset, `met_wrap` the move to the next block.
-/
import IsobarV.Pat.Cls.Ext2
import IsobarV.Pat.Lemmas

namespace IsobarV.C10Metropolis
open IsobarV.Pat

structure InBlock (st : St) (idx : Nat) (v : Val) (r s : Int) : Prop where
  len : idx < st.buf.length
  note : st.buf[idx]? = some v
  reps : metCyc (metRepeats st) idx = some (.a (.int r))
  rests : metCyc (metRests st) idx = some (.a (.int s))
  rpos : 0 ≤ r
  spos : 0 ≤ s
  at_idx : st.n0 = idx

theorem metCyc_some_length {xs : List Val} {i : Nat} {x : Val} (h : metCyc xs i = some x) : xs.length ≠ 0 := by
  unfold metCyc at h
  split at h
  · cases h
  · assumption

/-- **One step inside a block**: at offset `off ≤ r + s` the note (while `off < r`) or a rest, and the offset advances. -/
theorem met_inside (rec : Rec) (kids : List Pat) (st : St) (idx : Nat) (v : Val) (r s : Int)
    (h : InBlock st idx v r s) (hoff : st.n1 ≤ r + s) :
    (stepMetropolis rec kids st).out = (if st.n1 < r then .val v else .val Val.none) ∧
    (stepMetropolis rec kids st).st = { st with n0 := idx, n1 := st.n1 + 1 } ∧
    (stepMetropolis rec kids st).kids = kids := by
  have hr := metCyc_some_length h.reps
  have hs := metCyc_some_length h.rests
  have hidx : st.n0.toNat = idx := by rw [h.at_idx]; simp
  have hnot : ¬ (r + s < st.n1) := by omega
  have hlen : ¬ ((st.buf.length : Int) ≤ (idx : Int)) := by have := h.len; omega
  have e1 : metCyc (metRepeats st) st.n0.toNat = some (.a (.int r)) := by rw [hidx]; exact h.reps
  have e2 : metCyc (metRests st) st.n0.toNat = some (.a (.int s)) := by rw [hidx]; exact h.rests
  have hI : metIndex st.buf.length r s st.n0 st.n1 = (idx : Int) := by
    unfold metIndex; rw [h.at_idx]; simp [hnot, hlen]
  have hO : metOffset st.buf.length r s st.n0 st.n1 = st.n1 := by
    unfold metOffset; rw [h.at_idx]; simp [hnot, hlen]
  unfold stepMetropolis
  rw [if_neg (by intro hc; rcases hc.2 with h1 | h1 <;> contradiction), e1, e2]
  simp only [hI, hO]
  unfold metEmit
  simp only [Int.toNat_natCast, h.reps, h.note]
  split <;> simp

/-- The state after a step inside the block is again in the block (nothing but the offset moved). -/
theorem inBlock_advance {st : St} {idx : Nat} {v : Val} {r s : Int} (h : InBlock st idx v r s) (k : Int) :
    InBlock { st with n0 := idx, n1 := k } idx v r s :=
  { len := h.len, note := h.note, reps := h.reps, rests := h.rests, rpos := h.rpos, spos := h.spos, at_idx := rfl }

/-- **The rest of a block**: from offset `off` the next `r + s + 1 − off` values are the note while the offset is below
    `repeats[i]` and rests afterwards — `repeats[i]` notes and `rests[i] + 1` rests in all when the block is entered at 0. -/
theorem met_block (rec : Rec) (kids : List Pat) (idx : Nat) (v : Val) (r s : Int) (n : Nat) :
    ∀ st : St, InBlock st idx v r s → st.n1 + n = r + s + 1 →
      clsOuts stepMetropolis rec n kids st =
        (List.range n).map (fun (j : Nat) => if st.n1 + (j : Int) < r then Out.val v else Out.val Val.none) := by
  induction n with
  | zero => intro st _ _; rfl
  | succ n ih =>
    intro st h hn
    obtain ⟨ho, hst, hk⟩ := met_inside rec kids st idx v r s h (by omega)
    have ih' := ih { st with n0 := idx, n1 := st.n1 + 1 } (inBlock_advance h _) (by simp only; omega)
    simp only [clsOuts, ho, hst, hk, ih', List.range_succ_eq_map, List.map_cons, List.map_map]
    simp only [Int.natCast_zero, Int.add_zero, List.cons.injEq, true_and]
    apply List.map_congr_left
    intro j _
    simp only [Function.comp, Nat.succ_eq_add_one, Int.natCast_add, Int.natCast_one]
    have : st.n1 + 1 + (j : Int) = st.n1 + ((j : Int) + 1) := by omega
    rw [this]

/-- **The move to the next block**: a step taken at the end of a block (`note_offset > repeats[i] + rests[i]`) is the step
    taken at offset 0 of the next note — note `i + 1`, or note 0 after the last one. -/
theorem met_wrap (rec : Rec) (kids : List Pat) (st : St) (idx idx' : Nat) (v v' : Val) (r s r' s' : Int)
    (h : InBlock st idx v r s) (hend : r + s < st.n1)
    (hnext : idx' = if idx + 1 < st.buf.length then idx + 1 else 0)
    (h' : InBlock { st with n0 := (idx' : Int), n1 := 0 } idx' v' r' s') :
    stepMetropolis rec kids st = stepMetropolis rec kids { st with n0 := (idx' : Int), n1 := 0 } := by
  have hr := metCyc_some_length h.reps
  have hs := metCyc_some_length h.rests
  have hidx : st.n0.toNat = idx := by rw [h.at_idx]; simp
  have e1 : metCyc (metRepeats st) st.n0.toNat = some (.a (.int r)) := by rw [hidx]; exact h.reps
  have e2 : metCyc (metRests st) st.n0.toNat = some (.a (.int s)) := by rw [hidx]; exact h.rests
  have hlen := h.len
  have hI : metIndex st.buf.length r s st.n0 st.n1 = (idx' : Int) := by
    unfold metIndex; rw [h.at_idx, hnext]; simp only [hend, if_true]
    split <;> split <;> omega
  have hO : metOffset st.buf.length r s st.n0 st.n1 = 0 := by
    unfold metOffset; rw [h.at_idx]; simp [hend]
  have hr' := h'.rpos
  have hs' := h'.spos
  have hlen' : idx' < st.buf.length := h'.len
  have g1 : metCyc (metRepeats st) (idx' : Int).toNat = some (.a (.int r')) := by
    rw [Int.toNat_natCast]; exact h'.reps
  have g2 : metCyc (metRests st) (idx' : Int).toNat = some (.a (.int s')) := by
    rw [Int.toNat_natCast]; exact h'.rests
  have hneg : ¬ (r' + s' < 0) := by omega
  have hl : ¬ ((st.buf.length : Int) ≤ (idx' : Int)) := by omega
  have hI' : metIndex st.buf.length r' s' (idx' : Int) 0 = (idx' : Int) := by
    unfold metIndex; simp [hneg, hl]
  have hO' : metOffset st.buf.length r' s' (idx' : Int) 0 = 0 := by
    unfold metOffset; simp [hneg]
  have hc0 : ¬ (st.buf.length ≠ 0 ∧ ((metRepeats st).length = 0 ∨ (metRests st).length = 0)) := by
    intro hc; rcases hc.2 with h1 | h1 <;> contradiction
  have lhs : stepMetropolis rec kids st = metEmit kids st (idx' : Int) 0 := by
    unfold stepMetropolis
    rw [if_neg hc0, e1, e2]
    simp only [hI, hO]
  have rhs : stepMetropolis rec kids { st with n0 := (idx' : Int), n1 := 0 } =
      metEmit kids { st with n0 := (idx' : Int), n1 := 0 } (idx' : Int) 0 := by
    unfold stepMetropolis
    have hc1 : ¬ (({ st with n0 := (idx' : Int), n1 := 0 } : St).buf.length ≠ 0 ∧
        ((metRepeats { st with n0 := (idx' : Int), n1 := 0 }).length = 0 ∨
         (metRests { st with n0 := (idx' : Int), n1 := 0 }).length = 0)) := hc0
    rw [if_neg hc1]
    have g1' : metCyc (metRepeats { st with n0 := (idx' : Int), n1 := 0 })
        ({ st with n0 := (idx' : Int), n1 := 0 } : St).n0.toNat = some (.a (.int r')) := g1
    have g2' : metCyc (metRests { st with n0 := (idx' : Int), n1 := 0 })
        ({ st with n0 := (idx' : Int), n1 := 0 } : St).n0.toNat = some (.a (.int s')) := g2
    rw [g1', g2']
    show metEmit kids _ (metIndex st.buf.length r' s' (idx' : Int) 0) (metOffset st.buf.length r' s' (idx' : Int) 0) = _
    rw [hI', hO']
  rw [lhs, rhs]
  unfold metEmit
  have g1s : metCyc (metRepeats { st with n0 := (idx' : Int), n1 := 0 }) (idx' : Int).toNat = some (.a (.int r')) := g1
  rw [g1, g1s]

/-- A concrete block: `PMetropolis([60, 62], [2], [1])` entered at note 0 plays 60 60 · · (two notes, `1 + 1` rests). -/
example : clsOuts stepMetropolis (fun p => { out := .stop, p := p }) 4 []
    { buf := [.int 60, .int 62], buf2 := [.int 2, .int 1], n2 := 1 } =
    [.val (.int 60), .val (.int 60), .val Val.none, .val Val.none] := by decide +kernel

end IsobarV.C10Metropolis
