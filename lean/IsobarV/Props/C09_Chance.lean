/-
C09 for the stochastic classes: stickiness of StopIteration.

A class of the form `stepPure idx core` whose `core` never itself signals StopIteration (PBrown, PCoin,
PRandomWalk, PChoice, PSample, PSkip, PFlipFlop, PRandomExponential) ends only when one of its
pattern-valued attributes ends, and then stays ended: that attribute is polled again at every later
call.  PWhite(length) / PShuffle(repeats) end by their own counters, which only grow: see
`IsobarV.C11.white_length_exact` (stop for ever, constant length).  PMarkov ends at a dead end and stays
there (`markov_sticky`).
-/
import IsobarV.Props.C09
import IsobarV.Pat.Cls.Chance

namespace IsobarV.C09
open IsobarV.Pat

theorem resolve_P {P : Pat → Prop} {rec : Rec} (hrec : RecSticky P rec) (idx : List Nat) (kids : List Pat)
    (hk : ∀ k ∈ kids, P k) : ∀ k ∈ (resolve rec idx kids).kids, P k := by
  induction idx generalizing kids with
  | nil => exact hk
  | cons i is ih =>
    have h1 := stepKid_P hrec kids i hk
    simp only [resolve]
    split
    · exact ih _ h1
    · exact h1

/-- `resolve` reports StopIteration only when one of the resolved kids raised it; that kid is then dead. -/
theorem resolve_stop_dead {P : Pat → Prop} {rec : Rec} (hrec : RecSticky P rec) (idx : List Nat) (kids : List Pat)
    (hk : ∀ k ∈ kids, P k) (hs : (resolve rec idx kids).bad = some .stop) :
    ∃ j ∈ idx, DeadAt rec (resolve rec idx kids).kids j := by
  induction idx generalizing kids with
  | nil => simp [resolve] at hs
  | cons i is ih =>
    simp only [resolve] at hs ⊢
    split at hs
    · obtain ⟨j, hj, hd⟩ := ih _ (stepKid_P hrec kids i hk) hs
      exact ⟨j, List.mem_cons_of_mem _ hj, hd⟩
    · rename_i o ho
      simp only [Option.some.injEq] at hs
      have hstop : (stepKid rec kids i).1 = .stop := hs
      have hd := stepKid_stop_dead hrec hk hstop
      exact ⟨i, List.mem_cons_self, hd⟩

/-- Once a resolved kid is dead, resolving never succeeds again and a resolved kid stays dead. -/
theorem resolve_dead {rec : Rec} (idx : List Nat) (kids : List Pat) (h : ∃ j ∈ idx, DeadAt rec kids j) :
    (∃ o, (resolve rec idx kids).bad = some o ∧ NoVal o) ∧ ∃ j ∈ idx, DeadAt rec (resolve rec idx kids).kids j := by
  induction idx generalizing kids with
  | nil => obtain ⟨j, hj, _⟩ := h; simp at hj
  | cons i is ih =>
    obtain ⟨j, hj, hd⟩ := h
    simp only [resolve]
    split
    · rename_i v hv
      have hji : j ≠ i := by
        intro e; subst e
        exact (hd.step.1) v hv
      have hjis : j ∈ is := by
        rcases List.mem_cons.mp hj with e | e
        · exact absurd e hji
        · exact e
      obtain ⟨h1, j', hj', hd'⟩ := ih _ ⟨j, hjis, hd.other (Ne.symm hji)⟩
      exact ⟨h1, j', List.mem_cons_of_mem _ hj', hd'⟩
    · rename_i o ho
      refine ⟨⟨_, rfl, fun v hv => ho v hv⟩, ?_⟩
      by_cases hji : j = i
      · subst hji; exact ⟨j, hj, hd.step.2⟩
      · exact ⟨j, hj, hd.other (Ne.symm hji)⟩

/-- A class `stepPure idx core` whose core never signals StopIteration is sticky. -/
theorem pure_sticky (c : Cls) (idx : List Nat) (core : List Val → St → Out × St) (hc : clsStep c = stepPure idx core)
    (hcore : ∀ vals st, (core vals st).1 ≠ .stop) : ClsSticky c := by
  intro P rec kids st hrec hk
  rw [hc]
  have hkids : ∀ kids st, (stepPure idx core rec kids st).kids = (resolve rec idx kids).kids := by
    intro kids st; simp only [stepPure]; split <;> rfl
  refine ⟨by rw [hkids]; exact resolve_P hrec idx kids hk, fun hs => ?_⟩
  have hbad : (resolve rec idx kids).bad = some .stop := by
    simp only [stepPure] at hs
    split at hs
    · rename_i o ho; rw [ho]; simp only [] at hs; rw [hs]
    · exact absurd hs (hcore _ _)
  have hd : ∃ j ∈ idx, DeadAt rec (stepPure idx core rec kids st).kids j := by
    rw [hkids]; exact resolve_stop_dead hrec idx kids hk hbad
  intro n
  apply clsOuts_noVal (stepPure idx core) rec (fun kids _ => ∃ j ∈ idx, DeadAt rec kids j) _ n _ _ hd
  intro kids st h
  obtain ⟨⟨o, ho, hno⟩, h2⟩ := resolve_dead idx kids h
  refine ⟨?_, by rw [hkids]; exact h2⟩
  simp only [stepPure, ho]
  exact hno

theorem brownCore_ne_stop (vals : List Val) (st : St) : (brownCore vals st).1 ≠ .stop := by
  unfold brownCore brownFinish; (repeat' split) <;> simp

theorem coinCore_ne_stop (vals : List Val) (st : St) : (coinCore vals st).1 ≠ .stop := by
  unfold coinCore; (repeat' split) <;> simp

theorem walkCore_ne_stop (vals : List Val) (st : St) : (walkCore vals st).1 ≠ .stop := by
  unfold walkCore walkFinish; (repeat' split) <;> simp

theorem choiceCore_ne_stop (vals : List Val) (st : St) : (choiceCore vals st).1 ≠ .stop := by
  unfold choiceCore; (repeat' split) <;> simp

theorem sampleLoop_ne_stop (n : Nat) (xs : List Atom) (ws : List Rat) (acc : List Atom) (st : St) :
    (sampleLoop n xs ws acc st).1 ≠ .stop := by
  induction n generalizing xs ws acc st with
  | zero => simp [sampleLoop]
  | succ n ih =>
    simp only [sampleLoop]
    (repeat' split) <;> first | exact ih _ _ _ _ | simp

theorem sampleCore_ne_stop (vals : List Val) (st : St) : (sampleCore vals st).1 ≠ .stop := by
  unfold sampleCore; (repeat' split) <;> first | exact sampleLoop_ne_stop _ _ _ _ _ | simp

theorem skipCore_ne_stop (vals : List Val) (st : St) : (skipCore vals st).1 ≠ .stop := by
  unfold skipCore; (repeat' split) <;> simp

theorem flipFlopCore_ne_stop (vals : List Val) (st : St) : (flipFlopCore vals st).1 ≠ .stop := by
  unfold flipFlopCore; (repeat' split) <;> simp

theorem expCore_ne_stop (vals : List Val) (st : St) : (expCore vals st).1 ≠ .stop := by
  unfold expCore; (repeat' split) <;> simp

/-- Stochastic classes that end only with their inputs / parameters. -/
def StickyChance (c : Cls) : Prop :=
  c = .brown ∨ c = .coin ∨ c = .randomWalk ∨ c = .choice ∨ c = .sample ∨ c = .skip ∨ c = .flipFlop ∨ c = .randomExponential

theorem chance_sticky (c : Cls) (h : StickyChance c) : ClsSticky c := by
  unfold StickyChance at h
  rcases h with h | h | h | h | h | h | h | h <;> subst h
  · exact pure_sticky _ _ _ rfl brownCore_ne_stop
  · exact pure_sticky _ _ _ rfl coinCore_ne_stop
  · exact pure_sticky _ _ _ rfl walkCore_ne_stop
  · exact pure_sticky _ _ _ rfl choiceCore_ne_stop
  · exact pure_sticky _ _ _ rfl sampleCore_ne_stop
  · exact pure_sticky _ _ _ rfl skipCore_ne_stop
  · exact pure_sticky _ _ _ rfl flipFlopCore_ne_stop
  · exact pure_sticky _ _ _ rfl expCore_ne_stop

def StickyCoreOrChance (c : Cls) : Prop := StickyCore c ∨ StickyChance c

/-- **C09 stickiness with stochastic classes in the tree**: e.g. `PSkip(PSequence(…, 1), 0.5)`, a
    `PChoice` whose `values` pattern is finite, a sum of a finite sequence and a `PBrown` …: once
    `next()` has raised StopIteration no later `next()` yields a value. -/
theorem sticky_chance (fuel : Nat) (p : Pat) (hp : AllCls StickyCoreOrChance p) (hstop : (stepF fuel p).out = .stop) :
    ∀ n, ∀ o ∈ outs fuel n (stepF fuel p).p, NoVal o :=
  (sticky_stepF (fun c h => h.elim (core_sticky c) (chance_sticky c)) fuel p hp).2 hstop

/-- **A Markov chain that has reached a dead end stays there** (chains whose nodes are not `None`): the
    step that raised StopIteration leaves a state on which every later step raises it again. -/
theorem markov_sticky (vals vals' : List Val) (st st' : St) (hn : Val.none ∉ st.buf)
    (h : markovCore vals st = (.stop, st')) : markovCore vals' st' = (.stop, st') := by
  have move_fix : ∀ (node : Val) (s s' : St), markovMove node s = (.stop, s') → s' = { s with v0 := node } ∧
      markovMove node { s with v0 := node } = (.stop, { s with v0 := node }) := by
    intro node s s' hm
    simp only [markovMove] at hm ⊢
    split at hm
    · rename_i hc
      simp only [Prod.mk.injEq, true_and] at hm
      refine ⟨hm.symm, ?_⟩
      simp only [hc, if_true]
    · (repeat' split at hm) <;> simp at hm
  simp only [markovCore] at h
  split at h
  · rename_i hc
    split at h
    · rename_i k s1 hd
      split at h
      · rename_i x hx
        obtain ⟨e1, e2⟩ := move_fix x s1 st' h
        have hxn : x ≠ Val.none := fun e => hn (e ▸ List.mem_of_getElem? hx)
        subst e1
        simp only [markovCore]
        rw [if_neg (by simp [hxn])]
        exact e2
      · simp at h
    · simp at h
  · rename_i hc
    obtain ⟨e1, e2⟩ := move_fix st.v0 st st' h
    have : st' = st := by rw [e1]
    subst this
    simp only [markovCore]
    rw [if_neg hc]
    exact h

/-! Non-vacuity -/
section Example
def exSkip : Pat :=
  .node .skip [.node .seq [Pat.const (.int 1), Pat.const (.int 2)] { n0 := 1 }, Pat.const (.flt (1/2))]
    { v0 := .flt 0, tape := [.u (1/4), .u (3/4), .u (1/4), .u (1/4)] }
example : outs 5 5 exSkip = [.val (.int 1), .val Val.none, .stop, .stop, .stop] := by decide +kernel
end Example

end IsobarV.C09
