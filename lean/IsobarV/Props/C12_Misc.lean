/-
C12 — pattern-valued parameters are resolved afresh at every step: the misc group.

* `PDict`: every value of the dict is a pattern-valued parameter; a step that yields consumes each of them exactly
  once, in key order; a step that does not yield has consumed exactly the values up to and including the one that
  ended (never skipped, never read twice).
* `PDictKey`: `dict` is resolved before `key`, each once per step.
* `Pattern.value` resolves recursively: a constant whose value is a pattern is transparent (`constP_transparent`), to
  any depth (`value_resolves_recursively`), a tuple containing such values resolves to the tuple of the patterns' own
  next values (`tuple_resolves_recursively`), and a `PSequence` item that is a constant of a pattern contributes the
  pattern's next value at each visit (`seq_item_constP`).
-/
import IsobarV.Props.C12

namespace IsobarV.C12Misc
open IsobarV.Pat

/-! ### Resolving a list of patterns in order -/

/-- When the resolution succeeds every pattern is exactly one `rec`-step further and the values are the patterns'
    outcomes, in order. -/
theorem stepAll_all_once (rec : Rec) (kids : List Pat) (h : (stepAll rec kids).fail = Option.none) :
    (stepAll rec kids).kids = kids.map (fun k => (rec k).p) ∧
    (stepAll rec kids).vals.map (fun x => Out.val (.a x)) = kids.map (fun k => (rec k).out) := by
  induction kids with
  | nil => exact ⟨rfl, rfl⟩
  | cons k ks ih =>
    simp only [stepAll] at h ⊢
    split at h
    · rename_i x hx
      obtain ⟨i1, i2⟩ := ih h
      simp only [hx, List.map_cons, i1, i2]
      exact ⟨trivial, trivial⟩
    · cases h
    · cases h

/-- When the resolution fails, the patterns before the failing one are one step further (each yielded a scalar),
    the failing one is one step further, the ones after it are untouched. -/
theorem stepAll_fail_prefix (rec : Rec) (kids : List Pat) (o : Out) (h : (stepAll rec kids).fail = some o) :
    ∃ pre k post, kids = pre ++ k :: post ∧
      (stepAll rec kids).kids = pre.map (fun x => (rec x).p) ++ (rec k).p :: post ∧
      (∀ x ∈ pre, ∃ a, (rec x).out = .val (.a a)) ∧
      ((rec k).out = o ∨ (o = .err .unmodelled ∧ ∃ xs, (rec k).out = .val (.tup xs))) := by
  induction kids with
  | nil => simp [stepAll] at h
  | cons k ks ih =>
    simp only [stepAll] at h ⊢
    split at h
    · rename_i x hx
      obtain ⟨pre, k', post, e1, e2, e3, e4⟩ := ih h
      refine ⟨k :: pre, k', post, by simp [e1], ?_, ?_, e4⟩
      · simp only [e2, List.map_cons, List.cons_append]
      · intro y hy
        simp only [List.mem_cons] at hy
        rcases hy with rfl | hy
        · exact ⟨x, hx⟩
        · exact e3 y hy
    · rename_i xs hx
      simp only [Option.some.injEq] at h
      exact ⟨[], k, ks, rfl, by simp, by simp, Or.inr ⟨h.symm, xs, hx⟩⟩
    · rename_i h1 h2
      simp only [Option.some.injEq] at h
      exact ⟨[], k, ks, rfl, by simp, by simp, Or.inl h⟩

/-- The outcome on which the resolution fails is never a value. -/
theorem stepAll_fail_noVal (rec : Rec) (kids : List Pat) (o : Out) (h : (stepAll rec kids).fail = some o) :
    ∀ v, o ≠ .val v := by
  induction kids with
  | nil => simp [stepAll] at h
  | cons k ks ih =>
    simp only [stepAll] at h
    split at h
    · exact ih h
    · simp only [Option.some.injEq] at h
      intro v hv; rw [← h] at hv; cases hv
    · rename_i h1 h2
      simp only [Option.some.injEq] at h
      intro v hv
      rw [← h] at hv
      cases v with
      | a x => exact h1 x hv
      | tup xs => exact h2 xs hv

/-- **`PDict`: a step that yields a dict has consumed every value exactly once**, and the dict holds the values'
    outcomes in key order. -/
theorem dict_values_once (rec : Rec) (kids : List Pat) (st : St) (v : Val) (h : (stepTuple rec kids st).out = .val v) :
    (stepTuple rec kids st).kids = kids.map (fun k => (rec k).p) ∧
    ∃ xs, v = .tup xs ∧ xs.map (fun x => Out.val (.a x)) = kids.map (fun k => (rec k).out) := by
  cases hf : (stepAll rec kids).fail with
  | some o =>
    simp only [stepTuple, hf] at h
    exact absurd h (stepAll_fail_noVal rec kids o hf v)
  | none =>
    obtain ⟨i1, i2⟩ := stepAll_all_once rec kids hf
    simp only [stepTuple, hf, Out.val.injEq] at h ⊢
    exact ⟨i1, _, h.symm, i2⟩

/-- **`PDict`: values are consumed in key order**; when one of them ends (or raises) the ones before it have been
    consumed once, the ones after it not at all, and the step ends with that outcome. -/
theorem dict_values_in_order (rec : Rec) (kids : List Pat) (st : St) (h : ∀ v, (stepTuple rec kids st).out ≠ .val v) :
    ∃ pre k post, kids = pre ++ k :: post ∧
      (stepTuple rec kids st).kids = pre.map (fun x => (rec x).p) ++ (rec k).p :: post ∧
      (∀ x ∈ pre, ∃ a, (rec x).out = .val (.a a)) := by
  simp only [stepTuple] at h ⊢
  split
  · rename_i o ho
    obtain ⟨pre, k, post, e1, e2, e3, _⟩ := stepAll_fail_prefix rec kids o ho
    exact ⟨pre, k, post, e1, e2, e3⟩
  · rename_i hn
    simp only [hn] at h
    exact absurd rfl (h _)

/-- A tuple containing patterns: the same consumption discipline (its step function is the dict's). -/
theorem tupP_elements_once (rec : Rec) (kids : List Pat) (st : St) (v : Val)
    (h : (clsStep .tupP rec kids st).out = .val v) :
    (clsStep .tupP rec kids st).kids = kids.map (fun k => (rec k).p) :=
  (dict_values_once rec kids st v h).1

/-! ### PDictKey -/

/-- **`PDictKey`: when the dict pattern yields, `dict` and `key` are each consumed exactly once.** -/
theorem dictKey_key_once (rec : Rec) (key d : Pat) (st : St) (h0 : st.n0 = 0) (dv : Val) (hd : (rec d).out = .val dv) :
    (stepDictKey rec [key, d] st).kids = [(rec key).p, (rec d).p] := by
  simp only [stepDictKey, if_pos h0, stepKid, List.getElem?_cons_succ, List.getElem?_cons_zero, hd, List.set_cons_succ,
    List.set_cons_zero]
  cases hk : (rec key).out with
  | val kv => cases dv <;> simp
  | stop => simp
  | err e => simp

/-- **`dict` is resolved before `key`**: when the dict pattern ends, the step ends with it and the key is not consumed. -/
theorem dictKey_dict_before_key (rec : Rec) (key d : Pat) (st : St) (h0 : st.n0 = 0) (hd : ∀ v, (rec d).out ≠ .val v) :
    (stepDictKey rec [key, d] st).kids = [key, (rec d).p] ∧ (stepDictKey rec [key, d] st).out = (rec d).out := by
  simp only [stepDictKey, if_pos h0, stepKid, List.getElem?_cons_succ, List.getElem?_cons_zero, List.set_cons_succ,
    List.set_cons_zero]
  cases hx : (rec d).out with
  | val v => exact absurd hx (hd v)
  | stop => simp
  | err e => simp

/-- `PDictKey` over a plain dict: the key is resolved exactly once per step (the dict's values keep their places). -/
theorem dictKey_plain_key_once (rec : Rec) (key : Pat) (vals : List Pat) (st : St) (h1 : st.n0 ≠ 0) :
    ∃ rest, (stepDictKey rec (key :: vals) st).kids = (rec key).p :: rest ∧ rest.length = vals.length := by
  simp only [stepDictKey, if_neg h1, stepKid, List.getElem?_cons_zero, List.set_cons_zero]
  split
  · split
    · rename_i j _
      cases hj : ((rec key).p :: vals)[j + 1]? with
      | none => exact ⟨vals, by simp, rfl⟩
      | some k => exact ⟨vals.set j (rec k).p, by simp [List.set], by simp⟩
    · exact ⟨vals, rfl, rfl⟩
  · exact ⟨vals, rfl, rfl⟩
  · exact ⟨vals, rfl, rfl⟩

/-! ### `Pattern.value`: recursive resolution -/

/-- **A constant whose value is a pattern is transparent to `Pattern.value`**: resolving `PConstant(p)` yields
    `p`'s next value and advances `p` by exactly one step. -/
theorem constP_transparent (rec : Rec) (p : Pat) (st : St) :
    (stepConstP rec [p] st).out = (rec p).out ∧ (stepConstP rec [p] st).kids = [(rec p).p] ∧
    (stepConstP rec [p] st).st = st := by
  simp [stepConstP, stepKid]

theorem constP_outs (rec : Rec) (n : Nat) (p : Pat) (st : St) :
    clsOuts stepConstP rec n [p] st = recOuts rec n p := by
  induction n generalizing p with
  | zero => rfl
  | succ n ih =>
    obtain ⟨h1, h2, h3⟩ := constP_transparent rec p st
    simp only [clsOuts, recOuts, h1, h2, h3]
    rw [ih]

/-- `PConstant(PConstant(… p …))`, `d` constants deep. -/
def tower : Nat → Pat → Pat
  | 0, p => p
  | d + 1, p => .node .constP [tower d p] {}

/-- **`Pattern.value` resolves a pattern that yields patterns down to the scalar, at any depth**: one resolution of
    the `d`-fold constant of `p` yields `p`'s own next value and leaves the `d`-fold constant of the advanced `p`. -/
theorem value_resolves_recursively (fuel d : Nat) (p : Pat) :
    stepF (fuel + d) (tower d p) = { out := (stepF fuel p).out, p := tower d (stepF fuel p).p } := by
  induction d with
  | zero => rfl
  | succ d ih =>
    have hc : clsStep .constP = stepConstP := rfl
    show stepF (fuel + d + 1) (.node .constP [tower d p] {}) = _
    simp only [stepF, hc, stepConstP, stepKid, List.getElem?_cons_zero, List.set_cons_zero, ih, tower]

/-- The whole output sequence of the `d`-fold constant of `p` is `p`'s. -/
theorem constP_tower (fuel d n : Nat) (p : Pat) : outs (fuel + d) n (tower d p) = outs fuel n p := by
  induction n generalizing p with
  | zero => rfl
  | succ n ih =>
    simp only [outs, value_resolves_recursively]
    rw [ih]

theorem stepAll_tower (fuel d : Nat) (ps : List Pat) :
    (stepAll (stepF (fuel + d)) (ps.map (tower d))).fail = (stepAll (stepF fuel) ps).fail ∧
    (stepAll (stepF (fuel + d)) (ps.map (tower d))).vals = (stepAll (stepF fuel) ps).vals ∧
    (stepAll (stepF (fuel + d)) (ps.map (tower d))).kids = (stepAll (stepF fuel) ps).kids.map (tower d) := by
  induction ps with
  | nil => exact ⟨rfl, rfl, rfl⟩
  | cons p ps ih =>
    obtain ⟨i1, i2, i3⟩ := ih
    simp only [List.map_cons, stepAll, value_resolves_recursively]
    split <;> simp_all

/-- **Tuples containing patterns are resolved recursively down to scalars**: resolving a tuple whose elements are
    `d`-fold constants of the patterns `ps` yields the tuple of the patterns' own next values (or ends with the first
    of them that ends), and advances each of them exactly as resolving the bare tuple of `ps` would. -/
theorem tuple_resolves_recursively (fuel d : Nat) (ps : List Pat) (st : St) :
    (stepF (fuel + d + 1) (.node .tupP (ps.map (tower d)) st)).out = (stepF (fuel + 1) (.node .tupP ps st)).out ∧
    (stepF (fuel + d + 1) (.node .tupP (ps.map (tower d)) st)).p =
      .node .tupP ((stepAll (stepF fuel) ps).kids.map (tower d)) st := by
  have hc : clsStep .tupP = stepTuple := rfl
  obtain ⟨i1, i2, i3⟩ := stepAll_tower fuel d ps
  simp only [stepF, hc, stepTuple, i1, i2, i3]
  split <;> exact ⟨rfl, rfl⟩

/-- **A `PSequence` item that is a constant of a pattern** contributes the pattern's next value at each visit (and
    the pattern advances by one step): `PSequence([PConstant(p), …])` reads `p` item-wise. -/
theorem seq_item_constP (fuel : Nat) (kids : List Pat) (st : St) (p : Pat) (cs : St)
    (hg : ¬ (kids.length = 0 ∨ (0 ≤ st.n0 ∧ st.n0 ≤ st.n2))) (hk : kids[st.n1.toNat]? = some (.node .constP [p] cs)) :
    (stepSeq (stepF (fuel + 1)) kids st).out = (stepF fuel p).out ∧
    (stepSeq (stepF (fuel + 1)) kids st).kids = kids.set st.n1.toNat (.node .constP [(stepF fuel p).p] cs) := by
  obtain ⟨h1, h2⟩ := C12.seq_item_resolved (stepF (fuel + 1)) kids st _ hg hk
  have hc : clsStep .constP = stepConstP := rfl
  rw [h1, h2]
  simp [stepF, hc, stepConstP, stepKid]

/-! Non-vacuity -/
section Example
def c (i : Int) : Pat := Pat.const (.int i)
def sq (xs : List Pat) (rep : Int) : Pat := .node .seq xs { n0 := rep }
/-- `PSequence([PConstant(PConstant(PSequence([1, 2, 3], 1))), 9])` -/
example : outs 10 6 (sq [tower 2 (sq [c 1, c 2, c 3] 1), c 9] (-1)) =
    [.val (.int 1), .val (.int 9), .val (.int 2), .val (.int 9), .val (.int 3), .val (.int 9)] := by decide
/-- `PSequence([(PConstant(PSequence([1, 2], 1)), 5, PSequence([7, 8, 9]))])`: the tuple is resolved element-wise and
    ends with the first element that ends -/
example : outs 10 4 (sq [.node .tupP [tower 1 (sq [c 1, c 2] 1), c 5, sq [c 7, c 8, c 9] (-1)] {}] (-1)) =
    [.val (.tup [.int 1, .int 5, .int 7]), .val (.tup [.int 2, .int 5, .int 8]), .stop, .stop] := by decide
/-- a dict with a varying value: one value per step, in order -/
example : outs 10 3 (.node .dict [sq [c 1, c 2] (-1), c 5] { buf := [.str "a", .str "b"] }) =
    [.val (.tup [.int 1, .int 5]), .val (.tup [.int 2, .int 5]), .val (.tup [.int 1, .int 5])] := by decide
end Example

end IsobarV.C12Misc
