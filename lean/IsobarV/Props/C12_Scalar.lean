/-
C12 — pattern-valued parameters of the classes of `scalar.py`, `PDegree`, `PTri`, `PSaw` are resolved afresh
at every step: after a step that yields a value each attribute the class resolves is exactly ONE `rec`-step
further (one value consumed per output step, never skipped, never read twice), for an arbitrary semantics
`rec` of the attributes — hence for scalars, constants, references and varying patterns alike, at every nesting
depth.  All instances of `poll_param_once` (`IsobarV/Pat/Cls/ScalarLemmas.lean`).
-/
import IsobarV.Pat.Cls.ScalarLemmas

namespace IsobarV.C12
open IsobarV.Pat

theorem mem_ordArgsFirst (n i : Nat) (hi : i < n) : i ∈ ordArgsFirst n := by
  unfold ordArgsFirst
  rcases Nat.eq_zero_or_pos i with h | h
  · subst h; simp
  · apply List.mem_append_left
    rw [List.mem_range'_1]
    omega

theorem lt_length_of_getElem? {kids : List Pat} {i : Nat} {k : Pat} (h : kids[i]? = some k) : i < kids.length :=
  (List.getElem?_eq_some_iff.mp h).1

/-- `PSkipIf.skip`. -/
theorem skipIf_skip_once (rec : Rec) (kids : List Pat) (st : St) (v : Val)
    (h : (stepSkipIf rec kids st).out = .val v) (k : Pat) (hk : kids[1]? = some k) :
    (stepSkipIf rec kids st).kids[1]? = some (rec k).p :=
  poll_param_once _ _ (fun _ => by decide) rec kids st v h 1 k (by simp) hk

/-- `PMap`: every positional / keyword argument (index ≥ 1) and the input (index 0). -/
theorem map_arg_once (rec : Rec) (kids : List Pat) (st : St) (v : Val)
    (h : (stepMap rec kids st).out = .val v) (i : Nat) (k : Pat) (hk : kids[i]? = some k) :
    (stepMap rec kids st).kids[i]? = some (rec k).p :=
  poll_param_once _ _ ordArgsFirst_nodup rec kids st v h i k (mem_ordArgsFirst _ _ (lt_length_of_getElem? hk)) hk

/-- `PMap` resolves its arguments BEFORE its input: when an argument ends, the input has not been consumed. -/
theorem map_arg_before_input (rec : Rec) (a p : Pat) (st : St) (hp : (rec p).out = .stop) :
    (stepMap rec [a, p] st).out = .stop ∧ (stepMap rec [a, p] st).kids = [a, (rec p).p] := by
  simp [stepMap, stepPoll, ordArgsFirst, pollKids, stepKid, hp]

theorem mapEnumerated_arg_once (rec : Rec) (kids : List Pat) (st : St) (v : Val)
    (h : (stepMapEnumerated rec kids st).out = .val v) (i : Nat) (k : Pat) (hk : kids[i]? = some k) :
    (stepMapEnumerated rec kids st).kids[i]? = some (rec k).p :=
  poll_param_once _ _ ordArgsFirst_nodup rec kids st v h i k (mem_ordArgsFirst _ _ (lt_length_of_getElem? hk)) hk

/-- `PScaleLinLin`: `from_min`, `from_max`, `to_min`, `to_max` (indices 1..4). -/
theorem scaleLinLin_param_once (rec : Rec) (kids : List Pat) (st : St) (v : Val)
    (h : (stepScaleLinLin rec kids st).out = .val v) (i : Nat) (k : Pat) (hk : kids[i]? = some k) :
    (stepScaleLinLin rec kids st).kids[i]? = some (rec k).p :=
  poll_param_once _ _ ordArgsFirst_nodup rec kids st v h i k (mem_ordArgsFirst _ _ (lt_length_of_getElem? hk)) hk

/-- `PScaleLinExp` (for any power function). -/
theorem scaleLinExp_param_once (pw : Rat → Rat → Out) (rec : Rec) (kids : List Pat) (st : St) (v : Val)
    (h : (stepScaleLinExp pw rec kids st).out = .val v) (i : Nat) (k : Pat) (hk : kids[i]? = some k) :
    (stepScaleLinExp pw rec kids st).kids[i]? = some (rec k).p :=
  poll_param_once _ _ ordArgsFirst_nodup rec kids st v h i k (mem_ordArgsFirst _ _ (lt_length_of_getElem? hk)) hk

/-- `PRound.ndigits`. -/
theorem round_ndigits_once (rec : Rec) (kids : List Pat) (st : St) (v : Val)
    (h : (stepRound rec kids st).out = .val v) (i : Nat) (k : Pat) (hk : kids[i]? = some k) :
    (stepRound rec kids st).kids[i]? = some (rec k).p :=
  poll_param_once _ _ ordArgsFirst_nodup rec kids st v h i k (mem_ordArgsFirst _ _ (lt_length_of_getElem? hk)) hk

/-- `PScalar.method`. -/
theorem scalar_method_once (rec : Rec) (kids : List Pat) (st : St) (v : Val)
    (h : (stepScalar rec kids st).out = .val v) (i : Nat) (k : Pat) (hk : kids[i]? = some k) :
    (stepScalar rec kids st).kids[i]? = some (rec k).p :=
  poll_param_once _ _ ordArgsFirst_nodup rec kids st v h i k (mem_ordArgsFirst _ _ (lt_length_of_getElem? hk)) hk

/-- `PWrap.min` (index 1) and `PWrap.max` (index 2) — after fix 04 — also on a step that yields a rest. -/
theorem wrap_bounds_once (rec : Rec) (kids : List Pat) (st : St) (v : Val)
    (h : (stepWrap rec kids st).out = .val v) (i : Nat) (hi : i < 3) (k : Pat) (hk : kids[i]? = some k) :
    (stepWrap rec kids st).kids[i]? = some (rec k).p :=
  poll_param_once _ _ (fun _ => by decide) rec kids st v h i k
    (by have : i = 0 ∨ i = 1 ∨ i = 2 := by omega
        rcases this with rfl | rfl | rfl <;> simp) hk

/-- `PIndexOf.list` (index 0) and `PIndexOf.item` (index 1). -/
theorem indexOf_param_once (rec : Rec) (kids : List Pat) (st : St) (v : Val)
    (h : (stepIndexOf rec kids st).out = .val v) (i : Nat) (hi : i < 2) (k : Pat) (hk : kids[i]? = some k) :
    (stepIndexOf rec kids st).kids[i]? = some (rec k).p :=
  poll_param_once _ _ (fun _ => by decide) rec kids st v h i k
    (by have : i = 0 ∨ i = 1 := by omega
        rcases this with rfl | rfl <;> simp) hk

/-- `PDegree.degree` (index 0) and `PDegree.scale` (index 1), also on a rest degree. -/
theorem degree_param_once (rec : Rec) (kids : List Pat) (st : St) (v : Val)
    (h : (stepDegree rec kids st).out = .val v) (i : Nat) (hi : i < 2) (k : Pat) (hk : kids[i]? = some k) :
    (stepDegree rec kids st).kids[i]? = some (rec k).p :=
  poll_param_once _ _ (fun _ => by decide) rec kids st v h i k
    (by have : i = 0 ∨ i = 1 := by omega
        rcases this with rfl | rfl <;> simp) hk

/-- `PTri.length / min / max`. -/
theorem tri_param_once (rec : Rec) (kids : List Pat) (st : St) (v : Val)
    (h : (stepTri rec kids st).out = .val v) (i : Nat) (hi : i < 3) (k : Pat) (hk : kids[i]? = some k) :
    (stepTri rec kids st).kids[i]? = some (rec k).p :=
  poll_param_once _ _ (fun _ => by decide) rec kids st v h i k
    (by have : i = 0 ∨ i = 1 ∨ i = 2 := by omega
        rcases this with rfl | rfl | rfl <;> simp) hk

/-- `PSaw.length / min / max`. -/
theorem saw_param_once (rec : Rec) (kids : List Pat) (st : St) (v : Val)
    (h : (stepSaw rec kids st).out = .val v) (i : Nat) (hi : i < 3) (k : Pat) (hk : kids[i]? = some k) :
    (stepSaw rec kids st).kids[i]? = some (rec k).p :=
  poll_param_once _ _ (fun _ => by decide) rec kids st v h i k
    (by have : i = 0 ∨ i = 1 ∨ i = 2 := by omega
        rcases this with rfl | rfl | rfl <;> simp) hk

/-- In closed form for `PWrap`: input, `min`, `max` each one step further, nothing else changed. -/
theorem wrap_kids_after (rec : Rec) (a mn mx : Pat) (st : St) (x lo hi : Val)
    (ha : (rec a).out = .val x) (hl : (rec mn).out = .val lo) (hh : (rec mx).out = .val hi) :
    (stepWrap rec [a, mn, mx] st).kids = [(rec a).p, (rec mn).p, (rec mx).p] ∧
    (stepWrap rec [a, mn, mx] st).out = wrapVal [x, lo, hi] := by
  simp [stepWrap, stepPoll, pollKids, stepKid, ha, hl, hh, pure1]

/-- `PChanged` / `PDiff`: once `current` is loaded, the source is consumed exactly once per step. -/
theorem delta_source_once (g : Val → Val → Out) (rec : Rec) (a : Pat) (st : St) (h : st.n0 ≠ 0) :
    (stepDelta g rec [a] st).kids = [(rec a).p] := by
  simp only [stepDelta, h, if_false]
  split <;> simp [stepKid]

/-! Non-vacuity: a varying `max` is consumed in step with the input. -/
example : clsOuts stepWrap (stepF 5) 4
    [.node .seq [Pat.const (.int 7)] { n0 := -1 }, Pat.const (.int 0),
     .node .seq [Pat.const (.int 5), Pat.const (.int 4)] { n0 := -1 }] {} =
    [.val (.int 2), .val (.int 3), .val (.int 2), .val (.int 3)] := by decide +kernel

end IsobarV.C12
