/-
C12 (re-targeting a reference takes effect from the very next step; a varying pattern is consumed one value per
use, in order) and C07 (a globals read returns the latest value set, or the default) for the BY-NAME reference:
`PGlobals(name)` over `Globals` holding scalars and patterns (`Static/Model.lean`, `GEnv`).  The harness drives the
real `Globals` / `PGlobals` and this model with the same set / read sequences (`driver static`: gset / gget).
-/
import IsobarV.Static.Model

namespace IsobarV.C12
open IsobarV.Static

@[simp] theorem lookup_set_same (e : GEnv) (k : String) (v : GVal) : (e.set k v).lookup k = some v := by
  simp [GEnv.set, GEnv.lookup]

theorem lookup_set_other (e : GEnv) (k k' : String) (v : GVal) (h : k' ≠ k) : (e.set k v).lookup k' = e.lookup k' := by
  have : ((k, v).1 == k') = false := by simpa using fun hh => h hh.symm
  simp [GEnv.set, GEnv.lookup, this]

/-- **A globals read returns the latest value set** (scalar target) and leaves the environment alone … -/
theorem read_after_set_scalar (e : GEnv) (k v : String) :
    (e.set k (.scalar v)).read k = (some v, e.set k (.scalar v)) := by
  simp [GEnv.read]

/-- … **or the default** when the name was never set. -/
theorem read_unset_is_default (e : GEnv) (k : String) (h : e.lookup k = none) : e.read k = (none, e) := by
  simp [GEnv.read, h]

/-- **Re-targeting takes effect from the very next step**: after `Globals.set(k, pattern)` the next read of `k` is the
    new pattern's FIRST value — whatever `k` held before and however far that had been read. -/
theorem retarget_next_step (e : GEnv) (k : String) (a : String) (rest : List String) :
    ((e.set k (.seq (a :: rest) 0)).read k).1 = some a := by
  simp [GEnv.read]

/-- a read of a pattern target returns the element at its position and moves the position by one -/
theorem read_seq (e : GEnv) (k : String) (vals : List String) (pos : Nat) (hv : vals ≠ [])
    (h : e.lookup k = some (.seq vals pos)) :
    (e.read k).1 = vals[pos % vals.length]? ∧ (e.read k).2.lookup k = some (.seq vals (pos + 1)) := by
  cases vals with
  | nil => exact absurd rfl hv
  | cons a r =>
    simp only [GEnv.read, h]
    refine ⟨by simp, by simp [GEnv.lookup]⟩

/-- **One value per read, in order, never skipped and never read twice**: `n` successive reads of a name that holds a
    pattern at position `pos` deliver its elements `pos, pos + 1, …` (cyclically), whoever reads. -/
theorem reads_walk_the_pattern (k : String) (vals : List String) (hv : vals ≠ []) (n : Nat) :
    ∀ (e : GEnv) (pos : Nat), e.lookup k = some (.seq vals pos) →
      (e.reads k n).1 = (List.range n).map (fun i => vals[(pos + i) % vals.length]?) ∧
      (e.reads k n).2.lookup k = some (.seq vals (pos + n)) := by
  induction n with
  | zero => intro e pos h; exact ⟨rfl, h⟩
  | succ n ih =>
    intro e pos h
    obtain ⟨h1, h2⟩ := read_seq e k vals pos hv h
    obtain ⟨i1, i2⟩ := ih (e.read k).2 (pos + 1) h2
    simp only [GEnv.reads]
    refine ⟨?_, ?_⟩
    · rw [i1, h1, List.range_succ_eq_map]
      simp only [List.map_cons, List.map_map, Nat.add_zero]
      congr 1
      apply List.map_congr_left
      intro i _
      simp only [Function.comp]
      congr 2
      omega
    · rw [i2]; congr 2; omega

/-- … in particular right after a re-target: the new pattern from its start. -/
theorem reads_after_retarget (e : GEnv) (k : String) (vals : List String) (hv : vals ≠ []) (n : Nat) :
    ((e.set k (.seq vals 0)).reads k n).1 = (List.range n).map (fun i => vals[i % vals.length]?) := by
  have := (reads_walk_the_pattern k vals hv n (e.set k (.seq vals 0)) 0 (by simp)).1
  simpa using this

/-- **Names do not interfere**: reading (and thereby advancing) one name changes no other name's target. -/
theorem read_other_untouched (e : GEnv) (k k' : String) (h : k' ≠ k) : (e.read k).2.lookup k' = e.lookup k' := by
  unfold GEnv.read
  split
  · rfl
  · rfl
  · split
    · rfl
    · have : (k == k') = false := by simpa using fun hh => h hh.symm
      simp [GEnv.lookup, this]

example : (GEnv.reads (GEnv.set [] "a" (.seq ["1", "2", "3"] 0)) "a" 4).1 = [some "1", some "2", some "3", some "1"] := by
  decide +kernel
example : (GEnv.reads (GEnv.set (GEnv.reads (GEnv.set [] "a" (.seq ["1", "2", "3"] 0)) "a" 2).2 "a" (.seq ["9", "8"] 0)) "a" 3).1 =
    [some "9", some "8", some "9"] := by decide +kernel

end IsobarV.C12
