/-
C05 — quantize and delay start tracks on the requested grid; updates switch cleanly.

About `Timeline._schedule_action` (`schedTime`), `Track.update` (`updateCore`), `Track.start`,
the action phase of `Timeline.tick` (`fireActions`) in the scheduler model; for every call time, every
quantize `qz ≥ 0`, delay `dl ≥ 0` (units), every tick resolution.
-/
import IsobarV.Sched.Balance
import IsobarV.Props.C02
import IsobarV.Sched.Solo

namespace IsobarV.C05
open IsobarV.Sched

/-- `quantize = 0`: the start time is the call time plus the delay. -/
theorem schedTime_unquantized (q now dl : Nat) : schedTime q now 0 dl = now * q + dl := by
  simp [schedTime]

/-- **The quantized start time is the first grid point at or after the call time, plus the delay**:
    `G = schedTime − dl` is a multiple of `qz`, `t ≤ G < t + qz`. -/
theorem schedTime_spec (q now qz dl : Nat) (hqz : 0 < qz) :
    ∃ G, schedTime q now qz dl = G + dl ∧ qz ∣ G ∧ now * q ≤ G ∧ G < now * q + qz := by
  refine ⟨qz * cdiv (now * q) qz, by simp [schedTime, Nat.ne_of_gt hqz], Nat.dvd_mul_right _ _, ?_, ?_⟩
  · have := (C02.cdiv_spec qz (now * q) hqz).1; rw [Nat.mul_comm qz]; exact this
  · have h := (C02.cdiv_spec qz (now * q) hqz).2
    rcases Nat.eq_zero_or_pos (cdiv (now * q) qz) with h0 | hpos
    · simp [h0]; omega
    · have := h (cdiv (now * q) qz - 1) (by omega)
      have e : qz * cdiv (now * q) qz = (cdiv (now * q) qz - 1) * qz + qz := by
        have : cdiv (now * q) qz = (cdiv (now * q) qz - 1) + 1 := by omega
        conv => lhs; rw [this, Nat.mul_comm, Nat.add_mul]; simp
      omega

/-- **A call time already on the grid counts as quantized.** -/
theorem schedTime_on_grid (q now qz dl : Nat) (hqz : 0 < qz) (hgrid : qz ∣ now * q) :
    schedTime q now qz dl = now * q + dl := by
  obtain ⟨G, h1, ⟨a, ha⟩, h3, h4⟩ := schedTime_spec q now qz dl hqz
  obtain ⟨b, hb⟩ := hgrid
  rw [h1]
  have : a = b := by
    rcases Nat.lt_trichotomy a b with h | h | h
    · have := Nat.mul_le_mul_left qz (Nat.succ_le_of_lt h); rw [Nat.mul_succ] at this; omega
    · exact h
    · have := Nat.mul_le_mul_left qz (Nat.succ_le_of_lt h); rw [Nat.mul_succ] at this; omega
  subst this; omega

/-- **The start fires on the first tick at or after the scheduled time**: a queued start with time
    `T` is due at tick `n` iff `T ≤ n·q`, so it fires at tick `⌈T / q⌉` (and at no earlier tick). -/
theorem start_fires_at (tl : TL) (a : PAct) : PAct.due tl a = true ↔ a.time ≤ tl.now * tl.q := by
  simp [PAct.due]

theorem first_fire_tick (q T n : Nat) (hq : 0 < q) :
    (T ≤ n * q ∧ ∀ n', n' < n → ¬ T ≤ n' * q) ↔ n = cdiv T q := C02.first_due_tick q T n hq

/-- **Explicit arguments override the timeline defaults, device latency is added to the delay; an
    update with quantize = delay = 0 switches at once, any other update leaves the track playing its
    old stream untouched and queues exactly one start for the computed time.** -/
theorem update_semantics (tl : TL) (t : Track) (sid : Nat) (qz dl count : Option Nat) :
    updateCore tl t sid qz dl count =
      (if qz.getD tl.defQz = 0 ∧ dl.getD tl.defDl + tl.latency = 0 then
        { t := Track.start tl.q (match count with | some c => { t with maxCount := c } | none => t) sid, act := none }
      else
        { t := (match count with | some c => { t with maxCount := c } | none => t),
          act := some { time := schedTime tl.q tl.now (qz.getD tl.defQz) (dl.getD tl.defDl + tl.latency),
                        tid := t.id, sid := sid } }) := by
  unfold updateCore; rfl

/-- `Track.start` switches to the new stream from its beginning, makes its first event due at the
    current local time, and leaves sounding notes (pending note-offs) alone. -/
theorem start_semantics (q : Nat) (t : Track) (sid : Nat) :
    (t.start q sid).sid = sid ∧ (t.start q sid).pos = 0 ∧ (t.start q sid).nxt = ((t.cur * q : Nat) : Int) ∧
    (t.start q sid).started = true ∧ (t.start q sid).offs = t.offs ∧ (t.start q sid).cur = t.cur := by
  simp [Track.start]

/-- **When several starts for one track are due in the same tick, the one requested last wins.** -/
theorem last_update_wins (tl : TL) (a b : PAct) (t : Track) (hf : tl.find a.tid = some t) (hab : b.tid = a.tid) :
    ∃ t', (fireOne (fireOne tl a) b).find a.tid = some t' ∧ t'.sid = b.sid ∧ t'.pos = 0 ∧ t'.offs = t.offs := by
  have hid := findTrack_id hf
  have h1 : (fireOne tl a).find a.tid = some (t.start tl.q a.sid) := by
    simp only [fireOne, hf]
    have : tl.find (t.start tl.q a.sid).id = some t := by simpa [Track.start, hid] using hf
    have := find_setTrack this
    simpa [Track.start, hid] using this
  refine ⟨(t.start tl.q a.sid).start (fireOne tl a).q b.sid, ?_, by simp [Track.start], by simp [Track.start], by simp [Track.start]⟩
  simp only [fireOne, hab] at h1 ⊢
  simp only [hf] at h1 ⊢
  simp only [h1]
  have h2 : (tl.setTrack (t.start tl.q a.sid)).find ((t.start tl.q a.sid).start (tl.setTrack (t.start tl.q a.sid)).q b.sid).id
      = some (t.start tl.q a.sid) := by simpa [Track.start, hid] using h1
  have := find_setTrack h2
  simpa [Track.start, hid] using this

/-- The starts that are due fire in request order and exactly the not-yet-due ones stay queued. -/
theorem fireActions_queue (tl : TL) :
    (fireActions tl).actions = tl.actions.filter (fun a => ! PAct.due tl a) ∧
    (fireActions tl).tracks = ((tl.actions.filter (PAct.due tl)).foldl fireOne tl).tracks := by
  simp [fireActions]

/-! ### Old stream until the switch tick, new stream from it

With unique track identities the action phase is computed track by track (`foldl_fireOne_tracks`):
a track is touched only by the due starts addressed to it. -/

theorem applyStarts_none (q : Nat) (as : List PAct) (t : Track) (h : ∀ a ∈ as, a.tid ≠ t.id) :
    applyStarts q as t = t := by
  induction as generalizing t with
  | nil => rfl
  | cons a as ih =>
    have ha := h a (by simp)
    have : startIf q a t = t := by
      unfold startIf; split
      · rename_i hh; exact absurd hh.symm ha
      · rfl
    simp only [applyStarts, List.foldl_cons, this]
    exact ih t (fun b hb => h b (by simp [hb]))

/-- **Until its start is due an updated track keeps playing its old stream**: in a tick in which no
    start addressed to the track is due, the action phase leaves the track exactly as it was (same
    stream, same position, same next-event time). -/
theorem keeps_old_stream_until_due (tl : TL) (hnd : (tl.tracks.map Track.id).Nodup) (t : Track) (ht : t ∈ tl.tracks)
    (hnot : ∀ a ∈ tl.actions, a.tid = t.id → PAct.due tl a = false) :
    t ∈ (fireActions tl).tracks := by
  obtain ⟨f1, _, _⟩ := foldl_fireOne_tracks (tl.actions.filter (PAct.due tl)) tl hnd
  simp only [fireActions, f1, List.mem_map]
  refine ⟨t, ht, applyStarts_none _ _ _ ?_⟩
  intro a ha heq
  simp only [List.mem_filter] at ha
  have := hnot a ha.1 heq
  rw [this] at ha
  exact absurd ha.2 (by simp)

/-- **From the tick at which its start is due, only the new stream**: if the due starts addressed to
    the track end with `a` (the one requested last), the action phase leaves the track on `a`'s stream,
    at its beginning, first event due at once, sounding notes untouched. -/
theorem applyStarts_last (q : Nat) (as : List PAct) (a : PAct) (t : Track) (ha : a.tid = t.id) :
    (applyStarts q (as ++ [a]) t).sid = a.sid ∧ (applyStarts q (as ++ [a]) t).pos = 0 ∧
    (applyStarts q (as ++ [a]) t).started = true ∧ (applyStarts q (as ++ [a]) t).offs = t.offs ∧
    (applyStarts q (as ++ [a]) t).nxt = ((t.cur * q : Nat) : Int) := by
  have hid : ∀ (bs : List PAct) (u : Track), (applyStarts q bs u).id = u.id ∧ (applyStarts q bs u).offs = u.offs ∧
      (applyStarts q bs u).cur = u.cur := by
    intro bs
    induction bs with
    | nil => intro u; exact ⟨rfl, rfl, rfl⟩
    | cons b bs ih =>
      intro u
      simp only [applyStarts, List.foldl_cons]
      have h := ih (startIf q b u)
      simp only [applyStarts] at h
      have hs : (startIf q b u).id = u.id ∧ (startIf q b u).offs = u.offs ∧ (startIf q b u).cur = u.cur := by
        unfold startIf; split <;> simp [Track.start]
      exact ⟨h.1.trans hs.1, h.2.1.trans hs.2.1, h.2.2.trans hs.2.2⟩
  obtain ⟨i1, i2, i3⟩ := hid as t
  simp only [applyStarts, List.foldl_append, List.foldl_cons, List.foldl_nil]
  simp only [applyStarts] at i1 i2 i3
  generalize List.foldl (fun t a => startIf q a t) t as = u at i1 i2 i3
  have hs : startIf q a u = u.start q a.sid := by unfold startIf; rw [if_pos (by rw [i1, ha])]
  rw [hs]
  simp [Track.start, i2, i3]

/-! ### Calls made from inside action callbacks

A callback runs in the event phase of a tick: it sees the timeline as it is at that moment — the time of
the tick in progress (`now` advances only at the end of `Timeline.tick`), the tracks as left by the tracks
served before it — and its calls are the very same `applyOp`s.  So every theorem above that is stated for
an arbitrary timeline state `tl` (`update_semantics`, `schedTime_spec`, `schedTime_on_grid`) holds verbatim
for calls made from a callback; the two lemmas below make the instantiation explicit. -/

/-- What an (unmuted, active) action event does to the timeline is exactly its script run on the timeline
    as it stands, and it makes no device call of its own. -/
theorem callback_runs_ops (tl : TL) (t : Track) (d : Nat) (ops : List Op) (out : Outcome) (hm : t.muted = false) :
    (performEvent tl t d true (.action ops out)).tl = (applyOps tl ops).tl ∧
    (performEvent tl t d true (.action ops out)).calls = (applyOps tl ops).calls := by
  simp [performEvent, hm]

/-- An `update` issued from a callback during the tick in progress (time `tl.now`) on a track `t` of the
    timeline: quantized to the first grid point at or after the time of THIS tick, plus delay and latency
    (first component of `update_semantics`, at the callback's timeline). -/
theorem callback_update_time (tl : TL) (tid sid : Nat) (qz dl count : Option Nat) (t : Track)
    (hf : tl.find tid = some t) (hq : ¬ (qz.getD tl.defQz = 0 ∧ dl.getD tl.defDl + tl.latency = 0)) :
    (applyOp tl (.update tid sid qz dl count)).tl.actions =
      tl.actions ++ [{ time := schedTime tl.q tl.now (qz.getD tl.defQz) (dl.getD tl.defDl + tl.latency), tid := t.id, sid := sid }] := by
  simp only [applyOp, hf, TL.updateTrack, updateCore, hq, if_false, TL.setTrack, Option.toList]

/-! Non-vacuity -/
example : schedTime 20 24 480 0 = 480 := by decide            -- tick 24 of 24/beat = beat 1, on the 1-beat grid
example : schedTime 20 25 480 120 = 960 + 120 := by decide    -- just after beat 1 → beat 2, plus delay
example : (480 : Nat) ∣ 24 * 20 := by decide

end IsobarV.C05
