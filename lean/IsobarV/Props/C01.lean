/-
C01 — event onsets fall on the exact tick of their cumulative duration, drift-free.

Statements are about the clock part of `Track.tick` in the scheduler model
(`clockTick` = the pull loop `while round(current_time) >= round(next_event_time)` + the time
increment; `IsobarV.Sched.Onset`), for EVERY tick resolution `q ≥ 1` (units per tick), EVERY stream of
durations `d i ≥ q` (on or off the tick grid), EVERY run length `j`, from ANY playing state whose next
event is not overdue by a whole tick (in particular right after `Track.start`, and right after a
`nudge` that does not skip events).
-/
import IsobarV.Sched.Onset
import IsobarV.Sched.Solo

namespace IsobarV.C01
open IsobarV.Sched

/-- **Closed form.**  Event `k` (counted in its stream) is performed in local tick `t0.cur + j` iff that
    is the first tick at or after its ideal time `t0.nxt + (S d k − S d t0.pos)`, the exact sum of the
    preceding durations — for every `j` and `k`; in particular it is performed in exactly one tick and
    no other event is performed in that tick. -/
theorem onset_closed_form {W : World} {q : Nat} {d : Nat → Nat} {t0 : Track}
    (hd : ∀ i, q ≤ d i) (hW : HasDurs W t0.sid d) (hmax : t0.maxCount = 0)
    (hguard : tm q t0.cur - q < t0.nxt) (j k : Nat) :
    fired W q (clockRun W q t0 j) = some k ↔
      (t0.pos ≤ k ∧ FirstTick q (t0.nxt + ((S d k : Int) - S d t0.pos)) (t0.cur + j)) :=
  fired_iff hd hW hmax hguard j k

/-- `FirstTick` on the grid of a fresh start is the ceiling: with `T` units after a start at local
    tick `c`, the first tick at or after it is `c + ⌈T / q⌉`. -/
theorem firstTick_iff_cdiv (q c T j : Nat) (hq : 0 < q) :
    FirstTick q (tm q c + T) (c + j) ↔ j = cdiv T q := by
  have hadd : tm q (c + j) = tm q c + tm q j := by simp [tm, Nat.add_mul]
  have h1 : q * (cdiv T q) ≤ T + q - 1 := Nat.mul_div_le _ _
  have h2 : T + q - 1 < q * (cdiv T q + 1) := Nat.lt_mul_div_succ _ hq
  rw [Nat.mul_succ, Nat.mul_comm] at h2
  rw [Nat.mul_comm] at h1
  have hc : tm q (cdiv T q) = ((cdiv T q * q : Nat) : Int) := rfl
  constructor
  · rintro ⟨a, b⟩
    rw [hadd] at a b
    rcases Nat.lt_trichotomy j (cdiv T q) with h | h | h
    · have := tm_lt_step (q := q) h; omega
    · exact h
    · have := tm_lt_step (q := q) h; omega
  · rintro rfl
    rw [FirstTick, hadd]
    constructor <;> omega

/-- **From a start.**  A track started at local tick `c` (`Track.start` sets `next_event_time` to the
    current time) performs its `k`-th event exactly `⌈S d k / q⌉` ticks later — each event rounded up
    to the tick grid on its own. -/
theorem onset_from_start {W : World} {q : Nat} {d : Nat → Nat} {t0 : Track} (hq : 0 < q)
    (hd : ∀ i, q ≤ d i) (hW : HasDurs W t0.sid d) (hmax : t0.maxCount = 0)
    (hstart : t0.nxt = tm q t0.cur) (hpos : t0.pos = 0) (j k : Nat) :
    fired W q (clockRun W q t0 j) = some k ↔ j = cdiv (S d k) q := by
  have hguard : tm q t0.cur - q < t0.nxt := by omega
  rw [onset_closed_form hd hW hmax hguard j k, hstart, hpos]
  have : tm q t0.cur + ((S d k : Int) - (S d 0 : Nat)) = tm q t0.cur + (S d k : Nat) := by simp [S]
  rw [this, firstTick_iff_cdiv q t0.cur (S d k) j hq]
  simp

/-- **No drift.**  The distance between the tick an event is performed in and its ideal time is in
    `[0, q)` whatever came before: the rounding error does not grow with `k` or with the run length. -/
theorem no_drift {q : Nat} {T : Int} {j : Nat} (h : FirstTick q T j) : 0 ≤ tm q j - T ∧ tm q j - T < q := by
  obtain ⟨a, b⟩ := h; constructor <;> omega

/-- **Rounding never accumulates.**  The tick of an event depends on its ideal time alone: two tracks
    (different streams, different earlier durations, different histories of roundings) whose events
    have the same ideal time perform them in the same tick. -/
theorem rounding_independent {W W' : World} {q : Nat} {d d' : Nat → Nat} {t0 t0' : Track}
    (hd : ∀ i, q ≤ d i) (hd' : ∀ i, q ≤ d' i) (hW : HasDurs W t0.sid d) (hW' : HasDurs W' t0'.sid d')
    (hmax : t0.maxCount = 0) (hmax' : t0'.maxCount = 0)
    (hg : tm q t0.cur - q < t0.nxt) (hg' : tm q t0'.cur - q < t0'.nxt)
    (j j' k k' : Nat)
    (hsame : t0.nxt + ((S d k : Int) - S d t0.pos) = t0'.nxt + ((S d' k' : Int) - S d' t0'.pos))
    (hf : fired W q (clockRun W q t0 j) = some k) (hf' : fired W' q (clockRun W' q t0' j') = some k') :
    t0.cur + j = t0'.cur + j' := by
  have h1 := ((onset_closed_form hd hW hmax hg j k).mp hf).2
  have h2 := ((onset_closed_form hd' hW' hmax' hg' j' k').mp hf').2
  rw [hsame] at h1
  exact h1.unique h2

/-- **Nudge.**  `Track.nudge x` adds `x` to `next_event_time`.  If the nudged time is still not
    overdue by a whole tick (otherwise events are skipped, see the example below), every later event
    `k` is performed on the first tick at or after its old ideal time plus exactly `x`. -/
theorem nudge_shift {W : World} {q : Nat} {d : Nat → Nat} {t : Track} (x : Int)
    (hd : ∀ i, q ≤ d i) (hW : HasDurs W t.sid d) (hmax : t.maxCount = 0)
    (hguard : tm q t.cur - q < t.nxt + x) (j k : Nat) :
    fired W q (clockRun W q { t with nxt := t.nxt + x } j) = some k ↔
      (t.pos ≤ k ∧ FirstTick q ((t.nxt + ((S d k : Int) - S d t.pos)) + x) (t.cur + j)) := by
  have := onset_closed_form (t0 := { t with nxt := t.nxt + x }) hd hW hmax hguard j k
  rw [this]
  have e : t.nxt + x + ((S d k : Int) - S d t.pos) = t.nxt + ((S d k : Int) - S d t.pos) + x := by omega
  simp only [e]

/-- The local time of a playing track advances by exactly one tick per tick. -/
theorem local_time_advances (W : World) (q : Nat) (t : Track) : (clockTick W q t).cur = t.cur + 1 := by
  unfold clockTick
  split
  · have := pullLoop_cur W q (t.fuel q) t .stop
    simp [this]
  · rfl

/-- The clock fields of a track record. -/
def clockOf (t : Track) : Nat × Int × Nat × Nat × Nat := (t.cur, t.nxt, t.pos, t.sid, t.count)

theorem performSolo_clock (q : Nat) (t : Track) (a : Bool) (k : EvKind) :
    clockOf (performSolo q t a k).t = clockOf t := by
  unfold performSolo
  split
  · rfl
  · cases k <;> simp only [] <;> (try split) <;> rfl

/-- **The closed form is about the track as it runs in the timeline.**  In a tick that ends normally
    the per-track tick function (`soloTick`, by `C07.non_interference` the way a track evolves inside a
    timeline tick) moves the clock fields of a playing track exactly as `clockTick` does — whatever the
    event was (note, chord, control, rest, muted or inactive). -/
theorem solo_clock (W : World) (q : Nat) (t : Track) (hs : t.started = true) (hok : (soloTick W q t).out = .ok) :
    clockOf (soloTick W q t).t = clockOf (clockTick W q t) := by
  unfold soloTick clockTick at *
  simp only [hs] at hok ⊢
  simp only [Bool.true_eq_false, if_false] at hok ⊢
  split
  · rename_i hdue
    simp only [hdue, if_true] at hok
    generalize Track.pullLoop W q (t.fuel q) t .stop = p at hok
    unfold soloAfterPull at hok ⊢
    split
    · simp_all
    · simp_all
    · rfl
    · rename_i d a k hr
      simp only [hr] at hok
      split
      · rename_i hraise; simp [hraise] at hok
      · have := performSolo_clock q p.t a k
        simp only [clockOf, Prod.mk.injEq] at this ⊢
        simp [endSolo, this]
  · rfl

/-! Non-vacuity and the excluded region. -/
section Examples
def exW : World := fun _ _ => some (.ev 7 true (.note [{ note := 60, amp := 64, len := 3, gpos := true, chan := 0 }]))
def exT : Track := { id := 0, name := none, sid := 0, pos := 0, started := true, cur := 0, nxt := 0, count := 0,
                     maxCount := 0, offs := [], muted := false, finished := false, rwd := true }
-- off-grid durations (7 units at 3 units per tick): events 0,1,2,3 at ticks 0, ⌈7/3⌉=3, ⌈14/3⌉=5, 7
example : (List.range 8).map (fun j => fired exW 3 (clockRun exW 3 exT j))
    = [some 0, none, none, some 1, none, some 2, none, some 3] := by decide
example : HasDurs exW exT.sid (fun _ => 7) ∧ (∀ i : Nat, 3 ≤ (fun _ => 7) i) ∧ tm 3 exT.cur - 3 < exT.nxt := by
  refine ⟨fun i => ⟨true, _, rfl⟩, fun _ => by simp, by decide⟩
-- outside the guard a nudge far into the past makes the pull loop skip events (event 1 is never performed):
example : (List.range 4).map (fun j => fired exW 3 (clockRun exW 3 { exT with nxt := -8 } j))
    = [some 1, none, some 2, none] := by decide
end Examples

end IsobarV.C01
