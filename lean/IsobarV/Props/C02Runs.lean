/-
C02 over whole runs: every note-off is sent on the first tick at or after its time, in every tick of a
multi-track run.

`C02.timely_invariant` is about one step of the per-track function; `C07.run_is_merge` shows that in a
timeline whose tracks do not call the timeline API every track follows its own trajectory, step by step
by that very function.  Together: after any number of ticks every track of the timeline is `Timely`, so
whatever the note-off phase of the next tick releases is released exactly on time
(`released_on_first_due_tick`).
-/
import IsobarV.Props.C02
import IsobarV.Props.C07Runs

namespace IsobarV.C02
open IsobarV.Sched IsobarV.C07

/-- one step of a track's own trajectory leaves it timely -/
theorem trackNext_timely (W : World) (hWF : WorldWF W) (f : Frame) (hq : 0 < f.q) (t u : Track)
    (h : trackNext W f t = some u) : Timely f.q u := by
  unfold trackNext survivor at h
  split at h
  · cases h
    exact timely_invariant W hWF f.q hq (f.actions.filter f.due) t
  · cases h

/-- … hence every state on the trajectory, from the first tick on -/
theorem alone_timely (W : World) (hWF : WorldWF W) (f : Frame) (hq : 0 < f.q) (n : Nat) (t u : Track)
    (h : alone W f (n + 1) t = some u) : Timely f.q u := by
  simp only [alone] at h
  cases ha : alone W f n t with
  | none => rw [ha] at h; cases h
  | some v =>
    rw [ha] at h
    simp only [Option.bind_some] at h
    have hq' : 0 < (f.after n).q := by rw [Frame.after_q]; exact hq
    have := trackNext_timely W hWF (f.after n) hq' v u h
    rwa [Frame.after_q] at this

/-- **After any number of ticks (at least one) every track of the timeline is timely** — tracks without
    action callbacks, durations of at least one unit, well-formed voices, unique identities, stop-when-done
    off; tolerant mode or a world without faults. -/
theorem all_tracks_timely (W : World) (hW : NoActions W) (hP : PosDur W) (hWF : WorldWF W) (tl : TL)
    (hnd : (tl.tracks.map Track.id).Nodup) (hmode : tl.tolerant = true ∨ Faultless W) (hs : tl.stopWhenDone = false)
    (hq : 0 < tl.q) (n : Nat) :
    ∀ t ∈ (ticks W (n + 1) tl).tracks, Timely tl.q t := by
  obtain ⟨h1, _, _⟩ := run_is_merge W hW hP tl hnd hmode hs (n + 1)
  intro t ht
  rw [h1, stateAfter_tracks] at ht
  obtain ⟨t0, _, h0⟩ := List.mem_filterMap.mp ht
  exact alone_timely W hWF (frameOf tl) hq n t0 t h0

/-- **Every note-off of every tick of the run is on time**: what the note-off phase of tick `n + 2` releases
    for a track is due on exactly that track's local tick — the first tick at or after the note's onset +
    duration × gate. -/
theorem every_release_on_time (W : World) (hW : NoActions W) (hP : PosDur W) (hWF : WorldWF W) (tl : TL)
    (hnd : (tl.tracks.map Track.id).Nodup) (hmode : tl.tolerant = true ∨ Faultless W) (hs : tl.stopWhenDone = false)
    (hq : 0 < tl.q) (n : Nat) (t : Track) (ht : t ∈ (ticks W (n + 1) tl).tracks) (o : NoteOff)
    (ho : o ∈ dueOffs tl.q t) : t.cur = cdiv o.time tl.q :=
  released_on_first_due_tick tl.q hq t (all_tracks_timely W hW hP hWF tl hnd hmode hs hq n t ht) o ho

end IsobarV.C02
