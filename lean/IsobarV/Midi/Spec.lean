/-
Specification vocabulary for property C16 (which scores are in the property's domain, and what a
score should read back as).  Definitions only; they are what the theorems in `IsobarV.Props.C16`
are stated with.
-/
import IsobarV.Midi.Model

namespace IsobarV.Midi

/-- `FreeFrom p e now es`: in the events `es` (the first of which starts at tick `now`) no voice of
    pitch `p` starts before tick `e`.  With `e` the end of a sounding note of pitch `p`, this says that
    the note does not overlap a later note of the same pitch. -/
def FreeFrom (p e : Nat) : Nat → List SEv → Prop
  | _, [] => True
  | now, ev :: es => (∀ v ∈ ev.voices, v.pitch = p → e ≤ now) ∧ FreeFrom p e (now + ev.dur) es

/-- Every voice sounds (velocity 1..127, length at least one tick) and a chord has distinct pitches. -/
def VoicesOK (e : SEv) : Prop :=
  (∀ v ∈ e.voices, 1 ≤ v.vel ∧ v.vel ≤ 127 ∧ 1 ≤ v.len) ∧ (e.voices.map (·.pitch)).Nodup

/-- The property's domain: a score whose first event starts at tick `now`, with durations of at
    least one tick, sounding voices, and no two overlapping notes of the same pitch (a note may
    start on the very tick an earlier note of its pitch ends). -/
def ScoreOK : Nat → List SEv → Prop
  | _, [] => True
  | now, e :: es =>
    1 ≤ e.dur ∧ VoicesOK e ∧ (∀ v ∈ e.voices, FreeFrom v.pitch (now + v.len) (now + e.dur) es)
      ∧ ScoreOK (now + e.dur) es

instance decFreeFrom (p e : Nat) : (now : Nat) → (es : List SEv) → Decidable (FreeFrom p e now es)
  | _, [] => isTrue trivial
  | now, ev :: es =>
    have := decFreeFrom p e (now + ev.dur) es
    by unfold FreeFrom; exact inferInstance

instance (e : SEv) : Decidable (VoicesOK e) := by unfold VoicesOK; exact inferInstance

instance decScoreOK : (now : Nat) → (es : List SEv) → Decidable (ScoreOK now es)
  | _, [] => isTrue trivial
  | now, e :: es =>
    have := decScoreOK (now + e.dur) es
    by unfold ScoreOK; exact inferInstance

/-- The note a voice played at tick `now` should read back as. -/
def closedNote (now : Nat) (v : Voice) : RNote :=
  { pitch := v.pitch, vel := v.vel, loc := now, len := some v.len }

/-- The notes of a score in file order: pitch, velocity, onset tick, sounding length. -/
def expectedNotes : Nat → List SEv → List RNote
  | _, [] => []
  | now, e :: es => e.voices.map (closedNote now) ++ expectedNotes (now + e.dur) es

/-- Sum of the durations. -/
def totalDur : List SEv → Nat
  | [] => 0
  | e :: es => e.dur + totalDur es

/-- The latest note end of a score whose first event starts at `now` (0 when there is no note). -/
def lastEnd : Nat → List SEv → Nat
  | _, [] => 0
  | now, e :: es => max ((e.voices.map (fun v => now + v.len)).foldr max 0) (lastEnd (now + e.dur) es)

/-- The length of the longest voice of an event. -/
def longest (e : SEv) : Nat := (e.voices.map (·.len)).foldr max 0

/-- The durations a score reads back with: its own, except that the last event lasts as long as its
    longest note (the silence after it is kept in the file's length, not in the sequence). -/
def heardDurs : List SEv → List Nat
  | [] => []
  | [e] => [longest e]
  | e :: e' :: es => e.dur :: heardDurs (e' :: es)

/-- Scalar for one voice, tuple for a chord. -/
def cellOf {α : Type} : List α → Cell α
  | [a] => .one a
  | as => .many as

/-- Onset ticks of the events of a score whose first event starts at `now`. -/
def onsets : Nat → List SEv → List Nat
  | _, [] => []
  | now, e :: es => now :: onsets (now + e.dur) es

/-- What `read()` should return for the file written from a score: per event the pitches, the
    velocities, the gates `length / heard duration`, and the heard durations. -/
def heardOut (s : List SEv) : ReadOut :=
  { note := s.map (fun e => cellOf (e.voices.map (·.pitch)))
    amp := s.map (fun e => cellOf (e.voices.map (·.vel)))
    gate := List.zipWith (fun e d => cellOf (e.voices.map (fun v => ((v.len : Nat) : Rat) / ((d : Nat) : Rat))))
      s (heardDurs s)
    dur := heardDurs s }

end IsobarV.Midi
