/-
Model of isobar's MIDI-file writer and reader, and of the scheduler fragment that feeds the writer
(`isobar/io/midifile/output.py` : MidiFileOutputDevice.tick / note_on / note_off / write,
 `isobar/io/midifile/input.py`  : MidiFileInputDevice.read  (AFTER fixes/01: every message advances the offset),
 `isobar/timelines/timeline.py`, `track.py` : the order in which one track's notes reach the device).

Units.  All times are whole numbers of FILE ticks (`Nat`).  The code keeps beats in floats
(`offset += event.time / ticks_per_beat`, `self.time += 1.0 / ticks_per_beat`); a model value `n`
stands for the code's `n / ticks_per_beat`.  `gate` is a ratio of two such values and is a `Rat`.
The harness checks that every float the code returns is within 1e-6 tick of the model's integer.

Import-free, total, computable.  Results of model functions are structures, never tuples.
-/
namespace IsobarV.Midi

/-! ## Messages of one MIDI track -/

/-- `on` = mido type `note_on`, `off` = `note_off`, `other` = anything else (controller, pitch-bend,
    program change, sysex, meta events): only its delta time matters to the reader. -/
inductive Kind where
  | on | off | other
  deriving DecidableEq, Repr, Inhabited

structure Msg where
  kind : Kind
  note : Nat := 0
  vel : Nat := 0
  chan : Nat := 0
  /-- delta time in file ticks (`message.time`) -/
  delta : Nat := 0
  deriving DecidableEq, Repr, Inhabited

/-- `event.type == 'note_on' and event.velocity > 0` -/
def Msg.sounding (m : Msg) : Prop := m.kind = .on ∧ 0 < m.vel
/-- `event.type == 'note_off' or (event.type == 'note_on' and event.velocity == 0)` -/
def Msg.closing (m : Msg) : Prop := m.kind = .off ∨ (m.kind = .on ∧ m.vel = 0)

instance (m : Msg) : Decidable m.sounding := by unfold Msg.sounding; exact inferInstance
instance (m : Msg) : Decidable m.closing := by unfold Msg.closing; exact inferInstance

/-! ## Reader: `MidiFileInputDevice.read` -/

/-- `MidiNote(pitch, velocity, location, duration=None)`; `len = none` while the note is open. -/
structure RNote where
  pitch : Nat
  vel : Nat
  loc : Nat
  len : Option Nat
  deriving DecidableEq, Repr, Inhabited

/-- `for note in reversed(notes): if note.pitch == p and note.duration is None:
        note.duration = offset - note.location; break`.
    The model keeps `notes` most-recent-first, so `reversed(notes)` is the list itself. -/
def closeFirst (p off : Nat) : List RNote → List RNote
  | [] => []
  | n :: ns =>
    if n.pitch = p ∧ n.len = none then { n with len := some (off - n.loc) } :: ns
    else n :: closeFirst p off ns

/-- What one message does to the list of notes once the offset has been advanced to `off`. -/
def rApply (off : Nat) (m : Msg) (notes : List RNote) : List RNote :=
  if m.sounding then { pitch := m.note, vel := min m.vel 127, loc := off, len := none } :: notes
  else if m.closing then closeFirst m.note off notes
  else notes

structure RState where
  offset : Nat := 0
  /-- most recent first -/
  notes : List RNote := []
  deriving Repr, Inhabited

/-- One iteration of `for event in track:` (after the fix: the offset advances for EVERY message). -/
def rStep (s : RState) (m : Msg) : RState :=
  { offset := s.offset + m.delta, notes := rApply (s.offset + m.delta) m s.notes }

def readFold (s : RState) (msgs : List Msg) : RState := msgs.foldl rStep s

/-- The list `notes` after the message loop, in the code's order (oldest first). -/
def readNotes (msgs : List Msg) : List RNote := (readFold {} msgs).notes.reverse

/-- Insert into a strictly increasing list, ignoring a value that is already there:
    `sorted(notes_by_time.keys())` built one key at a time. -/
def insertTime (t : Nat) : List Nat → List Nat
  | [] => [t]
  | h :: r => if t < h then t :: h :: r else if t = h then h :: r else h :: insertTime t r

/-- `times = sorted(notes_by_time.keys())` -/
def onsetTimes (notes : List RNote) : List Nat := (notes.map (·.loc)).foldr insertTime []

/-- `notes_by_time[t]` (a dict of lists keeps the notes of one onset in file order). -/
def groupAt (notes : List RNote) (t : Nat) : List RNote := notes.filter (fun n => n.loc == t)

/-- `max([note.duration for note in notes])` (all notes are closed at this point). -/
def maxLen : List RNote → Nat
  | [] => 0
  | n :: ns => max (n.len.getD 0) (maxLen ns)

/-- One chronological group: the notes starting at one onset and the time until the next onset. -/
structure Row where
  notes : List RNote
  dur : Nat
  deriving DecidableEq, Repr, Inhabited

/-- `for i, t in enumerate(times)`: duration = gap to the next onset; the last group lasts as long as
    its longest note. -/
def rows (notes : List RNote) : List Nat → List Row
  | [] => []
  | [t] => [{ notes := groupAt notes t, dur := maxLen (groupAt notes t) }]
  | t :: t' :: ts => { notes := groupAt notes t, dur := t' - t } :: rows notes (t' :: ts)

/-- A scalar (`one`) or a tuple (`many`) entry of a returned sequence. -/
inductive Cell (α : Type) where
  | one (a : α)
  | many (as : List α)
  deriving DecidableEq, Repr, Inhabited

/-- The dict returned by `read()`: four sequences.  `dur` in ticks, `gate` = length / duration. -/
structure ReadOut where
  note : List (Cell Nat) := []
  amp : List (Cell Nat) := []
  gate : List (Cell Rat) := []
  dur : List Nat := []
  deriving DecidableEq, Repr, Inhabited

/-- Exceptions `read()` can raise. -/
inductive ReadErr where
  /-- `ValueError("Could not find any tracks with note data")` -/
  | noNoteTrack
  /-- a note that is never closed: `"%.3f" % None` in the debug line raises `TypeError` -/
  | openNote
  /-- a final chord all of whose notes have length 0: `note.duration / 0.0` -/
  | zeroDivision
  deriving DecidableEq, Repr, Inhabited

/-- Result of `read()`. -/
inductive ReadRes where
  | ok (out : ReadOut)
  | err (e : ReadErr)
  deriving DecidableEq, Repr, Inhabited

def gateOf (d : Nat) (n : RNote) : Rat := ((n.len.getD 0 : Nat) : Rat) / ((d : Nat) : Rat)

/-- Body of the final loop for one group, prepended to the result for the later groups.
    `len(notes) > 1` → tuples (division by a zero duration raises); otherwise a scalar entry, which
    is skipped — but its duration is still appended — when the duration is 0. -/
def addRow (r : Row) (rest : ReadRes) : ReadRes :=
  match rest with
  | .err e => .err e
  | .ok o =>
    match r.notes with
    | [n] =>
      if r.dur = 0 then .ok { o with dur := r.dur :: o.dur }
      else .ok { note := .one n.pitch :: o.note, amp := .one n.vel :: o.amp,
                 gate := .one (gateOf r.dur n) :: o.gate, dur := r.dur :: o.dur }
    | ns =>
      if r.dur = 0 then .err .zeroDivision
      else .ok { note := .many (ns.map (·.pitch)) :: o.note, amp := .many (ns.map (·.vel)) :: o.amp,
                 gate := .many (ns.map (gateOf r.dur)) :: o.gate, dur := r.dur :: o.dur }

def assemble : List Row → ReadRes
  | [] => .ok {}
  | r :: rs => addRow r (assemble rs)

/-- `read()` on the selected track. -/
def readTrack (msgs : List Msg) : ReadRes :=
  let notes := readNotes msgs
  if notes.all (fun n => n.len.isSome) then assemble (rows notes (onsetTimes notes))
  else .err .openNote

/-- `note_tracks = [track for track in tracks if any(message.type == 'note_on' ...)]`, first one. -/
def selectTrack : List (List Msg) → Option (List Msg)
  | [] => none
  | t :: ts => if t.any (fun m => m.kind == .on) then some t else selectTrack ts

/-- `MidiFileInputDevice(filename).read()` on a parsed file. -/
def readFile (tracks : List (List Msg)) : ReadRes :=
  match selectTrack tracks with
  | none => .err .noNoteTrack
  | some t => readTrack t

/-! ## Writer: `MidiFileOutputDevice` -/

/-- Calls the timeline makes on the device. -/
inductive Op where
  /-- `tick()`: `self.time += 1.0 / ticks_per_beat` -/
  | tick
  | on (note vel chan : Nat)
  | off (note chan : Nat)
  deriving DecidableEq, Repr, Inhabited

/-- mido's default velocity of a `note_off` message. -/
def offVel : Nat := 64

/-- The messages appended from a device state (`time`, `last_event_time`) by a sequence of calls,
    followed by `write()`: the closing dummy `note_off` (note 0) that keeps trailing silence. -/
def writeFrom (time last : Nat) : List Op → List Msg
  | [] => [{ kind := .off, note := 0, vel := offVel, chan := 0, delta := time - last }]
  | .tick :: ops => writeFrom (time + 1) last ops
  | .on n v c :: ops => { kind := .on, note := n, vel := v, chan := c, delta := time - last } :: writeFrom time time ops
  | .off n c :: ops => { kind := .off, note := n, vel := offVel, chan := c, delta := time - last } :: writeFrom time time ops

/-- The track of the file written after the calls `ops` on a fresh device. -/
def writeFile (ops : List Op) : List Msg := writeFrom 0 0 ops

/-! ## Performer: one track of notes and chords played by a Timeline into the device -/

/-- One note of an event: `len` = duration × gate, in file ticks. -/
structure Voice where
  pitch : Nat
  vel : Nat
  len : Nat
  chan : Nat := 0
  deriving DecidableEq, Repr, Inhabited

/-- One event of the score: `dur` file ticks until the next event; no voices = a rest. -/
structure SEv where
  dur : Nat
  voices : List Voice
  deriving DecidableEq, Repr, Inhabited

/-- An entry of `Track.note_offs`. -/
structure Pend where
  time : Nat
  note : Nat
  chan : Nat := 0
  deriving DecidableEq, Repr, Inhabited

/-- `if (amp is not None and amp > 0) and (gate is not None and gate > 0)` -/
def Voice.playable (v : Voice) : Prop := 0 < v.vel ∧ 0 < v.len
instance (v : Voice) : Decidable v.playable := by unfold Voice.playable; exact inferInstance

def onOp (v : Voice) : Op := .on v.pitch v.vel v.chan
def offOp (x : Pend) : Op := .off x.note x.chan
def pendOf (now : Nat) (v : Voice) : Pend := { time := now + v.len, note := v.pitch, chan := v.chan }

/-- `k` further timeline ticks starting at time `now`: the device ticks at the end of a timeline
    tick; at the start of the next one `process_note_offs` releases, in list order, the entries
    that are due and keeps the others. -/
def tickOps : Nat → Nat → List Pend → List Op
  | 0, _, _ => []
  | k + 1, now, pend =>
    .tick :: ((pend.filter (fun x => x.time ≤ now + 1)).map offOp
      ++ tickOps k (now + 1) (pend.filter (fun x => now + 1 < x.time)))

def maxTime : List Pend → Nat
  | [] => 0
  | x :: xs => max x.time (maxTime xs)

/-- The device calls of a whole performance from time `now` with pending note-offs `pend`:
    each event sends its note-ons (appending its note-offs to the pending list), then `dur` ticks
    pass; when the events are exhausted the track lives on until its last note-off has been sent,
    then the timeline stops (before the device tick of that last timeline tick). -/
def perform : Nat → List Pend → List SEv → List Op
  | now, pend, [] => tickOps (maxTime pend - now) now pend
  | now, pend, e :: es =>
    let vs := e.voices.filter (fun v => v.playable)
    let pend' := pend ++ vs.map (pendOf now)
    vs.map onOp ++ (tickOps e.dur now pend'
      ++ perform (now + e.dur) (pend'.filter (fun x => now + e.dur < x.time)) es)

/-- Device calls of a score played from the start. -/
def performScore (s : List SEv) : List Op := perform 0 [] s

end IsobarV.Midi
