/-
Line-protocol driver for the MIDI-file model (suite `midi`).  Glue only.

input (one case per line, one output line per input line):
  read <track> / <track> / ...        track = messages `k,note,vel,chan,delta`, k = o (note_on) | f (note_off) | x (other)
  score <ev> / <ev> / ...             ev = `<dur> <pitch,vel,len,chan>*`   (file ticks)
output:
  read  -> <res>
  score -> w|<messages written>|T <sum of deltas>|<res of reading them back>
  <res> = ok|N <cells>|A <cells>|G <cells>|D <ticks>*|L <pitch,vel,loc,len>*      cells: `60`, `(62,64)`; gates `n/d`
        | err|<ValueError|TypeError|ZeroDivisionError>
-/
import IsobarV.Midi.Model
import IsobarV.Util.Parse

namespace IsobarV.Midi.Drv
open IsobarV.Midi IsobarV.Util

def splitOnTok (sep : String) (ws : List String) : List (List String) :=
  let rec go : List String → List String → List (List String) → List (List String)
    | [], cur, acc => (cur.reverse :: acc).reverse
    | w :: ws, cur, acc => if w == sep then go ws [] (cur.reverse :: acc) else go ws (w :: cur) acc
  go ws [] []

def parseMsg (w : String) : Option Msg :=
  match w.splitOn "," with
  | [k, n, v, c, d] =>
    let kind : Kind := if k == "o" then .on else if k == "f" then .off else .other
    some { kind := kind, note := toNat! n, vel := toNat! v, chan := toNat! c, delta := toNat! d }
  | _ => none

def parseVoice (w : String) : Option Voice :=
  match w.splitOn "," with
  | [p, v, l, c] => some { pitch := toNat! p, vel := toNat! v, len := toNat! l, chan := toNat! c }
  | _ => none

def parseEv : List String → Option SEv
  | d :: vs => some { dur := toNat! d, voices := vs.filterMap parseVoice }
  | [] => none

def showMsg (m : Msg) : String :=
  let k := match m.kind with | .on => "o" | .off => "f" | .other => "x"
  s!"{k},{m.note},{m.vel},{m.chan},{m.delta}"

def showRat (r : Rat) : String := s!"{r.num}/{r.den}"

def showCell {α : Type} (f : α → String) : Cell α → String
  | .one a => f a
  | .many as => "(" ++ joinWith "," (as.map f) ++ (if as.length == 1 then ",)" else ")")

def showCells {α : Type} (tag : String) (f : α → String) (cs : List (Cell α)) : String :=
  joinWith " " (tag :: cs.map (showCell f))

def showNote (n : RNote) : String :=
  let l := match n.len with | some l => toString l | none => "-"
  s!"{n.pitch},{n.vel},{n.loc},{l}"

def showErr : ReadErr → String
  | .noNoteTrack => "ValueError"
  | .openNote => "TypeError"
  | .zeroDivision => "ZeroDivisionError"

def showRes (notes : List RNote) : ReadRes → String
  | .err e => "err|" ++ showErr e
  | .ok o =>
    joinWith "|" ["ok", showCells "N" toString o.note, showCells "A" toString o.amp,
      showCells "G" showRat o.gate, joinWith " " ("D" :: o.dur.map toString),
      joinWith " " ("L" :: notes.map showNote)]

def handle (line : String) : String :=
  match words line with
  | "read" :: rest =>
    let tracks := (splitOnTok "/" rest).map (fun t => t.filterMap parseMsg)
    let notes := match selectTrack tracks with | some t => readNotes t | none => []
    showRes notes (readFile tracks)
  | "score" :: rest =>
    let evs := ((splitOnTok "/" rest).filter (fun l => l ≠ [])).filterMap parseEv
    let file := writeFile (performScore evs)
    let total := (file.map (·.delta)).foldl (· + ·) 0
    joinWith "|" ["w", joinWith " " (file.map showMsg), s!"T {total}", showRes (readNotes file) (readFile [file])]
  | _ => "?"

def main : IO Unit := do
  let stdin ← IO.getStdin
  let stdout ← IO.getStdout
  let _ ← foldLines stdin () (fun _ line => do
    stdout.putStrLn (handle line))
  stdout.flush

end IsobarV.Midi.Drv
