/-
Helper lemmas for the MIDI-file model (used by `IsobarV.Props.C16`).  No property theorem lives here.
-/
import IsobarV.Midi.Model
import IsobarV.Midi.Spec

namespace IsobarV.Midi

/-! ## Reader: general facts (any message list) -/

theorem closeFirst_length (p off : Nat) (l : List RNote) : (closeFirst p off l).length = l.length := by
  induction l with
  | nil => rfl
  | cons n ns ih => unfold closeFirst; split <;> simp [ih]

/-- What closing never changes. -/
def RNote.key (n : RNote) : Nat × Nat × Nat := (n.pitch, n.vel, n.loc)

theorem closeFirst_map_key (p off : Nat) (l : List RNote) :
    (closeFirst p off l).map RNote.key = l.map RNote.key := by
  induction l with
  | nil => rfl
  | cons n ns ih => unfold closeFirst; split <;> simp [ih, RNote.key]

theorem readFold_nil (s : RState) : readFold s [] = s := rfl

theorem readFold_cons (s : RState) (m : Msg) (ms : List Msg) :
    readFold s (m :: ms) = readFold (rStep s m) ms := rfl

theorem readFold_append (s : RState) (a b : List Msg) :
    readFold s (a ++ b) = readFold (readFold s a) b := by
  simp [readFold, List.foldl_append]

theorem readFold_offset (s : RState) (msgs : List Msg) :
    (readFold s msgs).offset = s.offset + (msgs.map (·.delta)).sum := by
  induction msgs generalizing s with
  | nil => simp [readFold_nil]
  | cons m ms ih => rw [readFold_cons, ih]; simp [rStep]; omega

/-- The (pitch, velocity, onset) triples of the sounding note-ons of a message list, `t` being the
    time before its first message: a message's time is `t` plus ALL deltas up to and including its own. -/
def onsetsFrom (t : Nat) : List Msg → List (Nat × Nat × Nat)
  | [] => []
  | m :: ms =>
    if m.sounding then (m.note, min m.vel 127, t + m.delta) :: onsetsFrom (t + m.delta) ms
    else onsetsFrom (t + m.delta) ms

theorem onsetsFrom_append (t : Nat) (a b : List Msg) :
    onsetsFrom t (a ++ b) = onsetsFrom t a ++ onsetsFrom (t + (a.map (·.delta)).sum) b := by
  induction a generalizing t with
  | nil => simp [onsetsFrom]
  | cons m ms ih =>
    simp only [List.cons_append, onsetsFrom, ih, List.map_cons, List.sum_cons, Nat.add_assoc]
    split <;> simp

theorem onsetsFrom_length (t : Nat) (a : List Msg) :
    (onsetsFrom t a).length = (a.filter (fun m => decide m.sounding)).length := by
  induction a generalizing t with
  | nil => simp [onsetsFrom]
  | cons m ms ih =>
    simp only [onsetsFrom, List.filter_cons]
    by_cases h : m.sounding <;> simp [h, ih]

theorem rApply_map_key (off : Nat) (m : Msg) (notes : List RNote) :
    (rApply off m notes).map RNote.key =
      if m.sounding then (m.note, min m.vel 127, off) :: notes.map RNote.key else notes.map RNote.key := by
  unfold rApply
  by_cases h : m.sounding
  · simp [h, RNote.key]
  · by_cases h2 : m.closing <;> simp [h, h2, closeFirst_map_key]

theorem readFold_keys (s : RState) (msgs : List Msg) :
    (readFold s msgs).notes.reverse.map RNote.key
      = s.notes.reverse.map RNote.key ++ onsetsFrom s.offset msgs := by
  induction msgs generalizing s with
  | nil => simp [readFold_nil, onsetsFrom]
  | cons m ms ih =>
    rw [readFold_cons, ih]
    simp only [rStep, onsetsFrom]
    rw [List.map_reverse, List.map_reverse, rApply_map_key]
    by_cases h : m.sounding <;> simp [h]

theorem readNotes_keys (msgs : List Msg) : (readNotes msgs).map RNote.key = onsetsFrom 0 msgs := by
  have := readFold_keys {} msgs
  simpa [readNotes] using this

/-! ### velocity 0 and non-note messages -/

/-- Rewrite a `note_on` with velocity 0 as the `note_off` it stands for. -/
def Msg.normalize (m : Msg) : Msg := if m.kind = .on ∧ m.vel = 0 then { m with kind := .off } else m

theorem rStep_normalize (s : RState) (m : Msg) : rStep s m.normalize = rStep s m := by
  unfold Msg.normalize
  by_cases h : m.kind = .on ∧ m.vel = 0
  · obtain ⟨hk, hv⟩ := h
    simp [rStep, rApply, Msg.sounding, Msg.closing, hk, hv]
  · simp [h]

theorem readFold_normalize (s : RState) (msgs : List Msg) :
    readFold s (msgs.map Msg.normalize) = readFold s msgs := by
  induction msgs generalizing s with
  | nil => rfl
  | cons m ms ih => simp only [List.map_cons, readFold_cons, rStep_normalize, ih]

/-- A message that is neither a note-on nor a note-off only passes its delta on to the next message. -/
theorem rStep_other_merge (s : RState) (o m : Msg) (ho : o.kind = .other) :
    rStep (rStep s o) m = rStep s { m with delta := o.delta + m.delta } := by
  simp [rStep, rApply, Msg.sounding, Msg.closing, ho, Nat.add_assoc]

theorem rStep_other_notes (s : RState) (o : Msg) (ho : o.kind = .other) :
    (rStep s o).notes = s.notes := by
  simp [rStep, rApply, Msg.sounding, Msg.closing, ho]

/-! ## Writer, and reading what the writer wrote -/

/-- Number of `tick` calls. -/
def ticksIn : List Op → Nat
  | [] => 0
  | .tick :: ops => ticksIn ops + 1
  | _ :: ops => ticksIn ops

theorem ticksIn_append (a b : List Op) : ticksIn (a ++ b) = ticksIn a + ticksIn b := by
  induction a with
  | nil => simp [ticksIn]
  | cons op ops ih => cases op <;> simp [ticksIn, ih] <;> omega

/-- `last_event_time` after the calls `ops`. -/
def lastAfter (time last : Nat) : List Op → Nat
  | [] => last
  | .tick :: ops => lastAfter (time + 1) last ops
  | _ :: ops => lastAfter time time ops

/-- The messages appended by the calls `ops` (no closing message). -/
def writeBody (time last : Nat) : List Op → List Msg
  | [] => []
  | .tick :: ops => writeBody (time + 1) last ops
  | .on n v c :: ops => { kind := .on, note := n, vel := v, chan := c, delta := time - last } :: writeBody time time ops
  | .off n c :: ops => { kind := .off, note := n, vel := offVel, chan := c, delta := time - last } :: writeBody time time ops

theorem writeFrom_append (time last : Nat) (a b : List Op) :
    writeFrom time last (a ++ b)
      = writeBody time last a ++ writeFrom (time + ticksIn a) (lastAfter time last a) b := by
  induction a generalizing time last with
  | nil => simp [writeBody, ticksIn, lastAfter]
  | cons op ops ih =>
    cases op <;> simp [writeFrom, writeBody, ticksIn, lastAfter, ih] <;> congr 1 <;> omega

theorem lastAfter_bounds (time last : Nat) (ops : List Op) (h : last ≤ time) :
    last ≤ lastAfter time last ops ∧ lastAfter time last ops ≤ time + ticksIn ops := by
  induction ops generalizing time last with
  | nil => simp [lastAfter, ticksIn]; omega
  | cons op ops ih =>
    cases op with
    | tick => have := ih (time + 1) last (by omega); simp only [lastAfter, ticksIn]; omega
    | on n v c => have := ih time time (Nat.le_refl _); simp only [lastAfter, ticksIn]; omega
    | off n c => have := ih time time (Nat.le_refl _); simp only [lastAfter, ticksIn]; omega

theorem writeBody_sum (time last : Nat) (ops : List Op) (h : last ≤ time) :
    ((writeBody time last ops).map (·.delta)).sum = lastAfter time last ops - last := by
  induction ops generalizing time last with
  | nil => simp [writeBody, lastAfter]
  | cons op ops ih =>
    cases op with
    | tick => simp only [writeBody, lastAfter]; exact ih (time + 1) last (by omega)
    | on n v c =>
      have hb := lastAfter_bounds time time ops (Nat.le_refl _)
      simp only [writeBody, lastAfter, List.map_cons, List.sum_cons, ih time time (Nat.le_refl _)]; omega
    | off n c =>
      have hb := lastAfter_bounds time time ops (Nat.le_refl _)
      simp only [writeBody, lastAfter, List.map_cons, List.sum_cons, ih time time (Nat.le_refl _)]; omega

theorem writeFrom_sum (time last : Nat) (ops : List Op) (h : last ≤ time) :
    ((writeFrom time last ops).map (·.delta)).sum = time + ticksIn ops - last := by
  induction ops generalizing time last with
  | nil => simp [writeFrom, ticksIn]
  | cons op ops ih =>
    cases op with
    | tick => simp only [writeFrom, ticksIn]; rw [ih (time + 1) last (by omega)]; omega
    | on n v c =>
      simp only [writeFrom, ticksIn, List.map_cons, List.sum_cons, ih time time (Nat.le_refl _)]; omega
    | off n c =>
      simp only [writeFrom, ticksIn, List.map_cons, List.sum_cons, ih time time (Nat.le_refl _)]; omega

/-- The reader run directly on device calls: `time` is the device time, a note call acts on the
    note list at that time. -/
structure DState where
  time : Nat
  notes : List RNote

def dStep (d : DState) : Op → DState
  | .tick => { d with time := d.time + 1 }
  | .on n v c => { d with notes := rApply d.time { kind := .on, note := n, vel := v, chan := c } d.notes }
  | .off n c => { d with notes := rApply d.time { kind := .off, note := n, vel := offVel, chan := c } d.notes }

def dFold (d : DState) (ops : List Op) : DState := ops.foldl dStep d

theorem dFold_nil (d : DState) : dFold d [] = d := rfl
theorem dFold_cons (d : DState) (op : Op) (ops : List Op) : dFold d (op :: ops) = dFold (dStep d op) ops := rfl
theorem dFold_append (d : DState) (a b : List Op) : dFold d (a ++ b) = dFold (dFold d a) b := by
  simp [dFold, List.foldl_append]

theorem dFold_time (d : DState) (ops : List Op) : (dFold d ops).time = d.time + ticksIn ops := by
  induction ops generalizing d with
  | nil => simp [dFold_nil, ticksIn]
  | cons op ops ih => cases op <;> simp [dFold_cons, ih, dStep, ticksIn] <;> omega

theorem rApply_delta (off : Nat) (m : Msg) (d : Nat) (notes : List RNote) :
    rApply off { m with delta := d } notes = rApply off m notes := by
  simp [rApply, Msg.sounding, Msg.closing]

/-- Reading the messages written from device state (`time`, `last`) with a reader whose offset is
    `last`: the reader's offset is the device time at every note call. -/
theorem readFold_writeFrom (ops : List Op) (time last : Nat) (notes : List RNote) (h : last ≤ time) :
    readFold { offset := last, notes := notes } (writeFrom time last ops)
      = { offset := (dFold ⟨time, notes⟩ ops).time,
          notes := closeFirst 0 (dFold ⟨time, notes⟩ ops).time (dFold ⟨time, notes⟩ ops).notes } := by
  induction ops generalizing time last notes with
  | nil =>
    simp [writeFrom, readFold_cons, readFold_nil, rStep, rApply, Msg.sounding, Msg.closing, dFold_nil,
      Nat.add_sub_cancel' h]
  | cons op ops ih =>
    cases op with
    | tick => simp only [writeFrom, dFold_cons, dStep]; exact ih (time + 1) last notes (by omega)
    | on n v c =>
      simp only [writeFrom, readFold_cons, dFold_cons, dStep, rStep, Nat.add_sub_cancel' h]
      rw [ih time time _ (Nat.le_refl _)]
      have := rApply_delta time { kind := .on, note := n, vel := v, chan := c } (time - last) notes
      simp only at this
      rw [this]
    | off n c =>
      simp only [writeFrom, readFold_cons, dFold_cons, dStep, rStep, Nat.add_sub_cancel' h]
      rw [ih time time _ (Nat.le_refl _)]
      have := rApply_delta time { kind := .off, note := n, vel := offVel, chan := c } (time - last) notes
      simp only at this
      rw [this]

/-! ## The performer's calls read back: closing notes by pending note-offs -/

/-- At most one open note per pitch. -/
def OpenDistinct (notes : List RNote) : Prop :=
  notes.Pairwise (fun a b => a.len = none → b.len = none → a.pitch ≠ b.pitch)

/-- At most one pending note-off per pitch. -/
def UniqueNotes (L : List Pend) : Prop := ∀ x ∈ L, ∀ y ∈ L, x.note = y.note → x = y

/-- Close an open note by the pending note-off of its pitch, if there is one. -/
def closeWith (D : List Pend) (n : RNote) : RNote :=
  match n.len with
  | some _ => n
  | none =>
    match D.find? (fun x => x.note == n.pitch) with
    | some x => { n with len := some (x.time - n.loc) }
    | none => n

def closeMap (D : List Pend) (notes : List RNote) : List RNote := notes.map (closeWith D)

theorem closeWith_closed (D : List Pend) (n : RNote) (l : Nat) (h : n.len = some l) : closeWith D n = n := by
  simp [closeWith, h]

theorem closeWith_pitch (D : List Pend) (n : RNote) : (closeWith D n).pitch = n.pitch := by
  unfold closeWith; split
  · rfl
  · split <;> rfl

theorem closeWith_open (D : List Pend) (n : RNote) (h : (closeWith D n).len = none) :
    n.len = none ∧ D.find? (fun x => x.note == n.pitch) = none := by
  unfold closeWith at h
  split at h
  · rename_i l hl; rw [hl] at h; cases h
  · rename_i hl
    split at h
    · cases h
    · rename_i hf; exact ⟨hl, hf⟩

theorem closeWith_found (D : List Pend) (n : RNote) (x : Pend) (h : n.len = none)
    (hf : D.find? (fun x => x.note == n.pitch) = some x) :
    closeWith D n = { n with len := some (x.time - n.loc) } := by
  simp [closeWith, h, hf]

theorem closeWith_none (D : List Pend) (n : RNote) (h : n.len = none)
    (hf : D.find? (fun x => x.note == n.pitch) = none) : closeWith D n = n := by
  simp [closeWith, h, hf]

theorem closeWith_append (A B : List Pend) (n : RNote) :
    closeWith B (closeWith A n) = closeWith (A ++ B) n := by
  cases hl : n.len with
  | some l => rw [closeWith_closed A n l hl, closeWith_closed B n l hl, closeWith_closed _ n l hl]
  | none =>
    cases hf : A.find? (fun x => x.note == n.pitch) with
    | some x =>
      rw [closeWith_found A n x hl hf, closeWith_closed B _ (x.time - n.loc) rfl]
      rw [closeWith_found (A ++ B) n x hl (by simp [List.find?_append, hf])]
    | none =>
      rw [closeWith_none A n hl hf]
      simp [closeWith, hl, List.find?_append, hf]

theorem closeMap_append (A B : List Pend) (notes : List RNote) :
    closeMap B (closeMap A notes) = closeMap (A ++ B) notes := by
  simp [closeMap, closeWith_append]

theorem closeMap_nil (notes : List RNote) : closeMap [] notes = notes := by
  unfold closeMap
  rw [List.map_congr_left (g := id)]
  · simp
  · intro n _
    cases hl : n.len with
    | some l => exact closeWith_closed [] n l hl
    | none => exact closeWith_none [] n hl rfl

theorem OpenDistinct.closeMap {notes : List RNote} (h : OpenDistinct notes) (D : List Pend) :
    OpenDistinct (closeMap D notes) := by
  unfold OpenDistinct Midi.closeMap
  rw [List.pairwise_map]
  refine List.Pairwise.imp ?_ h
  intro a b hab ha hb
  rw [closeWith_pitch, closeWith_pitch]
  exact hab (closeWith_open D a ha).1 (closeWith_open D b hb).1

theorem closeFirst_eq_map (p off : Nat) (notes : List RNote) (h : OpenDistinct notes) :
    closeFirst p off notes
      = notes.map (fun n => if n.pitch = p ∧ n.len = none then { n with len := some (off - n.loc) } else n) := by
  induction notes with
  | nil => rfl
  | cons n ns ih =>
    have hc := List.pairwise_cons.1 h
    unfold closeFirst
    by_cases hn : n.pitch = p ∧ n.len = none
    · simp only [hn, and_self, if_true, List.map_cons]
      congr 1
      symm
      rw [List.map_congr_left (g := id)]
      · simp
      · intro m hm
        by_cases hmm : m.pitch = p ∧ m.len = none
        · exact absurd (hn.1.trans hmm.1.symm) (hc.1 m hm hn.2 hmm.2)
        · simp [hmm]
    · simp only [hn, if_false, List.map_cons]
      rw [ih hc.2]

theorem UniqueNotes.find {L : List Pend} (h : UniqueNotes L) {x : Pend} (hx : x ∈ L) :
    L.find? (fun y => y.note == x.note) = some x := by
  cases hf : L.find? (fun y => y.note == x.note) with
  | none =>
    have := List.find?_eq_none.1 hf x hx
    simp at this
  | some y =>
    have hy := List.mem_of_find?_eq_some hf
    have hp := List.find?_some hf
    simp at hp
    rw [h y hy x hx hp]

theorem UniqueNotes.subset {L L' : List Pend} (h : UniqueNotes L) (hs : ∀ x ∈ L', x ∈ L) : UniqueNotes L' :=
  fun x hx y hy hxy => h x (hs x hx) y (hs y hy) hxy

theorem find_note_congr (L1 L2 : List Pend) (hmem : ∀ x, x ∈ L1 ↔ x ∈ L2) (hu : UniqueNotes L2) (p : Nat) :
    L1.find? (fun x => x.note == p) = L2.find? (fun x => x.note == p) := by
  have hu1 : UniqueNotes L1 := hu.subset (fun x hx => (hmem x).1 hx)
  cases hf : L1.find? (fun x => x.note == p) with
  | none =>
    symm
    rw [List.find?_eq_none]
    intro x hx
    exact List.find?_eq_none.1 hf x ((hmem x).2 hx)
  | some y =>
    have hy := List.mem_of_find?_eq_some hf
    have hp := List.find?_some hf
    simp at hp
    have := hu.find ((hmem y).1 hy)
    rw [hp] at this
    exact this.symm

theorem closeMap_congr (L1 L2 : List Pend) (hmem : ∀ x, x ∈ L1 ↔ x ∈ L2) (hu : UniqueNotes L2)
    (notes : List RNote) : closeMap L1 notes = closeMap L2 notes := by
  unfold closeMap
  apply List.map_congr_left
  intro n _
  unfold closeWith
  rw [find_note_congr L1 L2 hmem hu]

/-- Note-offs that all fall on the current tick close exactly the open notes of their pitches. -/
theorem dFold_offs (D : List Pend) (T : Nat) (notes : List RNote) (hT : ∀ x ∈ D, x.time = T)
    (h : OpenDistinct notes) : dFold ⟨T, notes⟩ (D.map offOp) = ⟨T, closeMap D notes⟩ := by
  induction D generalizing notes with
  | nil => simp [dFold_nil, closeMap_nil]
  | cons x D ih =>
    have hx : x.time = T := hT x (by simp)
    simp only [List.map_cons, dFold_cons, offOp, dStep]
    have hr : rApply T { kind := .off, note := x.note, vel := offVel, chan := x.chan } notes
        = closeMap [x] notes := by
      simp only [rApply, Msg.sounding, Msg.closing]
      simp only [reduceCtorEq, false_and, if_false, true_or, if_true]
      rw [closeFirst_eq_map _ _ _ h]
      unfold closeMap
      apply List.map_congr_left
      intro n _
      cases hl : n.len with
      | some l => simp [closeWith, hl]
      | none =>
        by_cases hp : n.pitch = x.note
        · simp [closeWith, hl, hp, hx]
        · have : ¬ x.note = n.pitch := fun e => hp e.symm
          simp [closeWith, hl, hp, this]
    rw [hr, ih _ (fun y hy => hT y (by simp [hy])) (h.closeMap [x]), closeMap_append]
    rfl

/-- The pending note-offs released during `k` ticks, in the order of their release. -/
def flushed : Nat → Nat → List Pend → List Pend
  | 0, _, _ => []
  | k + 1, now, pend =>
    pend.filter (fun x => x.time ≤ now + 1) ++ flushed k (now + 1) (pend.filter (fun x => now + 1 < x.time))

theorem mem_flushed (k now : Nat) (pend : List Pend) (hgt : ∀ x ∈ pend, now < x.time) (x : Pend) :
    x ∈ flushed k now pend ↔ x ∈ pend ∧ x.time ≤ now + k := by
  induction k generalizing now pend with
  | zero =>
    simp only [flushed, List.not_mem_nil, false_iff, not_and]
    intro hx; have := hgt x hx; omega
  | succ k ih =>
    have hgt' : ∀ x ∈ pend.filter (fun x => now + 1 < x.time), now + 1 < x.time := by
      intro y hy
      simp only [List.mem_filter, decide_eq_true_eq] at hy
      exact hy.2
    simp only [flushed, List.mem_append, List.mem_filter, ih _ _ hgt', decide_eq_true_eq]
    constructor
    · rintro (⟨h1, h2⟩ | ⟨⟨h1, _⟩, h3⟩)
      · exact ⟨h1, by omega⟩
      · exact ⟨h1, by omega⟩
    · rintro ⟨h1, h2⟩
      by_cases h : x.time ≤ now + 1
      · exact Or.inl ⟨h1, h⟩
      · exact Or.inr ⟨⟨h1, by omega⟩, by omega⟩

theorem dFold_tickOps (k now : Nat) (pend : List Pend) (notes : List RNote)
    (hgt : ∀ x ∈ pend, now < x.time) (h : OpenDistinct notes) :
    dFold ⟨now, notes⟩ (tickOps k now pend) = ⟨now + k, closeMap (flushed k now pend) notes⟩ := by
  induction k generalizing now pend notes with
  | zero => simp [tickOps, flushed, dFold_nil, closeMap_nil]
  | succ k ih =>
    simp only [tickOps, flushed, dFold_cons, dFold_append, dStep]
    rw [dFold_offs _ (now + 1) notes _ h]
    · rw [ih (now + 1) _ _ _ (h.closeMap _), closeMap_append]
      · congr 1; omega
      · intro x hx
        simp only [List.mem_filter, decide_eq_true_eq] at hx
        exact hx.2
    · intro x hx
      simp only [List.mem_filter, decide_eq_true_eq] at hx
      have := hgt x hx.1
      omega

theorem ticksIn_tickOps (k now : Nat) (pend : List Pend) : ticksIn (tickOps k now pend) = k := by
  induction k generalizing now pend with
  | zero => simp [tickOps, ticksIn]
  | succ k ih =>
    simp only [tickOps, ticksIn, ticksIn_append, ih]
    have : ∀ (l : List Pend), ticksIn (l.map offOp) = 0 := by
      intro l; induction l with
      | nil => rfl
      | cons a l ih => simp [offOp, ticksIn, ih]
    rw [this]; omega

theorem le_maxTime (L : List Pend) (x : Pend) (hx : x ∈ L) : x.time ≤ maxTime L := by
  induction L with
  | nil => cases hx
  | cons y L ih =>
    simp only [maxTime]
    rcases List.mem_cons.1 hx with rfl | h
    · omega
    · have := ih h; omega

/-- The note a voice opens at tick `now`. -/
def openNote (now : Nat) (v : Voice) : RNote := { pitch := v.pitch, vel := v.vel, loc := now, len := none }

theorem dFold_ons (now : Nat) (vs : List Voice) (notes : List RNote)
    (hv : ∀ v ∈ vs, 1 ≤ v.vel ∧ v.vel ≤ 127) :
    dFold ⟨now, notes⟩ (vs.map onOp) = ⟨now, (vs.map (openNote now)).reverse ++ notes⟩ := by
  induction vs generalizing notes with
  | nil => simp [dFold_nil]
  | cons v vs ih =>
    have h1 := hv v (by simp)
    simp only [List.map_cons, dFold_cons, onOp, dStep]
    have hr : rApply now { kind := .on, note := v.pitch, vel := v.vel, chan := v.chan } notes
        = openNote now v :: notes := by
      have : 0 < v.vel := by omega
      simp [rApply, Msg.sounding, this, openNote, Nat.min_eq_left h1.2]
    rw [hr, ih _ (fun w hw => hv w (by simp [hw]))]
    simp

theorem pairwise_pitch_inj (l : List Voice) (h : (l.map (·.pitch)).Nodup) :
    ∀ a ∈ l, ∀ b ∈ l, a.pitch = b.pitch → a = b := by
  induction l with
  | nil => intro a ha; cases ha
  | cons v vs ih =>
    simp only [List.map_cons, List.nodup_cons, List.mem_map, not_exists, not_and] at h
    intro a ha b hb hab
    rcases List.mem_cons.1 ha with rfl | ha' <;> rcases List.mem_cons.1 hb with rfl | hb'
    · rfl
    · exact absurd hab.symm (h.1 b hb')
    · exact absurd hab (h.1 a ha')
    · exact ih h.2 a ha' b hb' hab

theorem filter_playable (e : SEv) (h : VoicesOK e) : e.voices.filter (fun v => v.playable) = e.voices := by
  rw [List.filter_eq_self]
  intro v hv
  have := h.1 v hv
  have hp : v.playable := ⟨by omega, by omega⟩
  exact decide_eq_true hp

theorem expectedNotes_closed (now : Nat) (es : List SEv) : ∀ n ∈ expectedNotes now es, ∃ l, n.len = some l := by
  induction es generalizing now with
  | nil => intro n hn; cases hn
  | cons e es ih =>
    intro n hn
    simp only [expectedNotes, List.mem_append, List.mem_map] at hn
    rcases hn with ⟨v, _, rfl⟩ | hn
    · exact ⟨v.len, rfl⟩
    · exact ih _ n hn

/-- The heart of the round trip: the reader, run on the calls of a performance that starts at `now`
    with pending note-offs `pend`, appends the score's notes with their lengths, and closes every
    note that was open with the pending note-off of its pitch. -/
theorem dFold_perform (es : List SEv) : ∀ (now : Nat) (pend : List Pend) (notes : List RNote),
    OpenDistinct notes → UniqueNotes pend → (∀ x ∈ pend, now < x.time) →
    (∀ n ∈ notes, n.len = none → ∃ x ∈ pend, x.note = n.pitch) →
    (∀ x ∈ pend, FreeFrom x.note x.time now es) → ScoreOK now es →
    (dFold ⟨now, notes⟩ (perform now pend es)).notes
      = (expectedNotes now es).reverse ++ closeMap pend notes := by
  induction es with
  | nil =>
    intro now pend notes hod hun hgt _ _ _
    simp only [perform, expectedNotes, List.reverse_nil, List.nil_append]
    rw [dFold_tickOps _ _ _ _ hgt hod]
    apply closeMap_congr _ _ _ hun
    intro x
    rw [mem_flushed _ _ _ hgt]
    constructor
    · exact fun h => h.1
    · intro hx
      have := le_maxTime pend x hx
      exact ⟨hx, by omega⟩
  | cons e es ih =>
    intro now pend notes hod hun hgt hopen hfree hok
    obtain ⟨hdur, hvo, hvfree, hok'⟩ := hok
    -- no pending note-off has the pitch of a voice of `e`
    have F1 : ∀ v ∈ e.voices, ∀ x ∈ pend, x.note ≠ v.pitch := by
      intro v hv x hx hxv
      have := (hfree x hx).1 v hv hxv.symm
      have := hgt x hx
      omega
    have hinj := pairwise_pitch_inj e.voices hvo.2
    simp only [perform, filter_playable e hvo, dFold_append]
    rw [dFold_ons now e.voices notes (fun v hv => ⟨(hvo.1 v hv).1, (hvo.1 v hv).2.1⟩)]
    -- abbreviations
    generalize hpend' : pend ++ e.voices.map (pendOf now) = pend'
    generalize hnotes1 : (e.voices.map (openNote now)).reverse ++ notes = notes1
    have hmem' : ∀ x, x ∈ pend' ↔ x ∈ pend ∨ ∃ v ∈ e.voices, x = pendOf now v := by
      intro x; rw [← hpend']; simp only [List.mem_append, List.mem_map]
      constructor
      · rintro (h | ⟨v, hv, rfl⟩)
        · exact Or.inl h
        · exact Or.inr ⟨v, hv, rfl⟩
      · rintro (h | ⟨v, hv, rfl⟩)
        · exact Or.inl h
        · exact Or.inr ⟨v, hv, rfl⟩
    have hun' : UniqueNotes pend' := by
      intro x hx y hy hxy
      rcases (hmem' x).1 hx with hx | ⟨v, hv, rfl⟩ <;> rcases (hmem' y).1 hy with hy | ⟨w, hw, rfl⟩
      · exact hun x hx y hy hxy
      · exact absurd hxy (F1 w hw x hx)
      · exact absurd hxy.symm (F1 v hv y hy)
      · have : v = w := hinj v hv w hw hxy
        rw [this]
    have hgt' : ∀ x ∈ pend', now < x.time := by
      intro x hx
      rcases (hmem' x).1 hx with hx | ⟨v, hv, rfl⟩
      · exact hgt x hx
      · have := (hvo.1 v hv).2.2
        simp only [pendOf]; omega
    have hod1 : OpenDistinct notes1 := by
      rw [← hnotes1]
      unfold OpenDistinct
      rw [List.pairwise_append]
      refine ⟨?_, hod, ?_⟩
      · rw [List.pairwise_reverse, List.pairwise_map]
        have := hvo.2
        unfold List.Nodup at this
        rw [List.pairwise_map] at this
        refine List.Pairwise.imp ?_ this
        intro a b hab _ _
        simp only [openNote]
        exact fun h => hab h.symm
      · intro a ha b hb _ hbo
        simp only [List.mem_reverse, List.mem_map] at ha
        obtain ⟨v, hv, rfl⟩ := ha
        obtain ⟨x, hx, hxb⟩ := hopen b hb hbo
        simp only [openNote]
        intro hvb
        exact F1 v hv x hx (hxb.trans hvb.symm)
    have hopen1 : ∀ n ∈ notes1, n.len = none → ∃ x ∈ pend', x.note = n.pitch := by
      intro n hn hno
      rw [← hnotes1] at hn
      simp only [List.mem_append, List.mem_reverse, List.mem_map] at hn
      rcases hn with ⟨v, hv, rfl⟩ | hn
      · exact ⟨pendOf now v, (hmem' _).2 (Or.inr ⟨v, hv, rfl⟩), rfl⟩
      · obtain ⟨x, hx, hxn⟩ := hopen n hn hno
        exact ⟨x, (hmem' _).2 (Or.inl hx), hxn⟩
    rw [dFold_tickOps _ _ _ _ hgt' hod1]
    have hmemF := mem_flushed e.dur now pend' hgt'
    generalize hF : flushed e.dur now pend' = F at hmemF
    rw [ih (now + e.dur) (pend'.filter (fun x => now + e.dur < x.time)) (closeMap F notes1)
      (hod1.closeMap F)
      (hun'.subset (fun x hx => (List.mem_filter.1 hx).1))
      (by intro x hx; simp only [List.mem_filter, decide_eq_true_eq] at hx; exact hx.2)
      (by
        intro n hn hno
        simp only [closeMap, List.mem_map] at hn
        obtain ⟨n0, hn0, rfl⟩ := hn
        obtain ⟨h0, hf0⟩ := closeWith_open F n0 hno
        obtain ⟨x, hx, hxn⟩ := hopen1 n0 hn0 h0
        have hxF : ¬ x ∈ F := by
          intro hxF
          have := List.find?_eq_none.1 hf0 x hxF
          simp [hxn] at this
        have : ¬ x.time ≤ now + e.dur := fun hle => hxF ((hmemF x).2 ⟨hx, hle⟩)
        refine ⟨x, ?_, by rw [closeWith_pitch]; exact hxn⟩
        simp only [List.mem_filter, decide_eq_true_eq]
        exact ⟨hx, by omega⟩)
      (by
        intro x hx
        simp only [List.mem_filter, decide_eq_true_eq] at hx
        rcases (hmem' x).1 hx.1 with hx' | ⟨v, hv, rfl⟩
        · exact (hfree x hx').2
        · exact hvfree v hv)
      hok']
    -- reassemble
    simp only [expectedNotes, List.reverse_append, List.append_assoc]
    congr 1
    rw [closeMap_append]
    rw [closeMap_congr (F ++ pend'.filter (fun x => now + e.dur < x.time)) pend' ?_ hun']
    · rw [← hnotes1]
      unfold closeMap
      rw [List.map_append]
      congr 1
      · rw [List.map_reverse, List.map_map]
        congr 1
        apply List.map_congr_left
        intro v hv
        have hin : pendOf now v ∈ pend' := (hmem' _).2 (Or.inr ⟨v, hv, rfl⟩)
        have hfind := hun'.find hin
        simp only [Function.comp]
        rw [closeWith_found pend' (openNote now v) (pendOf now v) rfl hfind]
        simp [openNote, closedNote, pendOf]
      · apply List.map_congr_left
        intro n hn
        cases hl : n.len with
        | some l => rw [closeWith_closed _ n l hl, closeWith_closed _ n l hl]
        | none =>
          obtain ⟨x, hx, hxn⟩ := hopen n hn hl
          have hfx : pend.find? (fun y => y.note == n.pitch) = some x := by
            have := hun.find hx
            rw [hxn] at this; exact this
          rw [closeWith_found pend n x hl hfx]
          rw [closeWith_found pend' n x hl (by rw [← hpend']; simp [List.find?_append, hfx])]
    · intro x
      simp only [List.mem_append, List.mem_filter, decide_eq_true_eq, hmemF]
      constructor
      · rintro (h | h) <;> exact h.1
      · intro hx
        by_cases hle : x.time ≤ now + e.dur
        · exact Or.inl ⟨hx, hle⟩
        · exact Or.inr ⟨hx, by omega⟩

/-! ## The whole round trip at the level of notes, and the file's length -/

theorem closeFirst_all_closed (p off : Nat) (l : List RNote) (h : ∀ n ∈ l, ∃ k, n.len = some k) :
    closeFirst p off l = l := by
  induction l with
  | nil => rfl
  | cons n ns ih =>
    obtain ⟨k, hk⟩ := h n (by simp)
    unfold closeFirst
    simp only [hk, reduceCtorEq, and_false, if_false]
    rw [ih (fun m hm => h m (by simp [hm]))]

theorem readNotes_performScore (s : List SEv) (h : ScoreOK 0 s) :
    readNotes (writeFile (performScore s)) = expectedNotes 0 s := by
  unfold readNotes writeFile performScore
  have hw := readFold_writeFrom (perform 0 [] s) 0 0 [] (Nat.le_refl 0)
  have hd := dFold_perform s 0 [] [] List.Pairwise.nil (fun x hx => by cases hx) (fun x hx => by cases hx)
    (fun n hn => by cases hn) (fun x hx => by cases hx) h
  rw [show ({} : RState) = { offset := 0, notes := [] } from rfl, hw]
  simp only [hd, closeMap, List.map_nil, List.append_nil]
  rw [closeFirst_all_closed]
  · simp
  · intro n hn
    exact expectedNotes_closed 0 s n (List.mem_reverse.1 hn)

theorem ticksIn_ons (vs : List Voice) : ticksIn (vs.map onOp) = 0 := by
  induction vs with
  | nil => rfl
  | cons v vs ih => simp [onOp, ticksIn, ih]

theorem maxTime_append (a b : List Pend) : maxTime (a ++ b) = max (maxTime a) (maxTime b) := by
  induction a with
  | nil => simp [maxTime]
  | cons x a ih => simp only [List.cons_append, maxTime, ih]; omega

theorem maxTime_filter (c : Nat) (l : List Pend) :
    max c (maxTime (l.filter (fun x => c < x.time))) = max c (maxTime l) := by
  induction l with
  | nil => simp [maxTime]
  | cons x l ih =>
    simp only [List.filter_cons]
    by_cases hx : c < x.time
    · simp only [hx, decide_true, if_true, maxTime]; omega
    · simp only [hx, decide_false, maxTime]
      simp only [Bool.false_eq_true, if_false]
      omega

theorem maxTime_pendOf (now : Nat) (vs : List Voice) :
    maxTime (vs.map (pendOf now)) = (vs.map (fun v => now + v.len)).foldr max 0 := by
  induction vs with
  | nil => rfl
  | cons v vs ih => simp [maxTime, pendOf, ih]

theorem ticksIn_perform (es : List SEv) : ∀ (now : Nat) (pend : List Pend), ScoreOK now es →
    now + ticksIn (perform now pend es) = max (now + totalDur es) (max (maxTime pend) (lastEnd now es)) := by
  induction es with
  | nil =>
    intro now pend _
    simp only [perform, ticksIn_tickOps, totalDur, lastEnd]; omega
  | cons e es ih =>
    intro now pend hok
    obtain ⟨_, hvo, _, hok'⟩ := hok
    simp only [perform, filter_playable e hvo, ticksIn_append, ticksIn_ons, ticksIn_tickOps, totalDur, lastEnd]
    have := ih (now + e.dur) ((pend ++ e.voices.map (pendOf now)).filter (fun x => now + e.dur < x.time)) hok'
    have hf := maxTime_filter (now + e.dur) (pend ++ e.voices.map (pendOf now))
    rw [maxTime_append, maxTime_pendOf] at hf
    omega

/-! ## Grouping the notes of a score by onset -/

theorem onsets_gt (now : Nat) (es : List SEv) : ∀ t ∈ onsets now es, now ≤ t := by
  induction es generalizing now with
  | nil => intro t ht; cases ht
  | cons e es ih =>
    intro t ht
    simp only [onsets, List.mem_cons] at ht
    rcases ht with rfl | ht
    · exact Nat.le_refl _
    · have := ih _ t ht; omega

theorem expectedNotes_loc_ge (now : Nat) (es : List SEv) : ∀ n ∈ expectedNotes now es, now ≤ n.loc := by
  induction es generalizing now with
  | nil => intro n hn; cases hn
  | cons e es ih =>
    intro n hn
    simp only [expectedNotes, List.mem_append, List.mem_map] at hn
    rcases hn with ⟨v, _, rfl⟩ | hn
    · exact Nat.le_refl _
    · have := ih _ n hn; omega

theorem insertTime_lt (now : Nat) (L : List Nat) (h : ∀ t ∈ L, now < t) : insertTime now L = now :: L := by
  cases L with
  | nil => rfl
  | cons a L => simp [insertTime, h a (by simp)]

theorem insertTime_head (now : Nat) (L : List Nat) : insertTime now (now :: L) = now :: L := by
  simp [insertTime]

theorem foldr_insertTime_same (now : Nat) (vs : List Voice) (hne : vs ≠ []) (L : List Nat)
    (h : ∀ t ∈ L, now < t) :
    (vs.map (fun v => (closedNote now v).loc)).foldr insertTime L = now :: L := by
  induction vs with
  | nil => exact absurd rfl hne
  | cons v vs ih =>
    cases vs with
    | nil => simp [closedNote, insertTime_lt now L h]
    | cons w ws =>
      have := ih (by simp)
      simp only [List.map_cons, List.foldr_cons] at this ⊢
      rw [this]
      simp [closedNote, insertTime_head]

theorem onsetTimes_expected (es : List SEv) : ∀ (now : Nat), ScoreOK now es → (∀ e ∈ es, e.voices ≠ []) →
    onsetTimes (expectedNotes now es) = onsets now es := by
  induction es with
  | nil => intro now _ _; rfl
  | cons e es ih =>
    intro now hok hne
    obtain ⟨hdur, _, _, hok'⟩ := hok
    have hih := ih (now + e.dur) hok' (fun e' he' => hne e' (by simp [he']))
    unfold onsetTimes at hih ⊢
    simp only [expectedNotes, List.map_append, List.foldr_append, hih, List.map_map, onsets]
    have := foldr_insertTime_same now e.voices (hne e (by simp)) (onsets (now + e.dur) es)
      (fun t ht => by have := onsets_gt _ _ t ht; omega)
    simp only [Function.comp_def]
    exact this

theorem maxLen_closed (now : Nat) (vs : List Voice) :
    maxLen (vs.map (closedNote now)) = (vs.map (·.len)).foldr max 0 := by
  induction vs with
  | nil => rfl
  | cons v vs ih => simp [maxLen, closedNote, ih]

/-- The rows of a score: its events with their heard durations. -/
def specRows : Nat → List SEv → List Row
  | _, [] => []
  | now, [e] => [{ notes := e.voices.map (closedNote now), dur := longest e }]
  | now, e :: e' :: es => { notes := e.voices.map (closedNote now), dur := e.dur } :: specRows (now + e.dur) (e' :: es)

theorem groupAt_expected (pre : List RNote) (now : Nat) (e : SEv) (es : List SEv) (hdur : 1 ≤ e.dur)
    (hpre : ∀ n ∈ pre, n.loc < now) :
    groupAt (pre ++ expectedNotes now (e :: es)) now = e.voices.map (closedNote now) := by
  unfold groupAt
  simp only [expectedNotes, List.filter_append]
  have h1 : pre.filter (fun n => n.loc == now) = [] := by
    rw [List.filter_eq_nil_iff]
    intro n hn
    have := hpre n hn
    simp; omega
  have h2 : (e.voices.map (closedNote now)).filter (fun n => n.loc == now) = e.voices.map (closedNote now) := by
    rw [List.filter_eq_self]
    intro n hn
    simp only [List.mem_map] at hn
    obtain ⟨v, _, rfl⟩ := hn
    simp [closedNote]
  have h3 : (expectedNotes (now + e.dur) es).filter (fun n => n.loc == now) = [] := by
    rw [List.filter_eq_nil_iff]
    intro n hn
    have := expectedNotes_loc_ge _ _ n hn
    simp; omega
  simp [h1, h2, h3]

theorem rows_expected (es : List SEv) : ∀ (now : Nat) (pre : List RNote), (∀ n ∈ pre, n.loc < now) →
    ScoreOK now es → rows (pre ++ expectedNotes now es) (onsets now es) = specRows now es := by
  induction es with
  | nil => intro now pre _ _; rfl
  | cons e es ih =>
    intro now pre hpre hok
    obtain ⟨hdur, _, _, hok'⟩ := hok
    have hg := groupAt_expected pre now e es hdur hpre
    cases es with
    | nil =>
      simp only [onsets, rows, specRows, hg, maxLen_closed, longest]
    | cons e' es' =>
      have hih := ih (now + e.dur) (pre ++ e.voices.map (closedNote now))
        (by
          intro n hn
          simp only [List.mem_append, List.mem_map] at hn
          rcases hn with hn | ⟨v, _, rfl⟩
          · have := hpre n hn; omega
          · simp only [closedNote]; omega)
        hok'
      have hexp : pre ++ expectedNotes now (e :: e' :: es')
          = (pre ++ e.voices.map (closedNote now)) ++ expectedNotes (now + e.dur) (e' :: es') := by
        simp [expectedNotes]
      simp only [onsets] at hih ⊢
      simp only [rows, specRows, hg]
      rw [hexp, hih]
      simp

theorem longest_pos (e : SEv) (hne : e.voices ≠ []) (h : VoicesOK e) : 1 ≤ longest e := by
  unfold longest
  cases hv : e.voices with
  | nil => exact absurd hv hne
  | cons v vs =>
    have := (h.1 v (by simp [hv])).2.2
    simp only [List.map_cons, List.foldr_cons]; omega

theorem addRow_event (now : Nat) (e : SEv) (d : Nat) (o : ReadOut) (hne : e.voices ≠ []) (hd : 1 ≤ d) :
    addRow { notes := e.voices.map (closedNote now), dur := d } (.ok o)
      = .ok { note := cellOf (e.voices.map (·.pitch)) :: o.note,
              amp := cellOf (e.voices.map (·.vel)) :: o.amp,
              gate := cellOf (e.voices.map (fun v => ((v.len : Nat) : Rat) / ((d : Nat) : Rat))) :: o.gate,
              dur := d :: o.dur } := by
  have hd0 : d ≠ 0 := by omega
  cases hv : e.voices with
  | nil => exact absurd hv hne
  | cons v vs =>
    cases vs with
    | nil => simp [addRow, closedNote, gateOf, cellOf, hd0]
    | cons w ws => simp [addRow, closedNote, gateOf, cellOf, hd0, Function.comp_def]

theorem assemble_specRows (es : List SEv) : ∀ (now : Nat), ScoreOK now es → (∀ e ∈ es, e.voices ≠ []) →
    assemble (specRows now es) = .ok (heardOut es) := by
  induction es with
  | nil => intro now _ _; rfl
  | cons e es ih =>
    intro now hok hne
    obtain ⟨hdur, hvo, _, hok'⟩ := hok
    have hnee := hne e (by simp)
    cases es with
    | nil =>
      simp only [specRows, assemble]
      rw [addRow_event now e (longest e) {} hnee (longest_pos e hnee hvo)]
      simp [heardOut, heardDurs]
    | cons e' es' =>
      have hih := ih (now + e.dur) hok' (fun x hx => hne x (by simp [hx]))
      simp only [specRows, assemble] at hih ⊢
      rw [hih, addRow_event now e e.dur _ hnee hdur]
      simp [heardOut, heardDurs]

theorem performed_file_has_note_on (e : SEv) (es : List SEv) (hvo : VoicesOK e) (hne : e.voices ≠ []) :
    (writeFile (performScore (e :: es))).any (fun m => m.kind == .on) = true := by
  cases hv : e.voices with
  | nil => exact absurd hv hne
  | cons v vs =>
    have hf := filter_playable e hvo
    rw [hv] at hf
    simp [writeFile, performScore, perform, hv, hf, onOp, writeFrom]

theorem heardDurs_length (s : List SEv) : (heardDurs s).length = s.length := by
  induction s with
  | nil => rfl
  | cons e es ih =>
    cases es with
    | nil => rfl
    | cons e' es' => simp only [heardDurs, List.length_cons] at ih ⊢; omega

theorem heardDurs_dropLast (s : List SEv) : (heardDurs s).dropLast = s.dropLast.map (·.dur) := by
  induction s with
  | nil => rfl
  | cons e es ih =>
    cases es with
    | nil => rfl
    | cons e' es' =>
      have hl := heardDurs_length (e' :: es')
      simp only [heardDurs, List.dropLast_cons_cons, List.map_cons] at ih ⊢
      cases hh : heardDurs (e' :: es') with
      | nil => rw [hh] at hl; simp at hl
      | cons d ds =>
        rw [hh] at ih
        simp only [List.dropLast_cons_cons]
        rw [ih]

theorem heardGates_dropLast (s : List SEv) :
    (heardOut s).gate.dropLast
      = s.dropLast.map (fun e => cellOf (e.voices.map (fun v => ((v.len : Nat) : Rat) / ((e.dur : Nat) : Rat)))) := by
  unfold heardOut
  simp only
  induction s with
  | nil => rfl
  | cons e es ih =>
    cases es with
    | nil => rfl
    | cons e' es' =>
      simp only [heardDurs, List.zipWith_cons_cons, List.dropLast_cons_cons, List.map_cons] at ih ⊢
      have hl := heardDurs_length (e' :: es')
      cases hh : heardDurs (e' :: es') with
      | nil => rw [hh] at hl; simp at hl
      | cons d ds =>
        rw [hh] at ih
        simp only [List.zipWith_cons_cons, List.dropLast_cons_cons] at ih ⊢
        rw [ih]

/-! ## Reader: the length of a note whose pitch is not touched between its note-on and its note-off -/

/-- Closing some pitch leaves a note alone that it cannot match, wherever the note is in the list. -/
theorem closeFirst_around (q off : Nat) (A : List RNote) (n : RNote) (B : List RNote)
    (hn : ¬ (n.pitch = q ∧ n.len = none)) :
    ∃ A' B', closeFirst q off (A ++ n :: B) = A' ++ n :: B' ∧ A'.map RNote.key = A.map RNote.key
      ∧ B'.length = B.length := by
  induction A with
  | nil =>
    refine ⟨[], closeFirst q off B, ?_, rfl, closeFirst_length q off B⟩
    simp [closeFirst, hn]
  | cons a A ih =>
    by_cases ha : a.pitch = q ∧ a.len = none
    · refine ⟨{ a with len := some (off - a.loc) } :: A, B, ?_, ?_, rfl⟩
      · simp [closeFirst, ha]
      · simp [RNote.key]
    · obtain ⟨A', B', h1, h2, h3⟩ := ih
      refine ⟨a :: A', B', ?_, ?_, h3⟩
      · simp [closeFirst, ha, h1]
      · simp [h2]

theorem closeFirst_skip (p off : Nat) (A : List RNote) (n : RNote) (B : List RNote)
    (hA : ∀ x ∈ A, x.pitch ≠ p) (hp : n.pitch = p) (hl : n.len = none) :
    closeFirst p off (A ++ n :: B) = A ++ { n with len := some (off - n.loc) } :: B := by
  induction A with
  | nil => simp [closeFirst, hp, hl]
  | cons a A ih =>
    have ha : ¬ (a.pitch = p ∧ a.len = none) := fun h => hA a (by simp) h.1
    simp only [List.cons_append, closeFirst, ha, if_false]
    rw [ih (fun x hx => hA x (by simp [hx]))]

theorem key_pitch_ne (A A' : List RNote) (p : Nat) (h : A'.map RNote.key = A.map RNote.key)
    (hA : ∀ x ∈ A, x.pitch ≠ p) : ∀ x ∈ A', x.pitch ≠ p := by
  intro x hx
  have : x.key ∈ A.map RNote.key := by rw [← h]; exact List.mem_map_of_mem hx
  obtain ⟨y, hy, hxy⟩ := List.mem_map.1 this
  have : y.pitch = x.pitch := by
    have := congrArg Prod.fst hxy
    simpa [RNote.key] using this
  rw [← this]; exact hA y hy

/-- While no message touches pitch `n0.pitch`, the open note `n0` stays where it is (counted from
    the oldest note) and stays open. -/
theorem readFold_mid (mid : List Msg) (n0 : RNote) :
    ∀ (o : Nat) (newer old : List RNote), (∀ x ∈ newer, x.pitch ≠ n0.pitch) →
    (∀ m ∈ mid, (m.sounding ∨ m.closing) → m.note ≠ n0.pitch) →
    ∃ newer' old', readFold ⟨o, newer ++ n0 :: old⟩ mid = ⟨o + (mid.map (·.delta)).sum, newer' ++ n0 :: old'⟩
      ∧ (∀ x ∈ newer', x.pitch ≠ n0.pitch) ∧ old'.length = old.length := by
  induction mid with
  | nil => intro o newer old hnew _; exact ⟨newer, old, by simp [readFold_nil], hnew, rfl⟩
  | cons m ms ih =>
    intro o newer old hnew hmid
    have hm := hmid m (by simp)
    have hms : ∀ m' ∈ ms, (m'.sounding ∨ m'.closing) → m'.note ≠ n0.pitch := fun m' h' => hmid m' (by simp [h'])
    rw [readFold_cons]
    by_cases hs : m.sounding
    · have : rStep ⟨o, newer ++ n0 :: old⟩ m
          = ⟨o + m.delta, ({ pitch := m.note, vel := min m.vel 127, loc := o + m.delta, len := none } :: newer) ++ n0 :: old⟩ := by
        simp [rStep, rApply, hs]
      rw [this]
      obtain ⟨newer', old', h1, h2, h3⟩ := ih (o + m.delta)
        ({ pitch := m.note, vel := min m.vel 127, loc := o + m.delta, len := none } :: newer) old
        (by
          intro x hx
          rcases List.mem_cons.1 hx with h | hx
          · rw [h]; exact hm (Or.inl hs)
          · exact hnew x hx) hms
      refine ⟨newer', old', ?_, h2, h3⟩
      rw [h1]; simp [Nat.add_assoc]
    · by_cases hc : m.closing
      · have hq : ¬ (n0.pitch = m.note ∧ n0.len = none) := fun h => hm (Or.inr hc) h.1.symm
        obtain ⟨A', B', e1, e2, e3⟩ := closeFirst_around m.note (o + m.delta) newer n0 old hq
        have : rStep ⟨o, newer ++ n0 :: old⟩ m = ⟨o + m.delta, A' ++ n0 :: B'⟩ := by
          simp [rStep, rApply, hs, hc, e1]
        rw [this]
        obtain ⟨newer', old', h1, h2, h3⟩ := ih (o + m.delta) A' B' (key_pitch_ne newer A' _ e2 hnew) hms
        refine ⟨newer', old', ?_, h2, by omega⟩
        rw [h1]; simp [Nat.add_assoc]
      · have : rStep ⟨o, newer ++ n0 :: old⟩ m = ⟨o + m.delta, newer ++ n0 :: old⟩ := by
          simp [rStep, rApply, hs, hc]
        rw [this]
        obtain ⟨newer', old', h1, h2, h3⟩ := ih (o + m.delta) newer old hnew hms
        refine ⟨newer', old', ?_, h2, h3⟩
        rw [h1]; simp [Nat.add_assoc]

/-- A closed note is never changed again and keeps its position counted from the oldest note. -/
theorem readFold_post (post : List Msg) (nc : RNote) (k : Nat) (hk : nc.len = some k) :
    ∀ (o : Nat) (A B : List RNote),
    ∃ A' B', (readFold ⟨o, A ++ nc :: B⟩ post).notes = A' ++ nc :: B' ∧ B'.length = B.length := by
  induction post with
  | nil => intro o A B; exact ⟨A, B, rfl, rfl⟩
  | cons m ms ih =>
    intro o A B
    rw [readFold_cons]
    by_cases hs : m.sounding
    · have : rStep ⟨o, A ++ nc :: B⟩ m
          = ⟨o + m.delta, ({ pitch := m.note, vel := min m.vel 127, loc := o + m.delta, len := none } :: A) ++ nc :: B⟩ := by
        simp [rStep, rApply, hs]
      rw [this]; exact ih _ _ _
    · by_cases hc : m.closing
      · have hq : ¬ (nc.pitch = m.note ∧ nc.len = none) := by simp [hk]
        obtain ⟨A', B', e1, _, e3⟩ := closeFirst_around m.note (o + m.delta) A nc B hq
        have : rStep ⟨o, A ++ nc :: B⟩ m = ⟨o + m.delta, A' ++ nc :: B'⟩ := by
          simp [rStep, rApply, hs, hc, e1]
        rw [this]
        obtain ⟨A'', B'', h1, h2⟩ := ih (o + m.delta) A' B'
        exact ⟨A'', B'', h1, by omega⟩
      · have : rStep ⟨o, A ++ nc :: B⟩ m = ⟨o + m.delta, A ++ nc :: B⟩ := by
          simp [rStep, rApply, hs, hc]
        rw [this]; exact ih _ _ _

theorem readFold_notes_length (s : RState) (msgs : List Msg) :
    (readFold s msgs).notes.length = s.notes.length + (msgs.filter (fun m => decide m.sounding)).length := by
  have := congrArg List.length (readFold_keys s msgs)
  simpa [onsetsFrom_length] using this

theorem reader_length_between (pre mid post : List Msg) (on off : Msg)
    (hon : on.sounding) (hoff : off.closing) (hp : off.note = on.note)
    (hmid : ∀ m ∈ mid, (m.sounding ∨ m.closing) → m.note ≠ on.note) :
    ∃ n, (readNotes (pre ++ on :: (mid ++ off :: post)))[(pre.filter (fun m => decide m.sounding)).length]? = some n
      ∧ n.pitch = on.note ∧ n.vel = min on.vel 127
      ∧ n.loc = (pre.map (·.delta)).sum + on.delta
      ∧ n.len = some ((mid.map (·.delta)).sum + off.delta) := by
  unfold readNotes
  rw [readFold_append, readFold_cons, readFold_append, readFold_cons]
  generalize hs1 : readFold {} pre = s1
  have hoff1 : s1.offset = (pre.map (·.delta)).sum := by
    rw [← hs1, readFold_offset]; simp
  have hlen1 : s1.notes.length = (pre.filter (fun m => decide m.sounding)).length := by
    rw [← hs1, readFold_notes_length]; simp
  let n0 : RNote := { pitch := on.note, vel := min on.vel 127, loc := s1.offset + on.delta, len := none }
  have h2 : rStep s1 on = ⟨s1.offset + on.delta, [] ++ n0 :: s1.notes⟩ := by
    simp [rStep, rApply, hon, n0]
  rw [h2]
  obtain ⟨newer', old', e1, e2, e3⟩ := readFold_mid mid n0 (s1.offset + on.delta) [] s1.notes
    (fun x hx => by cases hx) hmid
  rw [e1]
  have hns : ¬ off.sounding := by
    intro h
    rcases hoff with h' | h'
    · rw [h.1] at h'; cases h'
    · have := h.2; omega
  have h3 : rStep ⟨s1.offset + on.delta + (mid.map (·.delta)).sum, newer' ++ n0 :: old'⟩ off
      = ⟨s1.offset + on.delta + (mid.map (·.delta)).sum + off.delta,
         newer' ++ { n0 with len := some ((mid.map (·.delta)).sum + off.delta) } :: old'⟩ := by
    simp only [rStep, rApply, hns, hoff, if_false, if_true, hp]
    rw [closeFirst_skip on.note _ newer' n0 old' e2 rfl rfl]
    have hlen : s1.offset + on.delta + (mid.map (·.delta)).sum + off.delta - n0.loc
        = (mid.map (·.delta)).sum + off.delta := by
      simp only [n0]; omega
    rw [hlen]
  rw [h3]
  obtain ⟨A', B', f1, f2⟩ := readFold_post post { n0 with len := some ((mid.map (·.delta)).sum + off.delta) } _ rfl
    (s1.offset + on.delta + (mid.map (·.delta)).sum + off.delta) newer' old'
  rw [f1]
  refine ⟨{ n0 with len := some ((mid.map (·.delta)).sum + off.delta) }, ?_, rfl, rfl, ?_, rfl⟩
  · have hidx : (pre.filter (fun m => decide m.sounding)).length = B'.reverse.length := by
      rw [List.length_reverse]; omega
    rw [List.reverse_append, List.reverse_cons, List.append_assoc, hidx,
      List.getElem?_append_right (Nat.le_refl _)]
    simp
  · simp only [n0]; omega

end IsobarV.Midi
