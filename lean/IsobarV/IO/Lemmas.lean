/-
Helper lemmas for property C19 (proof file: not linked into the driver).
-/
import IsobarV.IO.Model
import IsobarV.IO.Spec

namespace IsobarV.IO

/-! ## MIDI wire -/


theorem decode_encode (m : Msg) (h : m.Valid) : decode (encode m) = some m := by
  cases m with
  | noteOn n v c =>
    obtain ⟨hn, hv, hc⟩ := h
    have h1 : (144 + c) / 16 = 9 := by omega
    have h2 : (144 + c) % 16 = c := by omega
    simp [encode, decode, hn, hv, h1, h2]
  | noteOff n v c =>
    obtain ⟨hn, hv, hc⟩ := h
    have h1 : (128 + c) / 16 = 8 := by omega
    have h2 : (128 + c) % 16 = c := by omega
    simp [encode, decode, hn, hv, h1, h2]
  | control n v c =>
    obtain ⟨hn, hv, hc⟩ := h
    have h1 : (176 + c) / 16 = 11 := by omega
    have h2 : (176 + c) % 16 = c := by omega
    simp [encode, decode, hn, hv, h1, h2]
  | program p c =>
    obtain ⟨hp, hc⟩ := h
    have h1 : (192 + c) / 16 = 12 := by omega
    have h2 : (192 + c) % 16 = c := by omega
    simp [encode, decode, hp, h1, h2]
  | bend p c =>
    obtain ⟨hp1, hp2, hc⟩ := h
    have h1 : (224 + c) / 16 = 14 := by omega
    have h2 : (224 + c) % 16 = c := by omega
    have h3 : (p + 8192).toNat % 128 < 128 := by omega
    have h4 : (p + 8192).toNat / 128 < 128 := by omega
    have h5 : (((p + 8192).toNat % 128 : Nat) : Int) + (((p + 8192).toNat / 128 : Nat) : Int) * 128 - 8192 = p := by omega
    simp [encode, decode, h1, h2, h3, h4]
    omega
  | aftertouch v c =>
    obtain ⟨hv, hc⟩ := h
    have h1 : (208 + c) / 16 = 13 := by omega
    have h2 : (208 + c) % 16 = c := by omega
    simp [encode, decode, hv, h1, h2]



theorem data7_some {i : Int} (h0 : 0 ≤ i) (h1 : i ≤ 127) : data7 i = some i.toNat := by
  simp [data7, h0, h1]
theorem chan4_some {i : Int} (h0 : 0 ≤ i) (h1 : i ≤ 15) : chan4 i = some i.toNat := by
  simp [chan4, h0, h1]
theorem pitch14_some {i : Int} (h0 : -8192 ≤ i) (h1 : i ≤ 8191) : pitch14 i = some i := by
  simp [pitch14, h0, h1]

theorem data7_eq_some {i : Int} {n : Nat} (h : data7 i = some n) : 0 ≤ i ∧ i ≤ 127 ∧ n = i.toNat := by
  unfold data7 at h
  split at h
  · simp at h; omega
  · simp at h
theorem chan4_eq_some {i : Int} {n : Nat} (h : chan4 i = some n) : 0 ≤ i ∧ i ≤ 15 ∧ n = i.toNat := by
  unfold chan4 at h
  split at h
  · simp at h; omega
  · simp at h
theorem pitch14_eq_some {i p : Int} (h : pitch14 i = some p) : -8192 ≤ i ∧ i ≤ 8191 ∧ p = i := by
  unfold pitch14 at h
  split at h
  · simp at h; omega
  · simp at h

theorem data7_none {i : Int} (h : data7 i = none) : i < 0 ∨ 127 < i := by
  unfold data7 at h
  split at h
  · simp at h
  · omega

/-- whatever `resolve` lets through is a valid message whose fields are the `int()` of the arguments -/
theorem resolve_valid {r : Req} {m : Msg} (h : resolve r = some m) : m.Valid := by
  cases r <;> simp only [resolve] at h <;> split at h <;> simp at h <;> subst h <;> simp [Msg.Valid]
  all_goals
    first
    | (rename_i h1 h2 h3; have := data7_eq_some h1; have := data7_eq_some h2; have := chan4_eq_some h3; omega)
    | (rename_i h1 h2; have := data7_eq_some h1; have := chan4_eq_some h2; omega)
    | (rename_i h1 h2; have := pitch14_eq_some h1; have := chan4_eq_some h2; omega)


/-! ## int() truncation -/

theorem trunc_flt_abs (num : Int) (den : Nat) (hd : 0 < den) :
    (Num.flt num den).trunc.natAbs * den ≤ num.natAbs ∧ num.natAbs < ((Num.flt num den).trunc.natAbs + 1) * den := by
  have h : (Num.flt num den).trunc.natAbs = num.natAbs / den := by
    simp [Num.trunc, Int.natAbs_tdiv]; rfl
  rw [h]
  constructor
  · exact Nat.div_mul_le_self _ _
  · have := Nat.lt_mul_div_succ num.natAbs hd
    rw [Nat.mul_comm]; exact this

theorem trunc_flt_sign (num : Int) (den : Nat) :
    (0 ≤ num → 0 ≤ (Num.flt num den).trunc) ∧ (num ≤ 0 → (Num.flt num den).trunc ≤ 0) := by
  constructor
  · intro h; exact Int.tdiv_nonneg h (Int.natCast_nonneg den)
  · intro h
    simp only [Num.trunc]
    have e : num = -(-num) := by omega
    rw [e, Int.neg_tdiv]
    have := Int.tdiv_nonneg (a := -num) (b := (den : Int)) (by omega) (Int.natCast_nonneg den)
    omega

/-- for a non-negative float in [k, k+1): int() gives k -/
theorem trunc_flt_floor (num : Int) (den k : Nat) (hd : 0 < den) (h0 : (k : Int) * den ≤ num) (h1 : num < ((k : Int) + 1) * den) :
    (Num.flt num den).trunc = k := by
  have hn : 0 ≤ num := by
    have : (0 : Int) ≤ (k : Int) * den := Int.mul_nonneg (Int.natCast_nonneg _) (Int.natCast_nonneg _)
    omega
  simp only [Num.trunc]
  rw [Int.tdiv_eq_ediv_of_nonneg hn]
  have hd' : (0 : Int) < den := by omega
  apply Int.le_antisymm
  · have := (Int.ediv_lt_iff_lt_mul hd').mpr h1
    omega
  · exact (Int.le_ediv_iff_mul_le hd').mpr h0

/-! ## MIDI file -/


theorem absolutise_append (t : Nat) (a b : List FileMsg) :
    absolutise t (a ++ b) = absolutise t a ++ absolutise (t + sumDelta a) b := by
  induction a generalizing t with
  | nil => simp [absolutise, sumDelta]
  | cons m ms ih => simp [absolutise, sumDelta, ih, Nat.add_assoc]

theorem sumDelta_append (a b : List FileMsg) : sumDelta (a ++ b) = sumDelta a + sumDelta b := by
  induction a with
  | nil => simp [sumDelta]
  | cons m ms ih => simp [sumDelta, ih, Nat.add_assoc]

structure FileInv (d : FileDev) : Prop where
  le : d.last ≤ d.now
  sum : sumDelta d.track = d.last

theorem FileInv.append {d : FileDev} (h : FileInv d) (r : Req) : FileInv (d.append r).dev := by
  unfold FileDev.append
  split
  · constructor
    · simp
    · simp [sumDelta_append, sumDelta, h.sum]; have := h.le; omega
  · exact h

theorem FileInv.step {d : FileDev} (h : FileInv d) (op : FileOp) : FileInv (d.step op).dev := by
  cases op with
  | tick => exact ⟨by simp [FileDev.step]; have := h.le; omega, by simp [FileDev.step, h.sum]⟩
  | noteOn n v c => exact h.append _
  | noteOff n c => exact h.append _

theorem file_run_log (d : FileDev) (h : FileInv d) (ops : List FileOp) :
    absolutise 0 (d.run ops).track = absolutise 0 d.track ++ requestLog d.now ops
    ∧ (d.run ops).now = d.now + ticksIn ops ∧ FileInv (d.run ops) := by
  induction ops generalizing d with
  | nil => simp [FileDev.run, requestLog, ticksIn, h]
  | cons op ops ih =>
    have h' := h.step op
    obtain ⟨i1, i2, i3⟩ := ih _ h'
    refine ⟨?_, ?_, i3⟩
    · simp only [FileDev.run]
      rw [i1]
      cases op with
      | tick => simp [FileDev.step, requestLog]
      | noteOn n v c =>
        simp only [FileDev.step, FileDev.append, requestLog]
        cases hr : resolve (.noteOn n v c) with
        | none => simp
        | some m =>
          simp [absolutise_append, absolutise, h.sum]
          have := h.le; omega
      | noteOff n c =>
        simp only [FileDev.step, FileDev.append, requestLog]
        cases hr : resolve (.noteOff n c) with
        | none => simp
        | some m =>
          simp [absolutise_append, absolutise, h.sum]
          have := h.le; omega
    · simp only [FileDev.run]
      rw [i2]
      cases op with
      | tick => simp [FileDev.step, ticksIn]; omega
      | noteOn n v c => simp only [FileDev.step, FileDev.append, ticksIn]; split <;> simp
      | noteOff n c => simp only [FileDev.step, FileDev.append, ticksIn]; split <;> simp


/-! ## OSC -/


theorem takeWhile_nz (s : List Nat) (k : Nat) (rest : List Nat) (hs : ∀ b ∈ s, b ≠ 0) :
    (s ++ List.replicate (k + 1) 0 ++ rest).takeWhile (fun b => b ≠ 0) = s := by
  induction s with
  | nil => simp [List.replicate_succ]
  | cons a s ih =>
    have ha : a ≠ 0 := hs a (by simp)
    have := ih (fun b hb => hs b (by simp [hb]))
    simp [ha]
    simpa using this

theorem readString_oscString (s rest : List Nat) (hs : ∀ b ∈ s, b ≠ 0) :
    readString (oscString s ++ rest) = some { val := s, rest := rest } := by
  have hk : 4 - s.length % 4 = (3 - s.length % 4) + 1 := by omega
  have htw : (oscString s ++ rest).takeWhile (fun b => b ≠ 0) = s := by
    unfold oscString; rw [hk]; exact takeWhile_nz s _ rest hs
  unfold readString
  simp only [htw]
  have hn : (s.length / 4 + 1) * 4 = s.length + (4 - s.length % 4) := by omega
  have hlen : (oscString s ++ rest).length = s.length + (4 - s.length % 4) + rest.length := by
    simp [oscString]; omega
  have hdrop : (oscString s ++ rest).drop (s.length + (4 - s.length % 4)) = rest := by
    have : (oscString s).length = s.length + (4 - s.length % 4) := by simp [oscString]
    rw [← this, List.drop_left]
  rw [hn]
  simp [hlen, hdrop]

theorem readBE32_be32 (n : Nat) (h : n < 4294967296) (rest : List Nat) :
    readBE32 (be32 n ++ rest) = some { val := n, rest := rest } := by
  simp only [be32, readBE32, List.cons_append, List.nil_append]
  congr 2
  omega

theorem readBE64_be64 (n : Nat) (h : n < 18446744073709551616) (rest : List Nat) :
    readBE64 (be64 n ++ rest) = some { val := n, rest := rest } := by
  unfold readBE64 be64
  rw [List.append_assoc, readBE32_be32 _ (by omega)]
  simp only
  rw [readBE32_be32 _ (by omega)]
  simp only
  congr 2
  omega

theorem signed32 (i : Int) (h : fitsI32 i = true) : signed 4294967296 (i % 4294967296).toNat = i := by
  simp [fitsI32] at h
  unfold signed
  split <;> omega

theorem signed64 (i : Int) (h : fitsI64 i = true) :
    signed 18446744073709551616 (i % 18446744073709551616).toNat = i := by
  simp [fitsI64] at h
  unfold signed
  split <;> omega



theorem parseArgs_encArgs (f32 : Nat → Nat) (args : List OArg) (ds : List Nat)
    (hok : ∀ a ∈ args, a.Ok f32) (h : encArgs f32 args = some ds) :
    parseArgs (args.map argTag) ds = some (args.map (OArg.parsed f32)) := by
  induction args generalizing ds with
  | nil => simp [encArgs] at h; subst h; simp [parseArgs]
  | cons a as ih =>
    simp only [encArgs] at h
    cases hd : argData f32 a with
    | none => simp [hd] at h
    | some d =>
      cases hds : encArgs f32 as with
      | none => simp [hd, hds] at h
      | some ds' =>
        simp [hd, hds] at h
        subst h
        have ih' := ih ds' (fun a ha => hok a (by simp [ha])) hds
        have hoka := hok a (by simp)
        cases a with
        | int i =>
          simp only [argData] at hd
          by_cases h32 : fitsI32 i = true
          · simp [h32] at hd
            subst hd
            have hlt : (i % 4294967296).toNat < 4294967296 := by omega
            simp [List.map_cons, argTag, h32, parseArgs, readBE32_be32 _ hlt, ih', OArg.parsed, signed32 i h32]
          · simp [h32] at hd
            by_cases h64 : fitsI64 i = true
            · simp [h64] at hd
              subst hd
              have hlt : (i % 18446744073709551616).toNat < 18446744073709551616 := by omega
              simp [List.map_cons, argTag, h32, parseArgs, readBE64_be64 _ hlt, ih', OArg.parsed, signed64 i h64]
            · simp [h64] at hd
        | float x =>
          simp only [argData] at hd
          simp at hd
          subst hd
          have hlt : f32 x < 4294967296 := hoka
          simp [List.map_cons, argTag, parseArgs, readBE32_be32 _ hlt, ih', OArg.parsed]
        | str s =>
          simp only [argData] at hd
          simp at hd
          subst hd
          simp [List.map_cons, argTag, parseArgs, readString_oscString s ds' hoka, ih', OArg.parsed]
        | bool b =>
          simp only [argData] at hd
          simp at hd
          subst hd
          cases b <;> simp [List.map_cons, argTag, parseArgs, ih', OArg.parsed]

theorem argTag_ne_zero (a : OArg) : argTag a ≠ 0 := by
  cases a with
  | int i => simp [argTag]; split <;> simp
  | float _ => simp [argTag]
  | str _ => simp [argTag]
  | bool b => cases b <;> simp [argTag]

theorem parseOSC_encodeOSC (f32 : Nat → Nat) (addr : List Nat) (args : List OArg) (dg : List Nat)
    (haddr : ∀ b ∈ addr, b ≠ 0) (hok : ∀ a ∈ args, a.Ok f32)
    (h : encodeOSC f32 addr args = some dg) :
    parseOSC dg = some { addr := addr, args := args.map (OArg.parsed f32) } := by
  unfold encodeOSC at h
  split at h
  · simp at h
  · cases hds : encArgs f32 args with
    | none => simp [hds] at h
    | some ds =>
      simp [hds] at h
      subst h
      unfold parseOSC
      have htags : ∀ b ∈ (44 :: args.map argTag), b ≠ 0 := by
        intro b hb
        simp at hb
        rcases hb with rfl | ⟨a, _, rfl⟩
        · simp
        · exact argTag_ne_zero a
      rw [readString_oscString addr _ haddr]
      simp only
      rw [readString_oscString _ ds htags]
      simp only
      rw [parseArgs_encArgs f32 args ds hok hds]
      simp


/-! ## MPE -/


theorem upd_same {α : Type} (f : Nat → α) (k : Nat) (v : α) : upd f k v k = v := by simp [upd]
theorem upd_other {α : Type} (f : Nat → α) (k x : Nat) (v : α) (h : x ≠ k) : upd f k v x = f x := by simp [upd, h]

theorem mem_mpeChannels {c : Nat} : c ∈ mpeChannels ↔ 1 ≤ c ∧ c ≤ 15 := by
  simp [mpeChannels]; omega

theorem nextChannel_some {s : MPE} {c : Nat} (h : s.nextChannel = some c) : c ∈ mpeChannels ∧ s.chans c = none := by
  unfold MPE.nextChannel at h
  exact ⟨List.mem_of_find?_eq_some h, by simpa using List.find?_some h⟩

theorem nextChannel_none {s : MPE} (h : s.nextChannel = none) : ∀ c ∈ mpeChannels, (s.chans c).isSome = true := by
  unfold MPE.nextChannel at h
  intro c hc
  have := List.find?_eq_none.mp h c hc
  cases hcc : s.chans c <;> simp_all

/-- invariants of the allocator tables that hold after EVERY history of calls -/
structure Inv (s : MPE) : Prop where
  held_lt : ∀ n i, s.notes n = .held i → i < s.nextId
  held_chan : ∀ n i, s.notes n = .held i → s.chans (s.objCh i) = some i
  held_note : ∀ n i, s.notes n = .held i → s.objNote i = n
  chan_lt : ∀ c i, s.chans c = some i → i < s.nextId
  chan_ch : ∀ c i, s.chans c = some i → s.objCh i = c
  chan_mem : ∀ c i, s.chans c = some i → c ∈ mpeChannels
  down_chan : ∀ i, s.down i = true → s.chans (s.objCh i) = some i

theorem Inv.init : Inv MPE.init := by
  constructor <;> intros <;> simp_all [MPE.init] <;> (split at * <;> simp_all)

theorem Inv.alloc {s : MPE} (h : Inv s) (n c : Nat) (hc : c ∈ mpeChannels) (hfree : s.chans c = none) :
    Inv (s.alloc n c) := by
  constructor
  · intro n' i hi
    simp only [MPE.alloc, upd] at hi ⊢
    split at hi
    · simp at hi; omega
    · have := h.held_lt n' i hi; omega
  · intro n' i hi
    simp only [MPE.alloc, upd] at hi ⊢
    split at hi
    · simp at hi; subst hi; simp
    · have hlt := h.held_lt n' i hi
      have hch := h.held_chan n' i hi
      have hne : i ≠ s.nextId := by omega
      simp only [hne, ite_false]
      have : s.objCh i ≠ c := by intro e; rw [e, hfree] at hch; simp at hch
      simp [this, hch]
  · intro n' i hi
    simp only [MPE.alloc, upd] at hi ⊢
    split at hi
    · simp at hi; subst hi; simp_all
    · have hlt := h.held_lt n' i hi
      have hne : i ≠ s.nextId := by omega
      simp [hne, h.held_note n' i hi]
  · intro c' i hi
    simp only [MPE.alloc, upd] at hi ⊢
    split at hi
    · simp at hi; omega
    · have := h.chan_lt c' i hi; omega
  · intro c' i hi
    simp only [MPE.alloc, upd] at hi ⊢
    split at hi
    · simp at hi; subst hi; simp_all
    · have hlt := h.chan_lt c' i hi
      have hne : i ≠ s.nextId := by omega
      simp [hne, h.chan_ch c' i hi]
  · intro c' i hi
    simp only [MPE.alloc, upd] at hi
    split at hi
    · simp_all
    · exact h.chan_mem c' i hi
  · intro i hi
    simp only [MPE.alloc, upd] at hi ⊢
    by_cases hid : i = s.nextId
    · subst hid; simp
    · simp only [hid, ite_false] at hi ⊢
      have hch := h.down_chan i hi
      have : s.objCh i ≠ c := by intro e; rw [e, hfree] at hch; simp at hch
      simp [this, hch]

theorem Inv.release {s : MPE} (h : Inv s) (n id : Nat) (hheld : s.notes n = .held id) :
    Inv (s.release n id) := by
  have hc0 := h.held_chan n id hheld
  constructor
  · intro n' i hi
    simp only [MPE.release, upd] at hi ⊢
    split at hi
    · simp at hi
    · exact h.held_lt n' i hi
  · intro n' i hi
    simp only [MPE.release, upd] at hi ⊢
    split at hi
    · simp at hi
    · rename_i hne
      have hch := h.held_chan n' i hi
      have : s.objCh i ≠ s.objCh id := by
        intro e
        rw [e, hc0] at hch
        simp at hch
        subst hch
        have := h.held_note n' _ hi
        have := h.held_note n _ hheld
        omega
      simp [this, hch]
  · intro n' i hi
    simp only [MPE.release, upd] at hi ⊢
    split at hi
    · simp at hi
    · exact h.held_note n' i hi
  · intro c' i hi
    simp only [MPE.release, upd] at hi ⊢
    split at hi
    · simp at hi
    · exact h.chan_lt c' i hi
  · intro c' i hi
    simp only [MPE.release, upd] at hi ⊢
    split at hi
    · simp at hi
    · exact h.chan_ch c' i hi
  · intro c' i hi
    simp only [MPE.release, upd] at hi
    split at hi
    · simp at hi
    · exact h.chan_mem c' i hi
  · intro i hi
    simp only [MPE.release, upd] at hi ⊢
    split at hi
    · simp at hi
    · rename_i hne
      have hch := h.down_chan i hi
      have : s.objCh i ≠ s.objCh id := by
        intro e
        rw [e, hc0] at hch
        simp at hch
        omega
      simp [this, hch]

/-- the state after a call is the old one, an allocation on a free member channel, or the release of a held note -/
theorem step_st_cases (s : MPE) (op : MpeOp) :
    (s.step op).st = s
    ∨ (∃ n v c, op = .on n v ∧ s.nextChannel = some c ∧ (s.step op).st = s.alloc n c)
    ∨ (∃ n id, s.notes n = .held id ∧ (s.step op).st = s.release n id) := by
  have hoff : ∀ n, (s.noteOff n).st = s ∨ (∃ id, s.notes n = .held id ∧ (s.noteOff n).st = s.release n id) := by
    intro n
    cases hn : s.notes n with
    | absent => simp [MPE.noteOff, hn]
    | never => simp [MPE.noteOff, hn]
    | released => simp [MPE.noteOff, hn]
    | held id =>
      cases hr : resolve (.noteOff (.int n) (.int (s.objCh id))) with
      | none => simp [MPE.noteOff, hn, hr]
      | some m => simp [MPE.noteOff, hn, hr]
  have hsend : ∀ id r, (s.objSend id r).st = s := by
    intro id r; unfold MPE.objSend; split
    · split <;> rfl
    · rfl
  cases op with
  | on n v =>
    simp only [MPE.step, MPE.noteOn]
    split
    · simp
    · rename_i c hc
      right; left
      refine ⟨n, v, c, rfl, hc, ?_⟩
      split <;> rfl
  | off n =>
    rcases hoff n with h | ⟨id, h1, h2⟩
    · left; exact h
    · right; right; exact ⟨n, id, h1, h2⟩
  | objOff id =>
    simp only [MPE.step]
    split
    · rcases hoff (s.objNote id) with h | ⟨i, h1, h2⟩
      · left; exact h
      · right; right; exact ⟨_, i, h1, h2⟩
    · simp
  | objBend id p => left; exact hsend _ _
  | objControl id k v => left; exact hsend _ _
  | objAftertouch id v => left; exact hsend _ _

theorem Inv.step {s : MPE} (h : Inv s) (op : MpeOp) : Inv (s.step op).st := by
  rcases step_st_cases s op with e | ⟨n, v, c, _, hc, e⟩ | ⟨n, id, hh, e⟩
  · rw [e]; exact h
  · rw [e]; have := nextChannel_some hc; exact h.alloc n c this.1 this.2
  · rw [e]; exact h.release n id hh

theorem Inv.run {s : MPE} (h : Inv s) (ops : List MpeOp) : Inv (s.run ops) := by
  induction ops generalizing s with
  | nil => exact h
  | cons op ops ih => exact ih (h.step op)



theorem resolve_noteOn_nat {n v c : Nat} (hn : n < 128) (hv : v < 128) (hc : c < 16) :
    resolve (.noteOn (.int n) (.int v) (.int c)) = some (.noteOn n v c) := by
  have h1 : data7 (n : Int) = some n := by simp [data7]; omega
  have h2 : data7 (v : Int) = some v := by simp [data7]; omega
  have h3 : chan4 (c : Int) = some c := by simp [chan4]; omega
  simp [resolve, Num.trunc, h1, h2, h3]

theorem resolve_noteOff_nat {n c : Nat} (hn : n < 128) (hc : c < 16) :
    resolve (.noteOff (.int n) (.int c)) = some (.noteOff n 64 c) := by
  have h1 : data7 (n : Int) = some n := by simp [data7]; omega
  have h3 : chan4 (c : Int) = some c := by simp [chan4]; omega
  simp [resolve, Num.trunc, h1, h3]

/-- every held key is a MIDI note number (true as long as note_on is only called with notes 0..127) -/
def DInv (s : MPE) : Prop := ∀ n i, s.notes n = .held i → n < 128

/-- the receiver's view of every channel agrees with the allocator's table -/
def WInv (s : MPE) (w : List Msg) : Prop := ∀ c, soundingOn c w = (s.chans c).map s.objNote

theorem noteOn_some {s : MPE} {n v c : Nat} (hn : n < 128) (hv : v < 128) (hc : s.nextChannel = some c) :
    (s.noteOn n v).st = s.alloc n c ∧ (s.noteOn n v).res = .note s.nextId c ∧ (s.noteOn n v).wire = [.noteOn n v c] := by
  have hm := (mem_mpeChannels.mp (nextChannel_some hc).1)
  have hr := resolve_noteOn_nat hn hv (c := c) (by omega)
  simp [MPE.noteOn, hc, hr]

theorem noteOn_none {s : MPE} {n v : Nat} (hc : s.nextChannel = none) :
    (s.noteOn n v).st = s ∧ (s.noteOn n v).res = .noChannel ∧ (s.noteOn n v).wire = [] := by
  simp [MPE.noteOn, hc]

theorem noteOff_held {s : MPE} (hI : Inv s) (hD : DInv s) {n i : Nat} (hh : s.notes n = .held i) :
    (s.noteOff n).st = s.release n i ∧ (s.noteOff n).res = .released (s.objCh i)
      ∧ (s.noteOff n).wire = [.noteOff n 64 (s.objCh i)] := by
  have hn := hD n i hh
  have hm := mem_mpeChannels.mp (hI.chan_mem _ _ (hI.held_chan n i hh))
  have hr := resolve_noteOff_nat hn (c := s.objCh i) (by omega)
  simp [MPE.noteOff, hh, hr]

theorem noteOff_unheld {s : MPE} {n : Nat} (hh : (s.notes n).isHeld = false) :
    (s.noteOff n).st = s ∧ (s.noteOff n).wire = [] := by
  cases hn : s.notes n <;> simp_all [MPE.noteOff, Slot.isHeld]

theorem soundingOn_nil (c : Nat) : soundingOn c [] = none := rfl
theorem soundingOn_snoc (c : Nat) (w : List Msg) (m : Msg) :
    soundingOn c (w ++ [m]) = soundStep c (soundingOn c w) m := by
  simp [soundingOn, soundingFrom, List.foldl_append]

theorem DInv.alloc {s : MPE} (h : DInv s) {n : Nat} (c : Nat) (hn : n < 128) : DInv (s.alloc n c) := by
  intro n' i hi
  simp only [MPE.alloc, upd] at hi
  split at hi
  · omega
  · exact h n' i hi

theorem DInv.release {s : MPE} (h : DInv s) (n id : Nat) : DInv (s.release n id) := by
  intro n' i hi
  simp only [MPE.release, upd] at hi
  split at hi
  · simp at hi
  · exact h n' i hi

theorem WInv.alloc {s : MPE} {w : List Msg} (hI : Inv s) (hW : WInv s w) (n v c : Nat) :
    WInv (s.alloc n c) (w ++ [.noteOn n v c]) := by
  intro c'
  rw [soundingOn_snoc, hW c']
  simp only [soundStep, MPE.alloc, upd]
  by_cases hcc : c' = c
  · subst hcc; simp [upd]
  · have : ¬ c = c' := fun e => hcc e.symm
    simp only [hcc, this, ite_false]
    cases hch : s.chans c' with
    | none => simp
    | some i =>
      have := hI.chan_lt c' i hch
      have hne : i ≠ s.nextId := by omega
      simp [upd, hne]

theorem WInv.release {s : MPE} {w : List Msg} (hW : WInv s w) (n id v : Nat) :
    WInv (s.release n id) (w ++ [.noteOff n v (s.objCh id)]) := by
  intro c'
  rw [soundingOn_snoc, hW c']
  simp only [soundStep, MPE.release, upd]
  by_cases hcc : c' = s.objCh id
  · simp [hcc]
  · have : ¬ s.objCh id = c' := fun e => hcc e.symm
    simp [hcc, this]

theorem objSend_cases (s : MPE) (id : Nat) (r : Req) :
    (s.objSend id r).st = s ∧ ((s.objSend id r).wire = [] ∨ ∃ m, resolve r = some m ∧ (s.objSend id r).wire = [m]) := by
  unfold MPE.objSend
  split
  · cases hr : resolve r <;> simp
  · simp

theorem WInv.expr {s : MPE} {w : List Msg} (hW : WInv s w) (m : Msg)
    (hm : (∃ p c, m = .bend p c) ∨ (∃ k v c, m = .control k v c) ∨ (∃ v c, m = .aftertouch v c)) :
    WInv s (w ++ [m]) := by
  intro c
  rw [soundingOn_snoc, hW c]
  rcases hm with ⟨p, c', rfl⟩ | ⟨k, v, c', rfl⟩ | ⟨v, c', rfl⟩ <;> simp [soundStep]

theorem resolve_bend_shape {p c : Num} {m : Msg} (h : resolve (.bend p c) = some m) : ∃ p c, m = .bend p c := by
  simp only [resolve] at h; split at h <;> simp at h; exact ⟨_, _, h.symm⟩
theorem resolve_control_shape {k v c : Num} {m : Msg} (h : resolve (.control k v c) = some m) :
    ∃ k v c, m = .control k v c := by
  simp only [resolve] at h; split at h <;> simp at h; exact ⟨_, _, _, h.symm⟩
theorem resolve_aftertouch_shape {v c : Num} {m : Msg} (h : resolve (.aftertouch v c) = some m) :
    ∃ v c, m = .aftertouch v c := by
  simp only [resolve] at h; split at h <;> simp at h; exact ⟨_, _, h.symm⟩

/-- one call keeps the receiver's view and the tables in agreement -/
theorem WInv.step {s : MPE} {w : List Msg} (hI : Inv s) (hD : DInv s) (hW : WInv s w) (op : MpeOp)
    (hop : op.InDomain) : WInv (s.step op).st (w ++ (s.step op).wire) ∧ DInv (s.step op).st := by
  have hoff : ∀ n, WInv (s.noteOff n).st (w ++ (s.noteOff n).wire) ∧ DInv (s.noteOff n).st := by
    intro n
    cases hh : (s.notes n).isHeld with
    | false =>
      obtain ⟨e1, e2⟩ := noteOff_unheld hh
      rw [e1, e2]; simpa using ⟨hW, hD⟩
    | true =>
      cases hn : s.notes n <;> simp [hn, Slot.isHeld] at hh
      rename_i i
      obtain ⟨e1, _, e3⟩ := noteOff_held hI hD hn
      rw [e1, e3]
      exact ⟨hW.release n i 64, hD.release n i⟩
  have hsend : ∀ id r,
      (∀ m, resolve r = some m →
        (∃ p c, m = Msg.bend p c) ∨ (∃ k v c, m = Msg.control k v c) ∨ (∃ v c, m = Msg.aftertouch v c)) →
      WInv (s.objSend id r).st (w ++ (s.objSend id r).wire) ∧ DInv (s.objSend id r).st := by
    intro id r h1
    obtain ⟨e1, e2 | ⟨m, hm, e2⟩⟩ := objSend_cases s id r
    · rw [e1, e2]; simpa using ⟨hW, hD⟩
    · rw [e1, e2]; exact ⟨hW.expr m (h1 m hm), hD⟩
  cases op with
  | on n v =>
    obtain ⟨hn, hv⟩ := hop
    simp only [MPE.step]
    cases hc : s.nextChannel with
    | none =>
      obtain ⟨e1, _, e3⟩ := noteOn_none (n := n) (v := v) hc
      rw [e1, e3]; simpa using ⟨hW, hD⟩
    | some c =>
      obtain ⟨e1, _, e3⟩ := noteOn_some hn hv hc
      rw [e1, e3]
      exact ⟨hW.alloc hI n v c, hD.alloc c hn⟩
  | off n => exact hoff n
  | objOff id =>
    simp only [MPE.step]
    split
    · exact hoff _
    · simpa using ⟨hW, hD⟩
  | objBend id p => exact hsend id _ (fun m h => Or.inl (resolve_bend_shape h))
  | objControl id k v => exact hsend id _ (fun m h => Or.inr (Or.inl (resolve_control_shape h)))
  | objAftertouch id v => exact hsend id _ (fun m h => Or.inr (Or.inr (resolve_aftertouch_shape h)))

theorem WInv.run {s : MPE} {w : List Msg} (hI : Inv s) (hD : DInv s) (hW : WInv s w) (ops : List MpeOp)
    (hops : ∀ op ∈ ops, op.InDomain) : WInv (s.run ops) (w ++ s.wire ops) ∧ DInv (s.run ops) := by
  induction ops generalizing s w with
  | nil => simpa [MPE.run, MPE.wire] using ⟨hW, hD⟩
  | cons op ops ih =>
    obtain ⟨h1, h2⟩ := hW.step hI hD op (hops op (by simp))
    have := ih (hI.step op) h2 h1 (fun o ho => hops o (by simp [ho]))
    simpa [MPE.run, MPE.wire, List.append_assoc] using this

theorem DInv.init : DInv MPE.init := by
  intro n i h; simp [MPE.init] at h; split at h <;> simp at h
theorem WInv.init : WInv MPE.init [] := by
  intro c; simp [MPE.init, soundingOn_nil]


/-- every occupied channel belongs to a key that is held (fails once a held key is pressed again: the first
    `MPENote` then keeps its channel although `note_assignments` has forgotten it) -/
def RInv (s : MPE) : Prop := ∀ c i, s.chans c = some i → s.notes (s.objNote i) = .held i

theorem RInv.init : RInv MPE.init := by intro c i h; simp [MPE.init] at h

theorem RInv.alloc {s : MPE} (hI : Inv s) (h : RInv s) (n c : Nat) (hn : (s.notes n).isHeld = false) :
    RInv (s.alloc n c) := by
  intro c' i hi
  simp only [MPE.alloc] at hi ⊢
  by_cases hcc : c' = c
  · subst hcc
    simp [upd] at hi
    subst hi
    simp [upd]
  · simp only [upd, hcc, ite_false] at hi
    have hlt := hI.chan_lt c' i hi
    have hne : i ≠ s.nextId := by omega
    have hr := h c' i hi
    have : s.objNote i ≠ n := by
      intro e; rw [e] at hr; rw [hr] at hn; simp [Slot.isHeld] at hn
    simp [upd, hne, this, hr]

theorem RInv.release {s : MPE} (hI : Inv s) (h : RInv s) (n id : Nat) (hh : s.notes n = .held id) :
    RInv (s.release n id) := by
  intro c' i hi
  simp only [MPE.release] at hi ⊢
  by_cases hcc : c' = s.objCh id
  · simp [upd, hcc] at hi
  · simp only [upd, hcc, ite_false] at hi
    have hr := h c' i hi
    have : s.objNote i ≠ n := by
      intro e
      rw [e, hh] at hr
      simp at hr
      subst hr
      exact hcc (hI.chan_ch c' _ hi).symm
    simp [upd, this, hr]

theorem RInv.run {s : MPE} (hI : Inv s) (h : RInv s) (ops : List MpeOp) (hnr : noRetrigger s ops) :
    RInv (s.run ops) := by
  induction ops generalizing s with
  | nil => exact h
  | cons op ops ih =>
    obtain ⟨h1, h2⟩ := hnr
    refine ih (hI.step op) ?_ h2
    rcases step_st_cases s op with e | ⟨n, v, c, hop, _, e⟩ | ⟨n, id, hh, e⟩
    · rw [e]; exact h
    · rw [e]; exact h.alloc hI n c (h1 n v hop)
    · rw [e]; exact h.release hI n id hh


/-! ## MPE: counting -/

theorem soundingCount_eq_occupied {s : MPE} {w : List Msg} (hW : WInv s w) : soundingCount w = s.occupied := by
  unfold soundingCount MPE.occupied
  congr 1
  apply List.filter_congr
  intro c _
  rw [hW c]
  simp

theorem nextChannel_of_occupied_lt {s : MPE} (h : s.occupied < 15) : ∃ c, s.nextChannel = some c := by
  cases hc : s.nextChannel with
  | some c => exact ⟨c, rfl⟩
  | none =>
    exfalso
    have hall := nextChannel_none hc
    have : mpeChannels.filter (fun c => (s.chans c).isSome) = mpeChannels :=
      List.filter_eq_self.mpr hall
    unfold MPE.occupied at h
    rw [this] at h
    simp [mpeChannels] at h

theorem occupied_eq_15_of_nextChannel_none {s : MPE} (hc : s.nextChannel = none) : s.occupied = 15 := by
  have hall := nextChannel_none hc
  have : mpeChannels.filter (fun c => (s.chans c).isSome) = mpeChannels :=
    List.filter_eq_self.mpr hall
  unfold MPE.occupied
  rw [this]
  simp [mpeChannels]

theorem occupied_le (s : MPE) : s.occupied ≤ 15 := by
  unfold MPE.occupied
  have := List.length_filter_le (fun c => (s.chans c).isSome) mpeChannels
  simpa [mpeChannels] using this

/-- counting a predicate over a duplicate-free list after switching it on at one point -/
theorem count_set_true (l : List Nat) (hnd : l.Nodup) (p q : Nat → Bool) (k : Nat) (hk : k ∈ l)
    (hp : p k = false) (hq : q k = true) (hpq : ∀ x, x ≠ k → q x = p x) :
    (l.filter q).length = (l.filter p).length + 1 := by
  induction l with
  | nil => simp at hk
  | cons a l ih =>
    have hnd' := (List.nodup_cons.mp hnd)
    by_cases hak : a = k
    · subst hak
      have hnot : a ∉ l := hnd'.1
      have e : l.filter q = l.filter p := by
        apply List.filter_congr
        intro x hx
        exact hpq x (fun e => hnot (e ▸ hx))
      rw [List.filter_cons, List.filter_cons, hq, hp, e]
      simp
    · have hk' : k ∈ l := by
        rcases List.mem_cons.mp hk with e | e
        · exact absurd e.symm hak
        · exact e
      have := ih hnd'.2 hk'
      rw [List.filter_cons, List.filter_cons, hpq a hak]
      cases hpa : p a <;> simp [this]

theorem count_set_false (l : List Nat) (hnd : l.Nodup) (p q : Nat → Bool) (k : Nat) (hk : k ∈ l)
    (hp : p k = true) (hq : q k = false) (hpq : ∀ x, x ≠ k → q x = p x) :
    (l.filter q).length + 1 = (l.filter p).length := by
  induction l with
  | nil => simp at hk
  | cons a l ih =>
    have hnd' := (List.nodup_cons.mp hnd)
    by_cases hak : a = k
    · subst hak
      have hnot : a ∉ l := hnd'.1
      have e : l.filter q = l.filter p := by
        apply List.filter_congr
        intro x hx
        exact hpq x (fun e => hnot (e ▸ hx))
      rw [List.filter_cons, List.filter_cons, hq, hp, e]
      simp
    · have hk' : k ∈ l := by
        rcases List.mem_cons.mp hk with e | e
        · exact absurd e.symm hak
        · exact e
      have := ih hnd'.2 hk'
      rw [List.filter_cons, List.filter_cons, hpq a hak]
      cases hpa : p a <;> simp <;> omega

theorem mpeChannels_nodup : mpeChannels.Nodup := by decide

/-- without re-triggering, as many channels are occupied as keys are held -/
def CInv (s : MPE) : Prop := s.occupied = s.heldCount

theorem CInv.init : CInv MPE.init := by
  unfold CInv MPE.occupied MPE.heldCount
  have h1 : mpeChannels.filter (fun c => (MPE.init.chans c).isSome) = [] := by
    apply List.filter_eq_nil_iff.mpr; intro c _; simp [MPE.init]
  have h2 : (List.range 128).filter (fun n => (MPE.init.notes n).isHeld) = [] := by
    apply List.filter_eq_nil_iff.mpr; intro n _; simp [MPE.init]; split <;> simp [Slot.isHeld]
  rw [h1, h2]

theorem CInv.alloc {s : MPE} (h : CInv s) (n c : Nat) (hn : n < 128) (hnh : (s.notes n).isHeld = false)
    (hc : c ∈ mpeChannels) (hfree : s.chans c = none) : CInv (s.alloc n c) := by
  unfold CInv MPE.occupied MPE.heldCount at *
  have c1 := count_set_true _ mpeChannels_nodup (fun x => (s.chans x).isSome)
    (fun x => ((s.alloc n c).chans x).isSome) c hc (by simp [hfree]) (by simp [MPE.alloc, upd])
    (by intro x hx; simp [MPE.alloc, upd, hx])
  have c2 := count_set_true _ List.nodup_range (fun x => (s.notes x).isHeld)
    (fun x => ((s.alloc n c).notes x).isHeld) n (List.mem_range.mpr hn) hnh (by simp [MPE.alloc, upd, Slot.isHeld])
    (by intro x hx; simp [MPE.alloc, upd, hx])
  omega

theorem CInv.release {s : MPE} (hI : Inv s) (hD : DInv s) (h : CInv s) (n id : Nat) (hh : s.notes n = .held id) :
    CInv (s.release n id) := by
  unfold CInv MPE.occupied MPE.heldCount at *
  have hch := hI.held_chan n id hh
  have c1 := count_set_false _ mpeChannels_nodup (fun x => (s.chans x).isSome)
    (fun x => ((s.release n id).chans x).isSome) (s.objCh id)
    (hI.chan_mem _ _ hch) (by simp [hch]) (by simp [MPE.release, upd]) (by intro x hx; simp [MPE.release, upd, hx])
  have c2 := count_set_false _ List.nodup_range (fun x => (s.notes x).isHeld)
    (fun x => ((s.release n id).notes x).isHeld) n
    (List.mem_range.mpr (hD n id hh)) (by simp [hh, Slot.isHeld]) (by simp [MPE.release, upd, Slot.isHeld])
    (by intro x hx; simp [MPE.release, upd, hx])
  omega

theorem CInv.run {s : MPE} (hI : Inv s) (hD : DInv s) (h : CInv s) (ops : List MpeOp)
    (hd : ∀ op ∈ ops, op.InDomain) (hnr : noRetrigger s ops) : CInv (s.run ops) := by
  induction ops generalizing s with
  | nil => exact h
  | cons op ops ih =>
    obtain ⟨h1, h2⟩ := hnr
    have hop := hd op (by simp)
    have hD' : DInv (s.step op).st := by
      rcases step_st_cases s op with e | ⟨n, v, c, hop', _, e⟩ | ⟨n, id, hh, e⟩
      · rw [e]; exact hD
      · rw [e]; subst hop'; exact hD.alloc c hop.1
      · rw [e]; exact hD.release n id
    refine ih (hI.step op) hD' ?_ (fun o ho => hd o (by simp [ho])) h2
    rcases step_st_cases s op with e | ⟨n, v, c, hop', hc, e⟩ | ⟨n, id, hh, e⟩
    · rw [e]; exact h
    · rw [e]; subst hop'
      have := nextChannel_some hc
      exact h.alloc n c hop.1 (h1 n v rfl) this.1 this.2
    · rw [e]; exact h.release hI hD n id hh


/-! ## MPE: recycling -/

theorem nextChannel_congr {s t : MPE} (h : s.chans = t.chans) : s.nextChannel = t.nextChannel := by
  unfold MPE.nextChannel; rw [h]

theorem alloc_facts (s : MPE) (n c : Nat) :
    (s.alloc n c).notes n = .held s.nextId ∧ (s.alloc n c).objCh s.nextId = c ∧ (s.alloc n c).objNote s.nextId = n
      ∧ (s.alloc n c).down s.nextId = true := by
  simp [MPE.alloc, upd]

/-- press a key and release it again: both messages go out on the lowest free channel, which is free again afterwards -/
theorem press_release {s : MPE} (hI : Inv s) (hD : DInv s) {c n v : Nat} (hc : s.nextChannel = some c)
    (hn : n < 128) (hv : v < 128) :
    (s.step (.on n v)).wire = [.noteOn n v c]
    ∧ ((s.step (.on n v)).st.step (.off n)).wire = [.noteOff n 64 c]
    ∧ ((s.step (.on n v)).st.step (.off n)).st.chans = s.chans
    ∧ Inv ((s.step (.on n v)).st.step (.off n)).st ∧ DInv ((s.step (.on n v)).st.step (.off n)).st := by
  obtain ⟨e1, _, e3⟩ := noteOn_some hn hv hc
  have hfree := (nextChannel_some hc).2
  have hI1 : Inv (s.alloc n c) := hI.alloc n c (nextChannel_some hc).1 hfree
  have hD1 : DInv (s.alloc n c) := hD.alloc c hn
  obtain ⟨a1, a2, _, _⟩ := alloc_facts s n c
  obtain ⟨f1, _, f3⟩ := noteOff_held hI1 hD1 a1
  simp only [MPE.step]
  rw [e1, e3, f1, f3, a2]
  refine ⟨rfl, rfl, ?_, hI1.release n _ a1, hD1.release n _⟩
  funext x
  simp only [MPE.release, a2]
  simp only [MPE.alloc, upd]
  split
  · rename_i h; rw [h, hfree]
  · rfl

theorem successive_wire {s : MPE} (hI : Inv s) (hD : DInv s) {c : Nat} (hc : s.nextChannel = some c)
    (ns : List (Nat × Nat)) (hns : ∀ p ∈ ns, p.1 < 128 ∧ p.2 < 128) :
    s.wire (playSuccessively ns) = successiveWire c ns ∧ (s.run (playSuccessively ns)).chans = s.chans := by
  induction ns generalizing s with
  | nil => simp [playSuccessively, successiveWire, MPE.wire, MPE.run]
  | cons p rest ih =>
    obtain ⟨hn, hv⟩ := hns p (by simp)
    obtain ⟨w1, w2, hch, hI2, hD2⟩ := press_release hI hD hc hn hv
    have hc2 := (nextChannel_congr hch).trans hc
    obtain ⟨i1, i2⟩ := ih hI2 hD2 hc2 (fun q hq => hns q (by simp [hq]))
    constructor
    · simp only [playSuccessively, MPE.wire, successiveWire]
      rw [w1, w2, i1]; rfl
    · simp only [playSuccessively, MPE.run]
      rw [i2, hch]


end IsobarV.IO
