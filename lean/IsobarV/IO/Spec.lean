/-
Specification vocabulary of property C19 (definitions only, no proofs): the notions the theorems of
`IsobarV/Props/C19.lean` are stated with.  Import-free apart from the model.
-/
import IsobarV.IO.Model

namespace IsobarV.IO

/-- absolute tick of every message of a track, from its delta times -/
def absolutise : Nat → List FileMsg → List (Nat × Msg)
  | _, [] => []
  | t, m :: ms => (t + m.delta, m.msg) :: absolutise (t + m.delta) ms

/-- the specification: the accepted requests of a history, each stamped with the number of `tick()` calls before it -/
def requestLog : Nat → List FileOp → List (Nat × Msg)
  | _, [] => []
  | t, .tick :: ops => requestLog (t + 1) ops
  | t, .noteOn n v c :: ops =>
    match resolve (.noteOn n v c) with
    | some m => (t, m) :: requestLog t ops
    | none => requestLog t ops
  | t, .noteOff n c :: ops =>
    match resolve (.noteOff n c) with
    | some m => (t, m) :: requestLog t ops
    | none => requestLog t ops

def ticksIn : List FileOp → Nat
  | [] => 0
  | .tick :: ops => ticksIn ops + 1
  | _ :: ops => ticksIn ops

def sumDelta : List FileMsg → Nat
  | [] => 0
  | m :: ms => m.delta + sumDelta ms


/-- side conditions under which a receiver can recover an argument: no NUL inside a string, and the float32
    conversion yields a 32-bit pattern -/
def OArg.Ok (f32 : Nat → Nat) : OArg → Prop
  | .int _ => True
  | .float d => f32 d < 4294967296
  | .str s => ∀ b ∈ s, b ≠ 0
  | .bool _ => True


def MpeOp.InDomain : MpeOp → Prop
  | .on n v => n < 128 ∧ v < 128
  | _ => True


/-- a history never presses a key that is still held -/
def noRetrigger : MPE → List MpeOp → Prop
  | _, [] => True
  | s, op :: ops => (∀ n v, op = .on n v → (s.notes n).isHeld = false) ∧ noRetrigger (s.step op).st ops


/-- number of keys (0..127) the allocator records as held -/
def MPE.heldCount (s : MPE) : Nat := ((List.range 128).filter (fun n => (s.notes n).isHeld)).length

/-- play the notes one after the other: press, release, press the next … -/
def playSuccessively : List (Nat × Nat) → List MpeOp
  | [] => []
  | p :: rest => .on p.1 p.2 :: .off p.1 :: playSuccessively rest

/-- what a receiver should hear for `playSuccessively` when every note goes to channel `c` -/
def successiveWire (c : Nat) : List (Nat × Nat) → List Msg
  | [] => []
  | p :: rest => .noteOn p.1 p.2 c :: .noteOff p.1 64 c :: successiveWire c rest

end IsobarV.IO
