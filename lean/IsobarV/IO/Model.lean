/-
Model of isobar's output-device encoders (property C19), as the code is AFTER the fix patches
fixes/01-osc-note-control-payload, fixes/02-mpe-free-channel-on-note-off, fixes/03-midifile-int-arguments.

  isobar/io/midi/output.py     MidiOutputDevice.note_on / note_off / control / program_change / pitch_bend /
                               aftertouch: `mido.Message(kind, field=int(arg), …)` handed to the port
  isobar/io/midifile/output.py MidiFileOutputDevice.tick / note_on / note_off / write
  isobar/io/osc/output.py      OSCOutputDevice.note_on / note_off / control / send  (python-osc builder)
  isobar/io/mpe/output.py      MPEOutputDevice._get_next_channel / note_on / note_off
  isobar/io/mpe/note.py        MPENote.pitch_bend / aftertouch / control / note_off

Bytes are `Nat`s (< 256 by construction).  Import-free, total, computable; results are structures.
-/
namespace IsobarV.IO

/-! ## 1. Numeric arguments and Python `int()` -/

/-- A numeric argument as the Python caller passes it: an `int`, or a finite `float` whose exact value
    is `num / den` (`den > 0`; every finite double is such a dyadic rational). -/
inductive Num where
  | int (i : Int)
  | flt (num : Int) (den : Nat)
  deriving DecidableEq, Repr, Inhabited

/-- Python `int(x)`: the identity on ints, truncation toward zero on floats. -/
def Num.trunc : Num → Int
  | .int i => i
  | .flt n d => Int.tdiv n (d : Int)

/-! ## 2. MIDI channel-voice messages on the wire -/

/-- A decoded channel-voice message. -/
inductive Msg where
  | noteOn (note vel ch : Nat)
  | noteOff (note vel ch : Nat)
  | control (cc val ch : Nat)
  | program (p ch : Nat)
  | bend (pitch : Int) (ch : Nat)
  | aftertouch (val ch : Nat)
  deriving DecidableEq, Repr, Inhabited

/-- Field ranges of the MIDI 1.0 channel-voice messages (what `mido` accepts). -/
def Msg.Valid : Msg → Prop
  | .noteOn n v c => n < 128 ∧ v < 128 ∧ c < 16
  | .noteOff n v c => n < 128 ∧ v < 128 ∧ c < 16
  | .control k v c => k < 128 ∧ v < 128 ∧ c < 16
  | .program p c => p < 128 ∧ c < 16
  | .bend p c => -8192 ≤ p ∧ p ≤ 8191 ∧ c < 16
  | .aftertouch v c => v < 128 ∧ c < 16

/-- A request as a device method receives it (arguments still ints or floats). -/
inductive Req where
  | noteOn (note vel ch : Num)
  | noteOff (note ch : Num)
  | control (cc val ch : Num)
  | program (p ch : Num)
  | bend (pitch ch : Num)
  | aftertouch (val ch : Num)
  deriving DecidableEq, Repr, Inhabited

/-- `mido.check_data_byte`: a 7-bit data byte, otherwise `ValueError` (`none`). -/
def data7 (i : Int) : Option Nat := if 0 ≤ i ∧ i ≤ 127 then some i.toNat else none
/-- `mido.check_channel`. -/
def chan4 (i : Int) : Option Nat := if 0 ≤ i ∧ i ≤ 15 then some i.toNat else none
/-- `mido.check_pitch`. -/
def pitch14 (i : Int) : Option Int := if -8192 ≤ i ∧ i ≤ 8191 then some i else none

/-- `mido.Message(kind, field=int(arg), …)`: `int()` every argument, then range-check; `none` = `ValueError`.
    A `note_off` built without a velocity carries mido's default release velocity 64. -/
def resolve : Req → Option Msg
  | .noteOn n v c =>
    match data7 n.trunc, data7 v.trunc, chan4 c.trunc with
    | some n, some v, some c => some (.noteOn n v c)
    | _, _, _ => none
  | .noteOff n c =>
    match data7 n.trunc, chan4 c.trunc with
    | some n, some c => some (.noteOff n 64 c)
    | _, _ => none
  | .control k v c =>
    match data7 k.trunc, data7 v.trunc, chan4 c.trunc with
    | some k, some v, some c => some (.control k v c)
    | _, _, _ => none
  | .program p c =>
    match data7 p.trunc, chan4 c.trunc with
    | some p, some c => some (.program p c)
    | _, _ => none
  | .bend p c =>
    match pitch14 p.trunc, chan4 c.trunc with
    | some p, some c => some (.bend p c)
    | _, _ => none
  | .aftertouch v c =>
    match data7 v.trunc, chan4 c.trunc with
    | some v, some c => some (.aftertouch v c)
    | _, _ => none

/-- Wire bytes of a message: status nibble + channel (`0x90 + c` = `0x90 | c` for `c < 16`), 7-bit data
    bytes; the pitch wheel is sent as the 14-bit value `pitch + 8192`, least significant 7 bits first. -/
def encode : Msg → List Nat
  | .noteOn n v c => [144 + c, n, v]
  | .noteOff n v c => [128 + c, n, v]
  | .control k v c => [176 + c, k, v]
  | .program p c => [192 + c, p]
  | .bend p c => [224 + c, (p + 8192).toNat % 128, (p + 8192).toNat / 128]
  | .aftertouch v c => [208 + c, v]

/-- What a receiver reads off the wire (running status not used: every message carries its status byte). -/
def decode : List Nat → Option Msg
  | [s, a, b] =>
    if a < 128 ∧ b < 128 then
      match s / 16 with
      | 9 => some (.noteOn a b (s % 16))
      | 8 => some (.noteOff a b (s % 16))
      | 11 => some (.control a b (s % 16))
      | 14 => some (.bend ((a : Int) + (b : Int) * 128 - 8192) (s % 16))
      | _ => none
    else none
  | [s, a] =>
    if a < 128 then
      match s / 16 with
      | 12 => some (.program a (s % 16))
      | 13 => some (.aftertouch a (s % 16))
      | _ => none
    else none
  | _ => none

/-- `MidiOutputDevice.<method>(args)`: the bytes handed to the port, `none` = `ValueError` (nothing sent). -/
def portSend (r : Req) : Option (List Nat) := (resolve r).map encode

/-! ## 3. MIDI-file device (note-on / note-off only) -/

/-- A message of the file's track with its delta time in ticks. -/
structure FileMsg where
  delta : Nat
  msg : Msg
  deriving DecidableEq, Repr, Inhabited

/-- `MidiFileOutputDevice`: `now` = `self.time`, `last` = `self.last_event_time` (both in ticks; the code keeps
    them in beats as floats and rounds the difference back to ticks), `track` in append order. -/
structure FileDev where
  now : Nat := 0
  last : Nat := 0
  track : List FileMsg := []
  deriving Repr, Inhabited

inductive FileOp where
  | tick
  | noteOn (note vel ch : Num)
  | noteOff (note ch : Num)
  deriving DecidableEq, Repr, Inhabited

structure FileStep where
  dev : FileDev
  /-- `false` = the call raised (`ValueError` from mido); the device is unchanged. -/
  ok : Bool
  deriving Repr, Inhabited

def FileDev.append (d : FileDev) (r : Req) : FileStep :=
  match resolve r with
  | some m => { dev := { d with last := d.now, track := d.track ++ [{ delta := d.now - d.last, msg := m }] }, ok := true }
  | none => { dev := d, ok := false }

def FileDev.step (d : FileDev) : FileOp → FileStep
  | .tick => { dev := { d with now := d.now + 1 }, ok := true }
  | .noteOn n v c => d.append (.noteOn n v c)
  | .noteOff n c => d.append (.noteOff n c)

def FileDev.run (d : FileDev) : List FileOp → FileDev
  | [] => d
  | op :: ops => (d.step op).dev.run ops

/-- `write()`: the trailing dummy `note_off` (note 0, channel 0) that preserves a final rest; this is the
    message list that is saved (mido adds the end-of-track meta message). -/
def FileDev.written (d : FileDev) : List FileMsg :=
  d.track ++ [{ delta := d.now - d.last, msg := .noteOff 0 64 0 }]

/-! ## 4. OSC 1.0 datagrams (python-osc `OscMessageBuilder`) -/

/-- An OSC argument as passed by the caller.  `float` carries the IEEE-754 *double* bit pattern of the
    Python float; strings are their UTF-8 bytes. -/
inductive OArg where
  | int (i : Int)
  | float (bits64 : Nat)
  | str (bs : List Nat)
  | bool (b : Bool)
  deriving DecidableEq, Repr, Inhabited

/-- An argument as a receiver parses it. -/
inductive PArg where
  | i32 (i : Int)
  | i64 (i : Int)
  | f32 (bits : Nat)
  | str (bs : List Nat)
  | bool (b : Bool)
  deriving DecidableEq, Repr, Inhabited

/-- OSC-string: the bytes, then 1–4 NULs up to the next multiple of four. -/
def oscString (bs : List Nat) : List Nat := bs ++ List.replicate (4 - bs.length % 4) 0

def be32 (n : Nat) : List Nat := [n / 16777216 % 256, n / 65536 % 256, n / 256 % 256, n % 256]
def be64 (n : Nat) : List Nat := be32 (n / 4294967296) ++ be32 (n % 4294967296)

/-- python-osc: `int.bit_length() ≤ 31` → type tag `i`. -/
def fitsI32 (i : Int) : Bool := decide (-2147483648 < i ∧ i < 2147483648)
/-- otherwise `h`, which `struct.pack('>q')` accepts in the int64 range. -/
def fitsI64 (i : Int) : Bool := decide (-9223372036854775808 ≤ i ∧ i < 9223372036854775808)

/-- Type tag character: `i`=105 `h`=104 `f`=102 `s`=115 `T`=84 `F`=70. -/
def argTag : OArg → Nat
  | .int i => if fitsI32 i then 105 else 104
  | .float _ => 102
  | .str _ => 115
  | .bool true => 84
  | .bool false => 70

/-- Argument payload; `f32` maps a double's bit pattern to the bit pattern of its float32 rounding
    (opaque to the theorems, instantiated with Lean's `Float32` in the driver).  `none` = `BuildError`. -/
def argData (f32 : Nat → Nat) : OArg → Option (List Nat)
  | .int i =>
    if fitsI32 i then some (be32 (i % 4294967296).toNat)
    else if fitsI64 i then some (be64 (i % 18446744073709551616).toNat)
    else none
  | .float d => some (be32 (f32 d))
  | .str s => some (oscString s)
  | .bool _ => some []

def encArgs (f32 : Nat → Nat) : List OArg → Option (List Nat)
  | [] => some []
  | a :: as =>
    match argData f32 a, encArgs f32 as with
    | some d, some ds => some (d ++ ds)
    | _, _ => none

/-- `OscMessageBuilder(address).add_arg(…)….build().dgram`; `none` = `BuildError` (empty address, int out of
    the int64 range). -/
def encodeOSC (f32 : Nat → Nat) (addr : List Nat) (args : List OArg) : Option (List Nat) :=
  if addr = [] then none
  else
    match encArgs f32 args with
    | some ds => some (oscString addr ++ oscString (44 :: args.map argTag) ++ ds)
    | none => none

/-- A value cut from the front of a datagram, and what is left. -/
structure Cut (α : Type) where
  val : α
  rest : List Nat
  deriving Repr

def readString (bs : List Nat) : Option (Cut (List Nat)) :=
  let s := bs.takeWhile (fun b => b ≠ 0)
  let n := (s.length / 4 + 1) * 4
  if n ≤ bs.length then some { val := s, rest := bs.drop n } else none

def readBE32 : List Nat → Option (Cut Nat)
  | a :: b :: c :: d :: rest => some { val := ((a * 256 + b) * 256 + c) * 256 + d, rest := rest }
  | _ => none

def readBE64 (bs : List Nat) : Option (Cut Nat) :=
  match readBE32 bs with
  | some hi =>
    match readBE32 hi.rest with
    | some lo => some { val := hi.val * 4294967296 + lo.val, rest := lo.rest }
    | none => none
  | none => none

/-- two's complement value of an unsigned `n < m`. -/
def signed (m : Nat) (n : Nat) : Int := if 2 * n ≥ m then (n : Int) - (m : Int) else (n : Int)

def parseArgs : List Nat → List Nat → Option (List PArg)
  | [], [] => some []
  | [], _ :: _ => none
  | t :: ts, data =>
    if t = 105 then
      match readBE32 data with
      | some c => (parseArgs ts c.rest).map (fun r => .i32 (signed 4294967296 c.val) :: r)
      | none => none
    else if t = 104 then
      match readBE64 data with
      | some c => (parseArgs ts c.rest).map (fun r => .i64 (signed 18446744073709551616 c.val) :: r)
      | none => none
    else if t = 102 then
      match readBE32 data with
      | some c => (parseArgs ts c.rest).map (fun r => .f32 c.val :: r)
      | none => none
    else if t = 115 then
      match readString data with
      | some c => (parseArgs ts c.rest).map (fun r => .str c.val :: r)
      | none => none
    else if t = 84 then (parseArgs ts data).map (fun r => .bool true :: r)
    else if t = 70 then (parseArgs ts data).map (fun r => .bool false :: r)
    else none

structure OscMsg where
  addr : List Nat
  args : List PArg
  deriving DecidableEq, Repr

/-- An OSC 1.0 receiver: address string, type-tag string (must start with `,`), then the arguments. -/
def parseOSC (dgram : List Nat) : Option OscMsg :=
  match readString dgram with
  | some a =>
    match readString a.rest with
    | some t =>
      match t.val with
      | 44 :: tags => (parseArgs tags t.rest).map (fun r => { addr := a.val, args := r })
      | _ => none
    | none => none
  | none => none

/-- What a faithful receiver must see for an argument. -/
def OArg.parsed (f32 : Nat → Nat) : OArg → PArg
  | .int i => if fitsI32 i then .i32 i else .i64 i
  | .float d => .f32 (f32 d)
  | .str s => .str s
  | .bool b => .bool b

/-- Address + argument list handed to `SimpleUDPClient.send_message`. -/
structure OscReq where
  addr : List Nat
  args : List OArg
  deriving DecidableEq, Repr

/-- "/note" -/
def addrNote : List Nat := [47, 110, 111, 116, 101]
/-- "/control" -/
def addrControl : List Nat := [47, 99, 111, 110, 116, 114, 111, 108]

/-- `OSCOutputDevice.note_on(note, velocity, channel)` → `/note [note, velocity, channel]`. -/
def oscNoteOn (note vel ch : OArg) : OscReq := { addr := addrNote, args := [note, vel, ch] }
/-- `OSCOutputDevice.note_off(note, channel)` → `/note [note, 0, channel]`. -/
def oscNoteOff (note ch : OArg) : OscReq := { addr := addrNote, args := [note, .int 0, ch] }
/-- `OSCOutputDevice.control(control, value, channel)` → `/control [control, value, channel]`. -/
def oscControl (cc val ch : OArg) : OscReq := { addr := addrControl, args := [cc, val, ch] }
/-- `OSCOutputDevice.send(address, params)`; `params=None` sends no arguments. -/
def oscSend (addr : List Nat) (params : Option (List OArg)) : OscReq := { addr := addr, args := params.getD [] }

def OscReq.dgram (f32 : Nat → Nat) (r : OscReq) : Option (List Nat) := encodeOSC f32 r.addr r.args

/-! ## 5. MPE channel allocator -/

def upd {α : Type} (f : Nat → α) (k : Nat) (v : α) : Nat → α := fun x => if x = k then v else f x

/-- `note_assignments[n]`: `absent` = no such key (n ≥ 128 initially: `KeyError`), `never` = the initial
    placeholder (the class object `MPENote`: `AttributeError` on note_off), `released` = `None`,
    `held id` = the `MPENote` object number `id`. -/
inductive Slot where
  | absent
  | never
  | released
  | held (id : Nat)
  deriving DecidableEq, Repr, Inhabited

def Slot.isHeld : Slot → Bool
  | .held _ => true
  | _ => false

/-- `MPEOutputDevice` state.  `MPENote` objects are numbered in creation order; `objNote`/`objCh` are their
    immutable `note`/`channel`, `down` their `is_down` flag. -/
structure MPE where
  notes : Nat → Slot
  chans : Nat → Option Nat
  objNote : Nat → Nat
  objCh : Nat → Nat
  down : Nat → Bool
  nextId : Nat

/-- `self.channels = list(range(1, 16))` — channel 0 is the MPE master channel and is never allocated. -/
def mpeChannels : List Nat := [1, 2, 3, 4, 5, 6, 7, 8, 9, 10, 11, 12, 13, 14, 15]

def MPE.init : MPE :=
  { notes := fun n => if n < 128 then .never else .absent
    chans := fun _ => none
    objNote := fun _ => 0
    objCh := fun _ => 0
    down := fun _ => false
    nextId := 0 }

/-- `_get_next_channel`: the lowest-numbered channel with no note assigned. -/
def MPE.nextChannel (s : MPE) : Option Nat := mpeChannels.find? (fun c => (s.chans c).isNone)

inductive MpeOp where
  /-- `device.note_on(note_index, velocity)` -/
  | on (note vel : Nat)
  /-- `device.note_off(note_index)` -/
  | off (note : Nat)
  /-- `mpe_note.note_off()` on the object number `id` -/
  | objOff (id : Nat)
  /-- `mpe_note.pitch_bend(pitch)` -/
  | objBend (id : Nat) (pitch : Int)
  /-- `mpe_note.control(control, value)` -/
  | objControl (id : Nat) (cc val : Nat)
  /-- `mpe_note.aftertouch(value)` -/
  | objAftertouch (id : Nat) (val : Nat)
  deriving DecidableEq, Repr, Inhabited

inductive MpeRes where
  /-- note_on returned an `MPENote` on this channel -/
  | note (id ch : Nat)
  /-- note_on returned `None`: all 15 channels are in use -/
  | noChannel
  /-- note released, channel freed -/
  | released (ch : Nat)
  /-- expression message sent -/
  | sent
  /-- `MPENote` method on a released note: nothing happens -/
  | ignored
  | valueError
  | attributeError
  | keyError
  deriving DecidableEq, Repr, Inhabited

structure MpeStep where
  st : MPE
  res : MpeRes
  wire : List Msg

/-- The table writes of `note_on`: a new `MPENote` (number `s.nextId`) for note `n` on channel `c`. -/
def MPE.alloc (s : MPE) (n c : Nat) : MPE :=
  { notes := upd s.notes n (.held s.nextId)
    chans := upd s.chans c (some s.nextId)
    objNote := upd s.objNote s.nextId n
    objCh := upd s.objCh s.nextId c
    down := upd s.down s.nextId true
    nextId := s.nextId + 1 }

/-- The table writes of `note_off` (after fix 02: the channel that is cleared is the note's own channel,
    `channel_assignments[note.channel] = None`). -/
def MPE.release (s : MPE) (n id : Nat) : MPE :=
  { s with notes := upd s.notes n .released, chans := upd s.chans (s.objCh id) none, down := upd s.down id false }

def MPE.noteOn (s : MPE) (n v : Nat) : MpeStep :=
  match s.nextChannel with
  | none => { st := s, res := .noChannel, wire := [] }
  | some c =>
    -- the tables are written before `super().note_on` builds the message, so they stay written when it raises
    match resolve (.noteOn (.int n) (.int v) (.int c)) with
    | some m => { st := s.alloc n c, res := .note s.nextId c, wire := [m] }
    | none => { st := s.alloc n c, res := .valueError, wire := [] }

def MPE.noteOff (s : MPE) (n : Nat) : MpeStep :=
  match s.notes n with
  | .absent => { st := s, res := .keyError, wire := [] }
  | .never => { st := s, res := .attributeError, wire := [] }
  | .released => { st := s, res := .valueError, wire := [] }
  | .held id =>
    -- `super().note_off` comes first: when mido refuses the message nothing is released
    match resolve (.noteOff (.int n) (.int (s.objCh id))) with
    | none => { st := s, res := .valueError, wire := [] }
    | some m => { st := s.release n id, res := .released (s.objCh id), wire := [m] }

/-- An `MPENote` expression method: sent on the note's own channel while the note is down. -/
def MPE.objSend (s : MPE) (id : Nat) (r : Req) : MpeStep :=
  if s.down id then
    match resolve r with
    | some m => { st := s, res := .sent, wire := [m] }
    | none => { st := s, res := .valueError, wire := [] }
  else { st := s, res := .ignored, wire := [] }

def MPE.step (s : MPE) : MpeOp → MpeStep
  | .on n v => s.noteOn n v
  | .off n => s.noteOff n
  | .objOff id => if s.down id then s.noteOff (s.objNote id) else { st := s, res := .ignored, wire := [] }
  | .objBend id p => s.objSend id (.bend (.int p) (.int (s.objCh id)))
  | .objControl id k v => s.objSend id (.control (.int k) (.int v) (.int (s.objCh id)))
  | .objAftertouch id v => s.objSend id (.aftertouch (.int v) (.int (s.objCh id)))

/-- State after a history of calls. -/
def MPE.run (s : MPE) : List MpeOp → MPE
  | [] => s
  | op :: ops => (s.step op).st.run ops

/-- Everything the history put on the wire, in order. -/
def MPE.wire (s : MPE) : List MpeOp → List Msg
  | [] => []
  | op :: ops => (s.step op).wire ++ (s.step op).st.wire ops

/-- The results of the calls of a history, in order. -/
def MPE.results (s : MPE) : List MpeOp → List MpeRes
  | [] => []
  | op :: ops => (s.step op).res :: (s.step op).st.results ops

/-- Receiver's view: the note sounding on channel `c` after the messages `w` (last note-on on `c` not yet
    followed by a note-off on `c`). -/
def soundStep (c : Nat) (cur : Option Nat) : Msg → Option Nat
  | .noteOn n _ ch => if ch = c then some n else cur
  | .noteOff _ _ ch => if ch = c then none else cur
  | _ => cur

def soundingFrom (c : Nat) (cur : Option Nat) (w : List Msg) : Option Nat := w.foldl (soundStep c) cur

def soundingOn (c : Nat) (w : List Msg) : Option Nat := soundingFrom c none w

/-- Number of MPE member channels on which the receiver hears a note after `w`. -/
def soundingCount (w : List Msg) : Nat := (mpeChannels.filter (fun c => (soundingOn c w).isSome)).length

/-- Number of channels the allocator considers in use. -/
def MPE.occupied (s : MPE) : Nat := (mpeChannels.filter (fun c => (s.chans c).isSome)).length

end IsobarV.IO
