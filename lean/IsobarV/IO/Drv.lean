/-
Line-protocol driver for the output-device model (suite `io`).  Glue only; one output line per input line.

numbers  : i<int>            a Python int            e.g. i60, i-3
           f<num>/<den>      a Python float = num/den e.g. f121/2
osc args : i<int> | d<u64: IEEE double bit pattern> | s<hex of utf-8 bytes> | T | F
input                                         output
  midi on n v c | off n c | cc k v c | pc p c | pb p c | at v c       B <byte>* | ValueError
  dec <byte>*                                                         on n v c | off n v c | cc k v c | pc p c | pb p c | at v c | none
  oscsend <addrhex|-> none | oscsend <addrhex|-> <arg>*               D <hex> | BuildError
  oscnote a b c | oscoff a c | osccc a b c                            D <hex> | BuildError
  oscparse <hex>                                                      P <addrhex|-> <parg>* | none      parg: i<int> h<int> f<u32 bits> s<hex> T F
  mpe reset                                                           ok
  mpe on n v | off n | ooff id | obend id p | occ id k v | oat id v   <res>|<wire bytes, messages separated by ,>|<ch:note ...>|<note@ch ...>
  file reset | file tick k                                            ok
  file on n v c | file off n c                                        ok | ValueError
  file write                                                          W <delta>:<b>.<b>.<b>,...
-/
import IsobarV.IO.Model
import IsobarV.Util.Parse

namespace IsobarV.IO.Drv
open IsobarV.IO IsobarV.Util

def hexVal (c : Char) : Nat :=
  if '0' ≤ c ∧ c ≤ '9' then c.toNat - '0'.toNat
  else if 'a' ≤ c ∧ c ≤ 'f' then c.toNat - 'a'.toNat + 10
  else if 'A' ≤ c ∧ c ≤ 'F' then c.toNat - 'A'.toNat + 10
  else 0

def unhexChars : List Char → List Nat
  | a :: b :: rest => (hexVal a * 16 + hexVal b) :: unhexChars rest
  | _ => []

def unhex (s : String) : List Nat := if s == "-" then [] else unhexChars s.toList

def hexDigit (n : Nat) : Char := if n < 10 then Char.ofNat (48 + n) else Char.ofNat (87 + n)

def hex (bs : List Nat) : String :=
  String.ofList (bs.flatMap (fun b => [hexDigit (b / 16 % 16), hexDigit (b % 16)]))

def hexOrDash (bs : List Nat) : String := if bs.isEmpty then "-" else hex bs

def parseNum (w : String) : Num :=
  if w.startsWith "i" then .int (toInt! (w.drop 1).toString)
  else if w.startsWith "f" then
    match ((w.drop 1).toString).splitOn "/" with
    | [n, d] => .flt (toInt! n) (toNat! d)
    | _ => .int 0
  else .int 0

def parseOArg (w : String) : OArg :=
  if w == "T" then .bool true
  else if w == "F" then .bool false
  else if w.startsWith "i" then .int (toInt! (w.drop 1).toString)
  else if w.startsWith "d" then .float (toNat! (w.drop 1).toString)
  else if w.startsWith "s" then .str (unhexChars (w.drop 1).toString.toList)
  else .int 0

/-- double bit pattern ↦ bit pattern of its float32 rounding (C cast, round-to-nearest-even). -/
def f32bits (d : Nat) : Nat := (Float.ofBits d.toUInt64).toFloat32.toBits.toNat

def showBytes (bs : List Nat) : String := joinWith " " (bs.map toString)

def showMsg : Msg → String
  | .noteOn n v c => s!"on {n} {v} {c}"
  | .noteOff n v c => s!"off {n} {v} {c}"
  | .control k v c => s!"cc {k} {v} {c}"
  | .program p c => s!"pc {p} {c}"
  | .bend p c => s!"pb {p} {c}"
  | .aftertouch v c => s!"at {v} {c}"

def parseReq : List String → Option Req
  | ["on", n, v, c] => some (.noteOn (parseNum n) (parseNum v) (parseNum c))
  | ["off", n, c] => some (.noteOff (parseNum n) (parseNum c))
  | ["cc", k, v, c] => some (.control (parseNum k) (parseNum v) (parseNum c))
  | ["pc", p, c] => some (.program (parseNum p) (parseNum c))
  | ["pb", p, c] => some (.bend (parseNum p) (parseNum c))
  | ["at", v, c] => some (.aftertouch (parseNum v) (parseNum c))
  | _ => none

def showPArg : PArg → String
  | .i32 i => s!"i{i}"
  | .i64 i => s!"h{i}"
  | .f32 b => s!"f{b}"
  | .str s => s!"s{hex s}"
  | .bool true => "T"
  | .bool false => "F"

def showDgram : Option (List Nat) → String
  | some bs => s!"D {hex bs}"
  | none => "BuildError"

def showMpeRes : MpeRes → String
  | .note id ch => s!"note {id} {ch}"
  | .noChannel => "None"
  | .released ch => s!"released {ch}"
  | .sent => "sent"
  | .ignored => "ignored"
  | .valueError => "ValueError"
  | .attributeError => "AttributeError"
  | .keyError => "KeyError"

def showMpeState (s : MPE) : String :=
  let chans := mpeChannels.filterMap (fun c => (s.chans c).map (fun id => s!"{c}:{s.objNote id}"))
  let notes := (List.range 200).filterMap (fun n =>
    match s.notes n with
    | .held id => some s!"{n}@{s.objCh id}"
    | _ => none)
  joinWith " " chans ++ "|" ++ joinWith " " notes

def showMpeStep (r : MpeStep) : String :=
  showMpeRes r.res ++ "|" ++ joinWith "," (r.wire.map (fun m => showBytes (encode m))) ++ "|" ++ showMpeState r.st

def parseMpeOp : List String → Option MpeOp
  | ["on", n, v] => some (.on (toNat! n) (toNat! v))
  | ["off", n] => some (.off (toNat! n))
  | ["ooff", id] => some (.objOff (toNat! id))
  | ["obend", id, p] => some (.objBend (toNat! id) (toInt! p))
  | ["occ", id, k, v] => some (.objControl (toNat! id) (toNat! k) (toNat! v))
  | ["oat", id, v] => some (.objAftertouch (toNat! id) (toNat! v))
  | _ => none

/-- Re-tabulate the state's functions (glue: keeps look-ups O(1) in long histories).  Extensionally the identity
    for notes < 200, channels < 16 and note objects < nextId, which is all the protocol can address. -/
def compact (s : MPE) : MPE :=
  let notes := ((List.range 200).map s.notes).toArray
  let chans := ((List.range 16).map s.chans).toArray
  let k := s.nextId
  let objN := ((List.range k).map s.objNote).toArray
  let objC := ((List.range k).map s.objCh).toArray
  let dn := ((List.range k).map s.down).toArray
  { notes := fun n => notes.getD n .absent
    chans := fun c => chans.getD c none
    objNote := fun i => objN.getD i 0
    objCh := fun i => objC.getD i 0
    down := fun i => dn.getD i false
    nextId := k }

def showFileMsg (m : FileMsg) : String :=
  s!"{m.delta}:" ++ joinWith "." ((encode m.msg).map toString)

structure St where
  mpe : MPE := MPE.init
  file : FileDev := {}

def handle (s : St) (line : String) : IO St := do
  match words line with
  | "midi" :: rest =>
    match parseReq rest with
    | some r =>
      match portSend r with
      | some bs => IO.println s!"B {showBytes bs}"
      | none => IO.println "ValueError"
    | none => IO.println s!"bad-line {line}"
    return s
  | "dec" :: bs =>
    match decode (bs.map toNat!) with
    | some m => IO.println (showMsg m)
    | none => IO.println "none"
    return s
  | ["oscsend", addr, "none"] =>
    IO.println (showDgram ((oscSend (unhex addr) none).dgram f32bits)); return s
  | "oscsend" :: addr :: args =>
    IO.println (showDgram ((oscSend (unhex addr) (some (args.map parseOArg))).dgram f32bits)); return s
  | ["oscnote", a, b, c] =>
    IO.println (showDgram ((oscNoteOn (parseOArg a) (parseOArg b) (parseOArg c)).dgram f32bits)); return s
  | ["oscoff", a, c] =>
    IO.println (showDgram ((oscNoteOff (parseOArg a) (parseOArg c)).dgram f32bits)); return s
  | ["osccc", a, b, c] =>
    IO.println (showDgram ((oscControl (parseOArg a) (parseOArg b) (parseOArg c)).dgram f32bits)); return s
  | ["oscparse", h] =>
    match parseOSC (unhex h) with
    | some m => IO.println (joinWith " " ("P" :: hexOrDash m.addr :: m.args.map showPArg))
    | none => IO.println "none"
    return s
  | ["mpe", "reset"] => IO.println "ok"; return { s with mpe := compact MPE.init }
  | "mpe" :: rest =>
    match parseMpeOp rest with
    | some op =>
      let r := s.mpe.step op
      IO.println (showMpeStep r)
      return { s with mpe := compact r.st }
    | none => IO.println s!"bad-line {line}"; return s
  | ["file", "reset"] => IO.println "ok"; return { s with file := {} }
  | ["file", "tick", k] =>
    IO.println "ok"
    return { s with file := s.file.run (List.replicate (toNat! k) .tick) }
  | ["file", "on", n, v, c] =>
    let r := s.file.step (.noteOn (parseNum n) (parseNum v) (parseNum c))
    IO.println (if r.ok then "ok" else "ValueError")
    return { s with file := r.dev }
  | ["file", "off", n, c] =>
    let r := s.file.step (.noteOff (parseNum n) (parseNum c))
    IO.println (if r.ok then "ok" else "ValueError")
    return { s with file := r.dev }
  | ["file", "write"] =>
    IO.println ("W " ++ joinWith "," (s.file.written.map showFileMsg)); return s
  | [] => IO.println ""; return s
  | _ => IO.println s!"bad-line {line}"; return s

def main : IO Unit := do
  let stdin ← IO.getStdin
  let _ ← foldLines stdin ({} : St) handle
  return ()

end IsobarV.IO.Drv
