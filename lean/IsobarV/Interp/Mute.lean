/-
C06 / C15 — a muted interpolating track is silent, not paused.

`Track.mute()` only sets `is_muted`; the flag is read in `Track.perform_event` (`if self.is_muted: return`), i.e.
AFTER the interpolating branch of `Track.tick` has advanced its patterns.  In the model of that branch
(`Interp/Model.lean`) a tick of a muted track is therefore the same state transition, and only what the
output device receives differs (`hear`).  `runMuted` is the executable form (one mute flag per tick: `mute()` /
`unmute()` are called between ticks); the theorems say that for EVERY pattern of mute flags the device
hears exactly the never-muted run masked by the flags: nothing on a muted tick, and on every other tick —
before, between and after muted stretches — the message the never-muted track sends on that very tick, so
every control point is still hit on its own tick and the last message is the last control point.
-/
import IsobarV.Interp.Model

namespace IsobarV.Interp

/-- what the output device gets from one tick -/
inductive Heard
  | msg (m : Msg)            -- one `control()` call
  | silent                   -- the event was computed but `perform_event` returned at `is_muted`
  | ended (o : Outcome)      -- the tick finished the track or raised: no call, nothing follows
  deriving DecidableEq, Repr, Inhabited

/-- `perform_event` with `is_muted = m` applied to the outcome of the tick -/
def hear (m : Bool) : Outcome → Heard
  | .msg x => if m then .silent else .msg x
  | o => .ended o

/-- consecutive ticks, `ms[k]` = the track's `is_muted` during tick `k` -/
def runMuted (f : Rat → Rat) : List Bool → Track → List Heard
  | [], _ => []
  | m :: ms, t =>
    let r := tick f t
    hear m r.out :: (if r.out.isMsg then runMuted f ms r.track else [])

/-- **Muting masks, it does not pause**: whatever the pattern of mute flags, the device hears the never-muted run
    of the same track, tick for tick, with the muted ticks blanked. -/
theorem runMuted_eq_masked (f : Rat → Rat) (ms : List Bool) :
    ∀ t : Track, runMuted f ms t = List.zipWith hear ms (run f ms.length t) := by
  induction ms with
  | nil => intro t; rfl
  | cons m ms ih =>
    intro t
    simp only [runMuted, List.length_cons, run, List.zipWith_cons_cons]
    split
    · rw [ih]
    · simp

theorem length_runMuted (f : Rat → Rat) (ms : List Bool) (t : Track) :
    (runMuted f ms t).length = (run f ms.length t).length := by
  rw [runMuted_eq_masked]
  have : (run f ms.length t).length ≤ ms.length := by
    generalize ms.length = n
    induction n generalizing t with
    | zero => simp [run]
    | succ n ih =>
      simp only [run]
      split
      · simp only [List.length_cons]; have := ih (tick f t).track; omega
      · simp
  simp only [List.length_zipWith]
  omega

/-- **A muted track emits nothing**: on a tick whose flag is set the device gets no call … -/
theorem muted_tick_is_silent (f : Rat → Rat) (ms : List Bool) (t : Track) (k : Nat) (hm : ms[k]? = some true)
    (h : Heard) (hk : (runMuted f ms t)[k]? = some h) : ∀ x, h ≠ .msg x := by
  rw [runMuted_eq_masked, List.getElem?_zipWith] at hk
  rw [hm] at hk
  cases ho : (run f ms.length t)[k]? with
  | none => simp [ho] at hk
  | some o =>
    simp [ho] at hk
    subst hk
    intro x
    cases o <;> simp [hear]

/-- … **and an unmuted tick carries the curve's value for that tick**: what the never-muted track sends on
    tick `k` is what the device hears on tick `k`, however long the track was muted before. -/
theorem unmuted_tick_hears_the_curve (f : Rat → Rat) (ms : List Bool) (t : Track) (k : Nat) (hm : ms[k]? = some false)
    (o : Outcome) (ho : (run f ms.length t)[k]? = some o) :
    (runMuted f ms t)[k]? = some (hear false o) := by
  rw [runMuted_eq_masked, List.getElem?_zipWith, hm, ho]

/-- (`hear false` changes nothing: a message is heard as that message) -/
theorem hear_false_msg (x : Msg) : hear false (.msg x) = .msg x := rfl

/-- never muted = the plain run -/
theorem runMuted_never (f : Rat → Rat) (n : Nat) (t : Track) :
    runMuted f (List.replicate n false) t = (run f n t).map (hear false) := by
  rw [runMuted_eq_masked]
  simp only [List.length_replicate]
  have hl : (run f n t).length ≤ n := by
    induction n generalizing t with
    | zero => simp [run]
    | succ n ih =>
      simp only [run]
      split
      · simp only [List.length_cons]; have := ih (tick f t).track; omega
      · simp
  generalize run f n t = os at hl
  induction n generalizing os with
  | zero => cases os with
    | nil => rfl
    | cons a b => simp at hl
  | succ n ih =>
    cases os with
    | nil => simp
    | cons a b =>
      simp only [List.replicate_succ, List.zipWith_cons_cons, List.map_cons]
      rw [ih b (by simpa using hl)]

/-- a curve 0 → 8 → 4 of 4 + 2 ticks, muted on ticks 1..3: ticks 0, 4, 5, 6 are heard with the values of those ticks
    (the control point 8 on its own tick 4, the last point 4 on tick 6), ticks 1, 2, 3 are silent. -/
example :
    runMuted linear [false, true, true, true, false, false, false, false]
      (Track.fresh [⟨.control, 4, 0, .num 7, .num 0⟩, ⟨.control, 2, 8, .num 7, .num 0⟩, ⟨.control, 1, 4, .num 7, .num 0⟩] 0) =
    [.msg ⟨.num 7, 0, .num 0⟩, .silent, .silent, .silent, .msg ⟨.num 7, 8, .num 0⟩, .msg ⟨.num 7, 6, .num 0⟩,
     .msg ⟨.num 7, 4, .num 0⟩, .ended .finished] := by decide +kernel

end IsobarV.Interp
