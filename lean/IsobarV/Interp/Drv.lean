/-
Line-protocol driver for the interpolated-control-track model (suite `interp`).  Glue only.

input (numbers are integers or `n/d` rationals; a field is `n:<number>` or `s:<token>`):
  case <id>
  mode linear|cosine|none
  pt <c|o> <dur-ticks> <value> <control-field> <channel-field>     one event of the stream (c = control event)
  run <n0> <count> <nticks>          schedule(count=count or None) starting in tick n0, then nticks ticks
  runmuted <n0> <count> <nticks> <m0> <m1>   the same, the track muted during its ticks m0 ≤ k < m1 (k counted from
                                     its first tick): what the device hears (`Interp/Mute.lean`, `runMuted`)
  pinterp <steps> <n> <v1> <v2> …    PInterpolate(PSequence([v…], 1), steps, mode): the first n values
  end
output:
  case <id>
  for `run`: one line per outcome  <tick>|m|<control>|<value>|<channel>  /  <tick>|finished  /  <tick>|rejected  /
             <tick>|typeError, then `done`
  for `pinterp`: p|<v> <v> …[ stop]        (`stop` when the pattern ended before n values; `p|ctor-stop` for an empty list)
  end
The cosine ease is instantiated with the C library's `cos` (to 2⁻⁵² absolute) only to produce numbers
comparable with the implementation's floats; no theorem refers to it.
-/
import IsobarV.Interp.Model
import IsobarV.Interp.Mute
import IsobarV.Util.Parse

namespace IsobarV.Interp.Drv
open IsobarV.Interp IsobarV.Util

def parseRat (s : String) : Rat :=
  match s.splitOn "/" with
  | [n] => ((toInt! n : Int) : Rat)
  | [n, d] => mkRat (toInt! n) (toNat! d)
  | _ => 0

def showRat (r : Rat) : String := if r.den = 1 then s!"{r.num}" else s!"{r.num}/{r.den}"

def ratToFloat (r : Rat) : Float := Float.ofInt r.num / Float.ofNat r.den

/-- a float in [0, 1] as a rational, to 2⁻⁵² absolute -/
def unitFloatToRat (y : Float) : Rat :=
  mkRat (y * 4503599627370496.0).round.toUInt64.toNat 4503599627370496

/-- `0.5 * (1.0 - math.cos(math.pi * x))` -/
def cosine (x : Rat) : Rat :=
  unitFloatToRat (0.5 * (1.0 - Float.cos (3.141592653589793 * ratToFloat x)))

def parseFld (s : String) : Fld :=
  if s.startsWith "n:" then .num (parseRat (s.drop 2).toString) else .opq ((s.drop 2).toString)

def showFld : Fld → String
  | .num r => s!"n:{showRat r}"
  | .opq s => s!"s:{s}"

structure St where
  f : Rat → Rat := linear
  pts : Array Pt := #[]

instance : Inhabited St := ⟨{}⟩

def showOutcome (k : Nat) : Outcome → String
  | .msg m => s!"{k}|m|{showFld m.control}|{showRat m.value}|{showFld m.channel}"
  | .finished => s!"{k}|finished"
  | .rejected => s!"{k}|rejected"
  | .typeError => s!"{k}|typeError"

def printRun (n0 : Nat) (os : List Outcome) : IO Unit := do
  let mut k := n0
  for o in os do
    IO.println (showOutcome k o)
    k := k + 1
  IO.println "done"

def printHeard (n0 : Nat) (hs : List Heard) : IO Unit := do
  let mut k := n0
  for h in hs do
    match h with
    | .msg m => IO.println (showOutcome k (.msg m))
    | .silent => pure ()
    | .ended o => IO.println (showOutcome k o)
    k := k + 1
  IO.println "done"

def handle (s : St) (line : String) : IO St := do
  match words line with
  | ["case", id] => IO.println s!"case {id}"; return {}
  | ["mode", m] =>
    return { s with f := if m == "cosine" then cosine else if m == "none" then hold else linear }
  | ["pt", k, d, v, c, h] =>
    let p : Pt := { kind := if k == "c" then .control else .other, dur := toNat! d, value := parseRat v,
                    control := parseFld c, channel := parseFld h }
    return { s with pts := s.pts.push p }
  | ["run", n0, count, n] =>
    printRun (toNat! n0) (trace s.f s.pts.toList (toNat! count) (toNat! n))
    return s
  | ["runmuted", n0, count, n, m0, m1] =>
    let flags := (List.range (toNat! n)).map fun k => decide (toNat! m0 ≤ k ∧ k < toNat! m1)
    printHeard (toNat! n0) (runMuted s.f flags (Track.fresh s.pts.toList (toNat! count)))
    return s
  | "pinterp" :: steps :: n :: vs =>
    match PI.init (vs.map parseRat) (toNat! steps) with
    | none => IO.println "p|ctor-stop"
    | some p =>
      let out := PI.take s.f (toNat! n) p
      let tail := if out.length < toNat! n then " stop" else ""
      IO.println s!"p|{joinWith " " (out.map showRat)}{tail}"
    return s
  | ["end"] => IO.println "end"; return s
  | [] => return s
  | _ => IO.println s!"bad-line {line}"; return s

def main : IO Unit := do
  let stdin ← IO.getStdin
  let _ ← foldLines stdin ({} : St) handle
  return ()

end IsobarV.Interp.Drv
