/-
Interpolated control tracks: the reference trace (a closed form over the list of control points) and the
proof that the state machine of `IsobarV/Interp/Model.lean` produces exactly it, for every list of
points, every `count`, every run length and every easing `f`.  Helper lemmas for `IsobarV/Props/C15.lean`.
-/
import IsobarV.Interp.Model
import Mathlib.Tactic.Linarith
import Mathlib.Tactic.Positivity
import Mathlib.Tactic.Ring
import Mathlib.Algebra.Order.Field.Basic

namespace IsobarV.Interp

/-! ### spec-level definitions -/

/-- a field `j` ticks into a segment of `D` ticks from `x` to `y` -/
def fldAt (f : Rat → Rat) (x y : Fld) (D j : Nat) : Fld :=
  match x, y with
  | .opq s, _ => .opq s
  | .num a, .num b => .num (a + (b - a) * f (ratio j D))
  | .num a, .opq _ => .num a

/-- the message `j` ticks into the segment from `a` to `b` -/
def msgAt (f : Rat → Rat) (a b : Pt) (j : Nat) : Msg :=
  { control := fldAt f a.control b.control a.dur j,
    value := a.value + (b.value - a.value) * f (ratio j a.dur),
    channel := fldAt f a.channel b.channel a.dur j }

/-- the message of the very first tick: the first control point as it is -/
def firstMsg (a : Pt) : Msg := { control := a.control, value := a.value, channel := a.channel }

/-- a numeric field may not be followed by a non-numeric one (`target - self.value` would raise) -/
def fcompat : Fld → Fld → Bool
  | .num _, .opq _ => false
  | _, _ => true

def compat (a b : Pt) : Bool := fcompat a.control b.control && fcompat a.channel b.channel

/-- both ends of a segment are control events -/
def kindsOK (a b : Pt) : Bool := a.kind == .control && b.kind == .control

/-- the messages of ticks `1 … a.dur` of the segment from `a` to `b` -/
def segMsgs (f : Rat → Rat) (a b : Pt) : List Outcome :=
  (List.range' 1 a.dur).map fun j => Outcome.msg (msgAt f a b j)

/-- what follows the tick in which the head of the list was reached -/
def refFrom (f : Rat → Rat) : List Pt → List Outcome
  | [] => [.finished]
  | a :: tl =>
    match tl with
    | [] => [.finished]
    | b :: _ =>
      if a.dur = 0 then refFrom f tl
      else if !kindsOK a b then [.rejected]
      else if !compat a b then [.typeError]
      else segMsgs f a b ++ refFrom f tl

/-- leading points of zero ticks are dropped -/
def dropZero : List Pt → List Pt
  | [] => []
  | a :: tl => if a.dur = 0 then dropZero tl else a :: tl

/-- the reference trace of a track over the points `pts` (entry `k` = tick `n₀ + k`) -/
def ref (f : Rat → Rat) (pts : List Pt) : List Outcome :=
  match dropZero pts with
  | a :: b :: rest => if !kindsOK a b then [.rejected] else .msg (firstMsg a) :: refFrom f (a :: b :: rest)
  | _ => [.finished]

/-- `count`: the events `get_next_event` will deliver -/
def eff (count : Nat) (pts : List Pt) : List Pt := if count = 0 then pts else pts.take count

/-! ### dropZero / refFrom -/

theorem dropZero_head {L : List Pt} {c : Pt} {tl : List Pt} (h : dropZero L = c :: tl) : c.dur ≠ 0 := by
  induction L with
  | nil => simp [dropZero] at h
  | cons a r ih =>
    simp only [dropZero] at h
    split at h
    · exact ih h
    · rename_i hne
      cases h
      exact hne

theorem dropZero_length (L : List Pt) : (dropZero L).length ≤ L.length := by
  induction L with
  | nil => simp [dropZero]
  | cons a r ih =>
    simp only [dropZero]
    split
    · simp; omega
    · simp

theorem refFrom_short (f : Rat → Rat) {L : List Pt} (h : L.length < 2) : refFrom f L = [.finished] := by
  match L, h with
  | [], _ => rfl
  | [_], _ => rfl

theorem refFrom_dropZero (f : Rat → Rat) (L : List Pt) : refFrom f (dropZero L) = refFrom f L := by
  induction L with
  | nil => rfl
  | cons a r ih =>
    simp only [dropZero]
    split
    · rename_i h0
      rw [ih]
      cases r with
      | nil => rfl
      | cons b r' => simp [refFrom, h0]
    · rfl

/-! ### PInterpolate inside a segment -/

/-- the `PInterpolate` over `[A, B]` with `D` steps after `j ≥ 1` values of its table have been used -/
def piAt (f : Rat → Rat) (A B : Rat) (D j : Nat) : PI :=
  { value := A + (B - A) * f (ratio j D), table := stepTable f A B D, pos := j, src := [], steps := D }

/-- … after its first `next` (which yields `A`) -/
def piFirst (A B : Rat) (D : Nat) : PI :=
  { value := A, table := [A], pos := 1, src := [B], steps := D }

theorem stepTable_length (f : Rat → Rat) (A B : Rat) (D : Nat) : (stepTable f A B D).length = D := by
  simp [stepTable]

theorem stepTable_getD (f : Rat → Rat) (A B : Rat) {D j : Nat} (h : j < D) :
    (stepTable f A B D).getD j 0 = A + (B - A) * f (ratio (j + 1) D) := by
  simp [stepTable, List.getD, h]

theorem start_next (f : Rat → Rat) (A B : Rat) (D : Nat) :
    (PI.start A [B] D).next f = { out := .val A, pi := piFirst A B D } := by
  simp [PI.start, PI.next, piFirst]

theorem piFirst_next (f : Rat → Rat) (A B : Rat) {D : Nat} (hD : D ≠ 0) :
    (piFirst A B D).next f = { out := .val (A + (B - A) * f (ratio 1 D)), pi := piAt f A B D 1 } := by
  have h0 : 0 < D := Nat.pos_of_ne_zero hD
  simp [piFirst, PI.next, hD, piAt]
  simp [stepTable, h0]

theorem piAt_next (f : Rat → Rat) (A B : Rat) {D j : Nat} (h : j < D) :
    (piAt f A B D j).next f = { out := .val (A + (B - A) * f (ratio (j + 1) D)), pi := piAt f A B D (j + 1) } := by
  simp [piAt, PI.next, stepTable_length, h]
  simp [stepTable]

theorem piAt_stop (f : Rat → Rat) (A B : Rat) {D : Nat} (hD : D ≠ 0) :
    (piAt f A B D D).next f = { out := .stop, pi := piAt f A B D D } := by
  simp [piAt, PI.next, stepTable_length, hD]

/-! ### one field -/

def fiAt (f : Rat → Rat) (x y : Fld) (D j : Nat) : FI :=
  match x, y with
  | .opq s, _ => .const (.opq s)
  | .num a, .num b => .interp (piAt f a b D j)
  | .num a, .opq _ => .bad a false

def fiFirst (x y : Fld) (D : Nat) : FI :=
  match x, y with
  | .opq s, _ => .const (.opq s)
  | .num a, .num b => .interp (piFirst a b D)
  | .num a, .opq _ => .bad a false

theorem mkFI_next (f : Rat → Rat) (x y : Fld) (D : Nat) :
    (mkFI x y D).next f = { out := .val x, fi := fiFirst x y D } := by
  cases x <;> cases y <;> simp [mkFI, FI.next, fiFirst, start_next]

theorem fiFirst_next (f : Rat → Rat) {x y : Fld} {D : Nat} (hD : D ≠ 0) (hc : fcompat x y = true) :
    (fiFirst x y D).next f = { out := .val (fldAt f x y D 1), fi := fiAt f x y D 1 } := by
  cases x <;> cases y <;> simp_all [fiFirst, FI.next, fldAt, fiAt, piFirst_next, fcompat]

theorem fiFirst_next_bad (f : Rat → Rat) {x y : Fld} {D : Nat} (hc : fcompat x y = false) :
    ((fiFirst x y D).next f).out = .typeError := by
  cases x <;> cases y <;> simp_all [fiFirst, FI.next, fcompat]

theorem fiAt_next (f : Rat → Rat) {x y : Fld} {D j : Nat} (h : j < D) (hc : fcompat x y = true) :
    (fiAt f x y D j).next f = { out := .val (fldAt f x y D (j + 1)), fi := fiAt f x y D (j + 1) } := by
  cases x <;> cases y <;> simp_all [FI.next, fldAt, fiAt, piAt_next, fcompat]

/-- at the end of the table a numeric field stops, any other field keeps yielding its constant; the state
    does not change -/
theorem fiAt_end (f : Rat → Rat) {x y : Fld} {D : Nat} (hD : D ≠ 0) (hc : fcompat x y = true) :
    ((fiAt f x y D D).next f).fi = fiAt f x y D D ∧
      (((fiAt f x y D D).next f).out = .stop ∨ ∃ v, ((fiAt f x y D D).next f).out = .val v) := by
  cases x <;> cases y <;> simp_all [FI.next, fiAt, piAt_stop, fcompat]

/-! ### the interpolating event -/

def segAt (f : Rat → Rat) (a b : Pt) (j : Nat) : Seg :=
  { control := fiAt f a.control b.control a.dur j,
    value := piAt f a.value b.value a.dur j,
    channel := fiAt f a.channel b.channel a.dur j }

def segFirst (a b : Pt) : Seg :=
  { control := fiFirst a.control b.control a.dur,
    value := piFirst a.value b.value a.dur,
    channel := fiFirst a.channel b.channel a.dur }

theorem compat_iff {a b : Pt} : compat a b = true ↔
    fcompat a.control b.control = true ∧ fcompat a.channel b.channel = true := by
  simp [compat]

theorem buildSeg_next (f : Rat → Rat) (a b : Pt) :
    (buildSeg a b).next f = { out := .msg (firstMsg a), seg := segFirst a b } := by
  simp [buildSeg, Seg.next, mkFI_next, start_next, firstMsg, segFirst]

theorem segFirst_next (f : Rat → Rat) {a b : Pt} (hD : a.dur ≠ 0) (hc : compat a b = true) :
    (segFirst a b).next f = { out := .msg (msgAt f a b 1), seg := segAt f a b 1 } := by
  obtain ⟨h1, h2⟩ := compat_iff.mp hc
  simp [segFirst, Seg.next, fiFirst_next f hD h1, fiFirst_next f hD h2, piFirst_next f _ _ hD, msgAt, segAt]

theorem segFirst_next_bad (f : Rat → Rat) {a b : Pt} (hD : a.dur ≠ 0) (hc : compat a b = false) :
    ((segFirst a b).next f).out = .typeError := by
  by_cases h1 : fcompat a.control b.control = true
  · have h2 : fcompat a.channel b.channel = false := by
      cases h : fcompat a.channel b.channel
      · rfl
      · exfalso; simp [compat, h1, h] at hc
    have hb := fiFirst_next_bad f (D := a.dur) h2
    simp only [segFirst, Seg.next, fiFirst_next f hD h1, piFirst_next f _ _ hD]
    split <;> simp_all
  · have h1' : fcompat a.control b.control = false := by simpa using h1
    have hb := fiFirst_next_bad f (D := a.dur) h1'
    simp only [segFirst, Seg.next]
    split <;> simp_all

theorem segAt_next (f : Rat → Rat) {a b : Pt} {j : Nat} (h : j < a.dur) (hc : compat a b = true) :
    (segAt f a b j).next f = { out := .msg (msgAt f a b (j + 1)), seg := segAt f a b (j + 1) } := by
  obtain ⟨h1, h2⟩ := compat_iff.mp hc
  simp [segAt, Seg.next, fiAt_next f h h1, fiAt_next f h h2, piAt_next f _ _ h, msgAt]

theorem segAt_stop (f : Rat → Rat) {a b : Pt} (hD : a.dur ≠ 0) (hc : compat a b = true) :
    (segAt f a b a.dur).next f = { out := .stop, seg := segAt f a b a.dur } := by
  obtain ⟨h1, _⟩ := compat_iff.mp hc
  obtain ⟨e1, e2⟩ := fiAt_end f hD h1
  rcases e2 with e2 | ⟨v, e2⟩
  · simp only [segAt, Seg.next, e2] at *
    simp [e1]
  · simp only [segAt, Seg.next, e2, piAt_stop f _ _ hD] at *
    simp [e1]

/-! ### the stream and `count` -/

/-- what `get_next_event` will still deliver -/
def remOf (mx : Nat) (stream : List Pt) (count : Nat) : List Pt :=
  if mx = 0 then stream else stream.take (mx - count)

def Track.rem (t : Track) : List Pt := remOf t.maxCount t.stream t.count

theorem remOf_nil (mx count : Nat) : remOf mx [] count = [] := by
  simp [remOf]

theorem remOf_cons_of_not_limit {mx count : Nat} (e : Pt) (r : List Pt) (h : limitReached mx count = false) :
    remOf mx (e :: r) count = e :: remOf mx r (count + 1) := by
  unfold remOf
  by_cases h0 : mx = 0
  · simp [h0]
  · simp only [h0, if_false]
    have : mx - count = (mx - (count + 1)) + 1 := by
      simp [limitReached, h0] at h; omega
    rw [this, List.take_succ_cons]

theorem remOf_of_limit {mx count : Nat} (s : List Pt) (h : limitReached mx count = true) : remOf mx s count = [] := by
  unfold remOf
  simp [limitReached] at h
  obtain ⟨h0, h1⟩ := h
  simp [h0]
  omega

theorem getNext_nil {t : Track} (h : t.rem = []) : t.getNext = none := by
  unfold Track.getNext
  cases hl : limitReached t.maxCount t.count
  · cases hs : t.stream with
    | nil => simp
    | cons e r =>
      unfold Track.rem at h
      rw [hs, remOf_cons_of_not_limit e r hl] at h
      cases h
  · simp

theorem getNext_cons {t : Track} {e : Pt} {r : List Pt} (h : t.rem = e :: r) :
    ∃ s', t.getNext = some { ev := e, track := { t with stream := s', count := t.count + 1 } } ∧
      remOf t.maxCount s' (t.count + 1) = r := by
  unfold Track.getNext
  cases hl : limitReached t.maxCount t.count
  · cases hs : t.stream with
    | nil => unfold Track.rem at h; rw [hs, remOf_nil] at h; cases h
    | cons e' r' =>
      unfold Track.rem at h
      rw [hs, remOf_cons_of_not_limit e' r' hl] at h
      cases h
      exact ⟨r', by simp, rfl⟩
  · unfold Track.rem at h
    rw [remOf_of_limit _ hl] at h
    cases h

theorem skipZero_spec (mx : Nat) : ∀ (stream : List Pt) (count : Nat) (cur nxt : Pt),
    ((dropZero (cur :: nxt :: remOf mx stream count)).length < 2 →
        (skipZero mx stream count cur nxt).found = false) ∧
    (∀ c d rest, dropZero (cur :: nxt :: remOf mx stream count) = c :: d :: rest →
        (skipZero mx stream count cur nxt).found = true ∧ (skipZero mx stream count cur nxt).cur = c ∧
        (skipZero mx stream count cur nxt).nxt = d ∧
        remOf mx (skipZero mx stream count cur nxt).stream (skipZero mx stream count cur nxt).count = rest) := by
  intro stream
  induction stream with
  | nil =>
    intro count cur nxt
    rw [remOf_nil]
    by_cases h0 : cur.dur = 0
    · constructor
      · intro _; simp [skipZero, h0]
      · intro c d rest h
        simp only [dropZero, h0, if_true] at h
        split at h <;> cases h
    · constructor
      · intro h; simp [dropZero, h0] at h
      · intro c d rest h
        simp only [dropZero, h0, if_false] at h
        cases h
        simp [skipZero, h0, remOf_nil]
  | cons e r ih =>
    intro count cur nxt
    by_cases h0 : cur.dur = 0
    · cases hl : limitReached mx count
      · rw [remOf_cons_of_not_limit e r hl]
        have := ih (count + 1) nxt e
        simp only [dropZero, h0, if_true]
        simp only [skipZero, h0, hl]
        simpa [dropZero] using this
      · rw [remOf_of_limit _ hl]
        constructor
        · intro _; simp [skipZero, h0, hl]
        · intro c d rest h
          simp only [dropZero, h0, if_true] at h
          split at h <;> cases h
    · constructor
      · intro h; simp only [dropZero, h0, if_false, List.length_cons] at h; omega
      · intro c d rest h
        simp only [dropZero, h0, if_false] at h
        cases h
        simp [skipZero, h0]

/-! ### runs -/

/-- the outcomes of the ticks from state `t` on are exactly `E` (cut at the run length) -/
def RunsTo (f : Rat → Rat) (t : Track) (E : List Outcome) : Prop := ∀ n, run f n t = E.take n

theorem runsTo_msg {f : Rat → Rat} {t t' : Track} {m : Msg} {E : List Outcome}
    (h : tick f t = { out := .msg m, track := t' }) (h' : RunsTo f t' E) : RunsTo f t (.msg m :: E) := by
  intro n
  cases n with
  | zero => rfl
  | succ n => simp [run, h, Outcome.isMsg, h' n]

theorem runsTo_end {f : Rat → Rat} {t : Track} {o : Outcome} (h : (tick f t).out = o) (ho : o.isMsg = false) :
    RunsTo f t [o] := by
  intro n
  cases n with
  | zero => rfl
  | succ n => simp [run, h, ho]

theorem runsTo_congr {f : Rat → Rat} {t t' : Track} {E : List Outcome} (h : tick f t = tick f t')
    (h' : RunsTo f t' E) : RunsTo f t E := by
  intro n
  cases n with
  | zero => rfl
  | succ n => have := h' (n + 1); simp only [run] at this ⊢; rw [h]; exact this

theorem tick_inseg (f : Rat → Rat) {t : Track} {a b : Pt} {j : Nat} (hs : t.seg = some (segAt f a b j))
    (h : j < a.dur) (hc : compat a b = true) :
    tick f t = { out := .msg (msgAt f a b (j + 1)), track := { t with seg := some (segAt f a b (j + 1)) } } := by
  simp [tick, hs, segAt_next f h hc]

theorem runsTo_segment (f : Rat → Rat) {a b : Pt} (hc : compat a b = true) {E : List Outcome} :
    ∀ (k j : Nat) (t : Track), j + k = a.dur → t.seg = some (segAt f a b j) →
      RunsTo f { t with seg := some (segAt f a b a.dur) } E →
      RunsTo f t ((List.range' (j + 1) k).map (fun i => Outcome.msg (msgAt f a b i)) ++ E) := by
  intro k
  induction k with
  | zero =>
    intro j t hj hs hE
    have : j = a.dur := by omega
    subst this
    have : { t with seg := some (segAt f a b a.dur) } = t := by cases t; simp_all
    rw [this] at hE
    simpa using hE
  | succ k ih =>
    intro j t hj hs hE
    have hlt : j < a.dur := by omega
    rw [List.range'_succ, List.map_cons, List.cons_append]
    refine runsTo_msg (tick_inseg f hs hlt hc) ?_
    exact ih (j + 1) _ (by omega) rfl hE

theorem emit_eq_tick (f : Rat → Rat) (t : Track) (s : Seg) (h : (s.next f).out ≠ .stop) :
    emit f t s = tick f { t with seg := some s } := by
  unfold emit tick
  simp only
  split <;> simp_all

/-! ### the set-up of a segment -/

theorem setupFrom_nil (f : Rat → Rat) (first : Bool) (c : Pt) {t : Track} (h : t.rem = []) :
    (setupFrom f first c t).out = .finished := by
  simp [setupFrom, getNext_nil h]

theorem kindsOK_false {a b : Pt} (h : kindsOK a b = false) : a.kind ≠ .control ∨ b.kind ≠ .control := by
  unfold kindsOK at h
  cases ha : a.kind <;> cases hb : b.kind <;> simp_all

theorem kindsOK_true {a b : Pt} (h : kindsOK a b = true) : ¬ (a.kind ≠ .control ∨ b.kind ≠ .control) := by
  unfold kindsOK at h
  cases ha : a.kind <;> cases hb : b.kind <;> simp_all

theorem setupFrom_cons (f : Rat → Rat) (first : Bool) (c : Pt) {t : Track} {e : Pt} {r : List Pt}
    (h : t.rem = e :: r) :
    ((dropZero (c :: e :: r)).length < 2 → (setupFrom f first c t).out = .finished) ∧
    (∀ c' d' rest', dropZero (c :: e :: r) = c' :: d' :: rest' →
      (kindsOK c' d' = false → (setupFrom f first c t).out = .rejected) ∧
      (kindsOK c' d' = true → ∃ t2 : Track, t2.nxt = some d' ∧ t2.rem = rest' ∧
        setupFrom f first c t =
          if first then { out := .msg (firstMsg c'), track := { t2 with seg := some (segFirst c' d') } }
          else emit f t2 (segFirst c' d'))) := by
  obtain ⟨s', hg, hr⟩ := getNext_cons h
  have sp := skipZero_spec t.maxCount s' (t.count + 1) c e
  rw [hr] at sp
  obtain ⟨spA, spB⟩ := sp
  constructor
  · intro hl
    have := spA hl
    simp [setupFrom, hg, this]
  · intro c' d' rest' hdz
    obtain ⟨hf, hc, hd, hrem⟩ := spB c' d' rest' hdz
    constructor
    · intro hk
      have := kindsOK_false hk
      simp only [setupFrom, hg, hf, hc, hd]
      simp [this]
    · intro hk
      have hk' := kindsOK_true hk
      refine ⟨{ t with stream := (skipZero t.maxCount s' (t.count + 1) c e).stream,
                        count := (skipZero t.maxCount s' (t.count + 1) c e).count,
                        cur := some c', nxt := some d' }, rfl, hrem, ?_⟩
      simp only [setupFrom, hg, hf, hc, hd]
      simp only [hk', if_false, Bool.not_true, Bool.false_eq_true]
      cases first
      · simp [buildSeg_next]
      · simp [emit, buildSeg_next]

/-! ### model = reference -/

theorem segFirst_not_stop (f : Rat → Rat) {a b : Pt} (hD : a.dur ≠ 0) : ((segFirst a b).next f).out ≠ .stop := by
  cases hc : compat a b
  · rw [segFirst_next_bad f hD hc]; simp
  · rw [segFirst_next f hD hc]; simp

theorem endOfSegment (f : Rat → Rat) {rest : List Pt}
    (IH : ∀ (rest' : List Pt) (c' d' : Pt) (t' : Track), rest'.length < rest.length → c'.dur ≠ 0 →
      kindsOK c' d' = true → t'.seg = some (segFirst c' d') → t'.nxt = some d' → t'.rem = rest' →
      RunsTo f t' (refFrom f (c' :: d' :: rest')))
    {c d : Pt} {t : Track} (hD : c.dur ≠ 0) (hc : compat c d = true)
    (hs : t.seg = some (segAt f c d c.dur)) (hn : t.nxt = some d) (hr : t.rem = rest) :
    RunsTo f t (refFrom f (d :: rest)) := by
  have htick : tick f t = setupFrom f false d t := by
    revert hs hn
    cases t
    intro hs hn
    simp only at hs hn
    subst hs hn
    simp [tick, segAt_stop f hD hc, setup]
  cases rest with
  | nil =>
    exact runsTo_end (by rw [htick]; exact setupFrom_nil f false d hr) rfl
  | cons e' r =>
    obtain ⟨hA, hB⟩ := setupFrom_cons f false d hr
    rw [← refFrom_dropZero]
    have hlen := dropZero_length (d :: e' :: r)
    match hdz : dropZero (d :: e' :: r) with
    | [] =>
      rw [refFrom_short f (by simp)]
      exact runsTo_end (by rw [htick]; exact hA (by simp [hdz])) rfl
    | [_] =>
      rw [refFrom_short f (by simp)]
      exact runsTo_end (by rw [htick]; exact hA (by simp [hdz])) rfl
    | c' :: d' :: rest' =>
      obtain ⟨hrej, hok⟩ := hB c' d' rest' hdz
      have hD' := dropZero_head hdz
      cases hk : kindsOK c' d'
      · have : refFrom f (c' :: d' :: rest') = [.rejected] := by simp [refFrom, hD', hk]
        rw [this]
        exact runsTo_end (by rw [htick]; exact hrej hk) rfl
      · obtain ⟨t2, h2n, h2r, heq⟩ := hok hk
        have hne := segFirst_not_stop f (b := d') hD'
        refine runsTo_congr (t' := { t2 with seg := some (segFirst c' d') }) ?_ ?_
        · rw [htick, heq]
          simp only [Bool.false_eq_true, if_false]
          exact emit_eq_tick f t2 _ hne
        · refine IH rest' c' d' _ ?_ hD' hk rfl h2n h2r
          rw [hdz] at hlen
          simp only [List.length_cons] at hlen ⊢
          omega

theorem runsTo_first (f : Rat → Rat) : ∀ (n : Nat) (rest : List Pt), rest.length = n → ∀ (c d : Pt) (t : Track),
    c.dur ≠ 0 → kindsOK c d = true → t.seg = some (segFirst c d) → t.nxt = some d → t.rem = rest →
    RunsTo f t (refFrom f (c :: d :: rest)) := by
  intro n
  induction n using Nat.strong_induction_on with
  | _ n ih =>
    intro rest hlen c d t hD hk hs hn hr
    have href : refFrom f (c :: d :: rest) =
        if !compat c d then [.typeError] else segMsgs f c d ++ refFrom f (d :: rest) := by
      simp [refFrom, hD, hk]
    rw [href]
    cases hc : compat c d
    · simp only [Bool.not_false, if_true]
      refine runsTo_end ?_ rfl
      simp only [tick, hs]
      have := segFirst_next_bad f hD hc
      split <;> simp_all
    · simp only [Bool.not_true, Bool.false_eq_true, if_false]
      obtain ⟨k, hk'⟩ := Nat.exists_eq_succ_of_ne_zero hD
      have hseg : segMsgs f c d =
          .msg (msgAt f c d 1) :: (List.range' (1 + 1) k).map (fun i => Outcome.msg (msgAt f c d i)) := by
        simp [segMsgs, hk', List.range'_succ]
      rw [hseg, List.cons_append]
      refine runsTo_msg (t' := { t with seg := some (segAt f c d 1) }) ?_ ?_
      · simp [tick, hs, segFirst_next f hD hc]
      · refine runsTo_segment f hc k 1 _ (by omega) rfl ?_
        refine endOfSegment f ?_ hD hc rfl hn hr
        intro rest' c' d' t' hl
        exact ih rest'.length (by omega) rest' rfl c' d' t'

theorem ref_of_short (f : Rat → Rat) {pts : List Pt} (h : (dropZero pts).length < 2) : ref f pts = [.finished] := by
  unfold ref
  match hd : dropZero pts, h with
  | [], _ => rfl
  | [_], _ => rfl

theorem ref_of_cons (f : Rat → Rat) {pts : List Pt} {a b : Pt} {rest : List Pt} (h : dropZero pts = a :: b :: rest) :
    ref f pts = if !kindsOK a b then [.rejected] else .msg (firstMsg a) :: refFrom f (a :: b :: rest) := by
  unfold ref
  rw [h]

/-- **The state machine produces exactly the reference trace**, for every list of points, every `count`,
    every easing and every run length. -/
theorem run_fresh (f : Rat → Rat) (pts : List Pt) (count : Nat) :
    RunsTo f (Track.fresh pts count) (ref f (eff count pts)) := by
  have hrem : (Track.fresh pts count).rem = eff count pts := by
    simp [Track.rem, remOf, Track.fresh, eff]
  have htick : tick f (Track.fresh pts count) = setup f (Track.fresh pts count) := by
    simp [tick, Track.fresh]
  have hnxt : (Track.fresh pts count).nxt = none := rfl
  cases hL : eff count pts with
  | nil =>
    rw [hL] at hrem
    rw [ref_of_short f (by simp [dropZero])]
    refine runsTo_end ?_ rfl
    rw [htick]
    simp [setup, hnxt, getNext_nil hrem]
  | cons e r =>
    rw [hL] at hrem
    obtain ⟨s', hg, hr⟩ := getNext_cons hrem
    obtain ⟨t1, hr', hsetup⟩ : ∃ t1 : Track, t1.rem = r ∧
        setup f (Track.fresh pts count) = setupFrom f true e t1 := by
      refine ⟨{ stream := s', count := (Track.fresh pts count).count + 1,
                maxCount := (Track.fresh pts count).maxCount, nxt := some e }, hr, ?_⟩
      simp only [setup, hnxt, hg]
      rfl
    have hout : ∀ o, (setupFrom f true e t1).out = o → (tick f (Track.fresh pts count)).out = o := by
      intro o ho; rw [htick, hsetup]; exact ho
    cases r with
    | nil =>
      have hshort : (dropZero [e]).length < 2 := by
        have := dropZero_length [e]; simp at this; omega
      rw [ref_of_short f hshort]
      exact runsTo_end (hout _ (setupFrom_nil f true e hr')) rfl
    | cons e2 r2 =>
      obtain ⟨hA, hB⟩ := setupFrom_cons f true e hr'
      match hdz : dropZero (e :: e2 :: r2) with
      | [] =>
        rw [ref_of_short f (by simp [hdz])]
        exact runsTo_end (hout _ (hA (by simp [hdz]))) rfl
      | [_] =>
        rw [ref_of_short f (by simp [hdz])]
        exact runsTo_end (hout _ (hA (by simp [hdz]))) rfl
      | c' :: d' :: rest' =>
        obtain ⟨hrej, hok⟩ := hB c' d' rest' hdz
        have hD' := dropZero_head hdz
        rw [ref_of_cons f hdz]
        cases hk : kindsOK c' d'
        · have : (if (!false) = true then [Outcome.rejected]
              else Outcome.msg (firstMsg c') :: refFrom f (c' :: d' :: rest')) = [Outcome.rejected] := by simp
          rw [this]
          exact runsTo_end (hout _ (hrej hk)) rfl
        · have : (if (!true) = true then [Outcome.rejected]
              else Outcome.msg (firstMsg c') :: refFrom f (c' :: d' :: rest'))
              = Outcome.msg (firstMsg c') :: refFrom f (c' :: d' :: rest') := by simp
          rw [this]
          obtain ⟨t2, h2n, h2r, heq⟩ := hok hk
          refine runsTo_msg (t' := { t2 with seg := some (segFirst c' d') }) ?_ ?_
          · rw [htick, hsetup, heq]; simp
          · exact runsTo_first f rest'.length rest' rfl c' d' _ hD' hk rfl h2n h2r

/-- entry form: every run of the model is a prefix of the reference trace -/
theorem trace_eq_ref (f : Rat → Rat) (pts : List Pt) (count n : Nat) :
    trace f pts count n = (ref f (eff count pts)).take n :=
  run_fresh f pts count n

/-! ### the closed form of the reference trace -/

/-- point `i` of the list (total accessor) -/
def pt (P : List Pt) (i : Nat) : Pt := P.getD i default

/-- ticks before point `i`: the sum of the durations of the points before it -/
def off (P : List Pt) (i : Nat) : Nat := ((P.take i).map Pt.dur).sum

/-- number of leading points of zero ticks = index of the first point that is played -/
def firstIdx : List Pt → Nat
  | [] => 0
  | a :: tl => if a.dur = 0 then firstIdx tl + 1 else 0

/-- the messages of all segments, in order -/
def allMsgs (f : Rat → Rat) : List Pt → List Outcome
  | [] => []
  | a :: tl =>
    match tl with
    | [] => []
    | b :: _ => segMsgs f a b ++ allMsgs f tl

/-- the domain of the property: every event is a control event, and no numeric control/channel field is
    followed by a non-numeric one -/
structure WF (P : List Pt) : Prop where
  kinds : ∀ i, i < P.length → (pt P i).kind = .control
  fields : ∀ i, i + 1 < P.length → compat (pt P i) (pt P (i + 1)) = true

@[simp] theorem pt_zero (a : Pt) (tl : List Pt) : pt (a :: tl) 0 = a := rfl
@[simp] theorem pt_succ (a : Pt) (tl : List Pt) (i : Nat) : pt (a :: tl) (i + 1) = pt tl i := rfl
@[simp] theorem off_zero (P : List Pt) : off P 0 = 0 := by simp [off]
@[simp] theorem off_succ (a : Pt) (tl : List Pt) (i : Nat) : off (a :: tl) (i + 1) = a.dur + off tl i := by
  simp [off]

theorem off_succ_eq (P : List Pt) (i : Nat) (h : i < P.length) : off P (i + 1) = off P i + (pt P i).dur := by
  induction P generalizing i with
  | nil => simp at h
  | cons a tl ih =>
    cases i with
    | zero => simp
    | succ i => simp at h; simp [ih i h]; omega

theorem WF.tail {a : Pt} {tl : List Pt} (h : WF (a :: tl)) : WF tl :=
  ⟨fun i hi => by simpa using h.kinds (i + 1) (by simpa using hi),
   fun i hi => by simpa using h.fields (i + 1) (by simpa using hi)⟩

theorem WF.head2 {a b : Pt} {rest : List Pt} (h : WF (a :: b :: rest)) :
    kindsOK a b = true ∧ compat a b = true := by
  have k0 := h.kinds 0 (by simp)
  have k1 := h.kinds 1 (by simp)
  have c0 := h.fields 0 (by simp)
  simp at k0 k1 c0
  simp [kindsOK, k0, k1, c0]

theorem segMsgs_length (f : Rat → Rat) (a b : Pt) : (segMsgs f a b).length = a.dur := by
  simp [segMsgs]

theorem segMsgs_zero (f : Rat → Rat) {a : Pt} (b : Pt) (h : a.dur = 0) : segMsgs f a b = [] := by
  simp [segMsgs, h]

theorem segMsgs_get (f : Rat → Rat) (a b : Pt) {j : Nat} (h1 : 1 ≤ j) (h2 : j ≤ a.dur) :
    (segMsgs f a b)[j - 1]? = some (.msg (msgAt f a b j)) := by
  have : j - 1 < a.dur := by omega
  simp [segMsgs, this]
  congr 1
  omega

theorem refFrom_cons_ok (f : Rat → Rat) {a b : Pt} (r : List Pt) (hk : kindsOK a b = true)
    (hc : compat a b = true) : refFrom f (a :: b :: r) = segMsgs f a b ++ refFrom f (b :: r) := by
  by_cases h0 : a.dur = 0
  · simp [refFrom, h0, segMsgs_zero f b h0]
  · simp [refFrom, h0, hk, hc]

theorem allMsgs_cons2 (f : Rat → Rat) (a b : Pt) (r : List Pt) :
    allMsgs f (a :: b :: r) = segMsgs f a b ++ allMsgs f (b :: r) := rfl

theorem allMsgs_length (f : Rat → Rat) (P : List Pt) : (allMsgs f P).length = off P (P.length - 1) := by
  induction P with
  | nil => simp [allMsgs]
  | cons a tl ih =>
    cases tl with
    | nil => simp [allMsgs]
    | cons b r =>
      rw [allMsgs_cons2, List.length_append, segMsgs_length, ih]
      simp

theorem allMsgs_get (f : Rat → Rat) : ∀ (P : List Pt) (i j : Nat), i + 1 < P.length → 1 ≤ j → j ≤ (pt P i).dur →
    (allMsgs f P)[off P i + j - 1]? = some (.msg (msgAt f (pt P i) (pt P (i + 1)) j)) := by
  intro P
  induction P with
  | nil => intro i j h; simp at h
  | cons a tl ih =>
    intro i j hi h1 h2
    cases tl with
    | nil => simp at hi
    | cons b r =>
      cases i with
      | zero =>
        simp only [off_zero, pt_zero, pt_succ, Nat.zero_add] at h2 ⊢
        rw [allMsgs_cons2]
        rw [List.getElem?_append_left (by rw [segMsgs_length]; omega)]
        exact segMsgs_get f a b h1 h2
      | succ i =>
        simp only [pt_succ, off_succ] at h2 ⊢
        rw [allMsgs_cons2]
        rw [List.getElem?_append_right (by rw [segMsgs_length]; omega), segMsgs_length]
        have : a.dur + off (b :: r) i + j - 1 - a.dur = off (b :: r) i + j - 1 := by omega
        rw [this]
        exact ih i j (by simpa using hi) h1 h2

theorem refFrom_append (f : Rat → Rat) : ∀ (pre : List Pt) (a : Pt) (tl : List Pt), WF (pre ++ [a]) →
    refFrom f (pre ++ a :: tl) = allMsgs f (pre ++ [a]) ++ refFrom f (a :: tl) := by
  intro pre
  induction pre with
  | nil => intro a tl _; simp [allMsgs]
  | cons p pre' ih =>
    intro a tl hwf
    cases pre' with
    | nil =>
      obtain ⟨hk, hc⟩ := WF.head2 (a := p) (b := a) (rest := []) (by simpa using hwf)
      simp only [List.cons_append, List.nil_append]
      rw [refFrom_cons_ok f tl hk hc]
      simp [allMsgs]
    | cons q pre'' =>
      obtain ⟨hk, hc⟩ := WF.head2 (a := p) (b := q) (rest := pre'' ++ [a]) (by simpa using hwf)
      have := ih a tl (by simpa using hwf.tail)
      simp only [List.cons_append] at this ⊢
      rw [refFrom_cons_ok f _ hk hc, this]
      simp [allMsgs]

theorem dropZero_eq_drop (L : List Pt) : dropZero L = L.drop (firstIdx L) := by
  induction L with
  | nil => rfl
  | cons a tl ih =>
    simp only [dropZero, firstIdx]
    split <;> simp [ih]

theorem firstIdx_le : ∀ (L : List Pt) (i : Nat), i < L.length → (pt L i).dur ≠ 0 → firstIdx L ≤ i := by
  intro L
  induction L with
  | nil => intro i h; simp at h
  | cons a tl ih =>
    intro i hi hd
    simp only [firstIdx]
    split
    · rename_i h0
      cases i with
      | zero => simp [h0] at hd
      | succ i => have := ih i (by simpa using hi) (by simpa using hd); omega
    · omega

theorem firstIdx_zero_dur : ∀ (L : List Pt) (k : Nat), k < firstIdx L → (pt L k).dur = 0 := by
  intro L
  induction L with
  | nil => intro k h; simp [firstIdx] at h
  | cons a tl ih =>
    intro k hk
    simp only [firstIdx] at hk
    split at hk
    · rename_i h0
      cases k with
      | zero => simpa using h0
      | succ k => simpa using ih k (by omega)
    · omega

theorem firstIdx_dur : ∀ (L : List Pt), firstIdx L < L.length → (pt L (firstIdx L)).dur ≠ 0 := by
  intro L
  induction L with
  | nil => intro h; simp at h
  | cons a tl ih =>
    intro h
    simp only [firstIdx] at h ⊢
    split
    · rename_i h0
      rw [if_pos h0] at h
      simpa using ih (by simpa using h)
    · simpa

theorem off_firstIdx (L : List Pt) : off L (firstIdx L) = 0 := by
  induction L with
  | nil => simp [firstIdx]
  | cons a tl ih =>
    simp only [firstIdx]
    split
    · rename_i h0; simp [h0, ih]
    · simp

theorem drop_eq_pt_cons : ∀ (L : List Pt) (i : Nat), i + 1 < L.length →
    L.drop i = pt L i :: pt L (i + 1) :: L.drop (i + 2) := by
  intro L
  induction L with
  | nil => intro i h; simp at h
  | cons a tl ih =>
    intro i hi
    cases i with
    | zero =>
      cases tl with
      | nil => simp at hi
      | cons b r => simp [pt]
    | succ i =>
      have := ih i (by simpa using hi)
      simpa using this

/-- a segment can be played: some point with a successor has a non-zero duration -/
def Playable (P : List Pt) : Prop := ∃ i, i + 1 < P.length ∧ (pt P i).dur ≠ 0

theorem dropZero_of_playable {P : List Pt} (h : Playable P) :
    firstIdx P + 1 < P.length ∧
      dropZero P = pt P (firstIdx P) :: pt P (firstIdx P + 1) :: P.drop (firstIdx P + 2) := by
  obtain ⟨i, hi, hd⟩ := h
  have := firstIdx_le P i (by omega) hd
  have hlt : firstIdx P + 1 < P.length := by omega
  exact ⟨hlt, by rw [dropZero_eq_drop, drop_eq_pt_cons P _ hlt]⟩

theorem not_playable_short {P : List Pt} (h : ¬ Playable P) : (dropZero P).length < 2 := by
  rw [dropZero_eq_drop]
  by_contra hc
  apply h
  simp only [List.length_drop] at hc
  have hlt : firstIdx P + 1 < P.length := by omega
  exact ⟨firstIdx P, hlt, firstIdx_dur P (by omega)⟩

/-- the general shape of the reference trace: if everything up to the point `a` is in the property's
    domain and a segment is played before `a`, the trace is the first point, then the messages of all
    segments up to `a`, then whatever follows the arrival at `a`. -/
theorem ref_split (f : Rat → Rat) {P pre : List Pt} {a : Pt} {tl : List Pt} (hP : P = pre ++ a :: tl)
    (hwf : WF (pre ++ [a])) (hplay : ∃ i, i < pre.length ∧ (pt P i).dur ≠ 0) :
    ref f P = .msg (firstMsg (pt P (firstIdx P))) :: (allMsgs f (pre ++ [a]) ++ refFrom f (a :: tl)) := by
  obtain ⟨i, hi, hd⟩ := hplay
  have hlen : P.length = pre.length + 1 + tl.length := by rw [hP]; simp; omega
  have hpl : Playable P := ⟨i, by omega, hd⟩
  obtain ⟨hlt, hdz⟩ := dropZero_of_playable hpl
  have hle := firstIdx_le P i (by omega) hd
  -- the first played pair lies inside `pre ++ [a]`
  have hpt : ∀ k, k ≤ pre.length → pt P k = pt (pre ++ [a]) k := by
    intro k hk
    rw [hP]
    simp only [pt, List.getD_eq_getElem?_getD]
    congr 1
    by_cases hk' : k < pre.length
    · rw [List.getElem?_append_left hk', List.getElem?_append_left hk']
    · have : k = pre.length := by omega
      subst this
      simp
  have hk : kindsOK (pt P (firstIdx P)) (pt P (firstIdx P + 1)) = true := by
    have k0 := hwf.kinds (firstIdx P) (by simp; omega)
    have k1 := hwf.kinds (firstIdx P + 1) (by simp; omega)
    rw [← hpt _ (by omega)] at k0
    rw [← hpt _ (by omega)] at k1
    simp [kindsOK, k0, k1]
  rw [ref_of_cons f hdz, hk]
  simp only [Bool.not_true, Bool.false_eq_true, if_false]
  rw [← hdz, refFrom_dropZero, hP, refFrom_append f pre a tl hwf]

/-- in the property's domain: first point, the messages of all segments, then the track finishes -/
theorem ref_wf (f : Rat → Rat) {P : List Pt} (hwf : WF P) (hpl : Playable P) :
    ref f P = .msg (firstMsg (pt P (firstIdx P))) :: (allMsgs f P ++ [.finished]) := by
  obtain ⟨i, hi, hd⟩ := hpl
  have hne : P ≠ [] := by intro h; simp [h] at hi
  obtain ⟨pre, a, hP⟩ : ∃ pre a, P = pre ++ [a] := ⟨P.dropLast, P.getLast hne, (List.dropLast_append_getLast hne).symm⟩
  have hlen : P.length = pre.length + 1 := by rw [hP]; simp
  have := ref_split f (P := P) (pre := pre) (a := a) (tl := []) (by simpa using hP) (hP ▸ hwf) ⟨i, by omega, hd⟩
  rw [this, ← hP]
  rfl

/-! ### every message lies on a segment between two control events (no hypothesis on the list) -/

theorem refFrom_msgs (f : Rat → Rat) : ∀ (L : List Pt) (m : Msg), Outcome.msg m ∈ refFrom f L →
    ∃ i j, i + 1 < L.length ∧ kindsOK (pt L i) (pt L (i + 1)) = true ∧ compat (pt L i) (pt L (i + 1)) = true ∧
      1 ≤ j ∧ j ≤ (pt L i).dur ∧ m = msgAt f (pt L i) (pt L (i + 1)) j := by
  intro L
  induction L with
  | nil => intro m h; simp [refFrom] at h
  | cons a tl ih =>
    intro m h
    cases tl with
    | nil => simp [refFrom] at h
    | cons b r =>
      have shift : (∃ i j, i + 1 < (b :: r).length ∧ kindsOK (pt (b :: r) i) (pt (b :: r) (i + 1)) = true ∧
          compat (pt (b :: r) i) (pt (b :: r) (i + 1)) = true ∧ 1 ≤ j ∧ j ≤ (pt (b :: r) i).dur ∧
          m = msgAt f (pt (b :: r) i) (pt (b :: r) (i + 1)) j) →
          ∃ i j, i + 1 < (a :: b :: r).length ∧ kindsOK (pt (a :: b :: r) i) (pt (a :: b :: r) (i + 1)) = true ∧
          compat (pt (a :: b :: r) i) (pt (a :: b :: r) (i + 1)) = true ∧ 1 ≤ j ∧ j ≤ (pt (a :: b :: r) i).dur ∧
          m = msgAt f (pt (a :: b :: r) i) (pt (a :: b :: r) (i + 1)) j := by
        rintro ⟨i, j, h1, h2, h3, h4, h5, h6⟩
        exact ⟨i + 1, j, by simpa using h1, by simpa using h2, by simpa using h3, h4, by simpa using h5,
          by simpa using h6⟩
      by_cases h0 : a.dur = 0
      · have : refFrom f (a :: b :: r) = refFrom f (b :: r) := by simp [refFrom, h0]
        rw [this] at h
        exact shift (ih m h)
      · cases hk : kindsOK a b
        · simp [refFrom, h0, hk] at h
        · cases hc : compat a b
          · simp [refFrom, h0, hk, hc] at h
          · rw [refFrom_cons_ok f r hk hc, List.mem_append] at h
            rcases h with h | h
            · simp only [segMsgs, List.mem_map, List.mem_range'_1] at h
              obtain ⟨j, ⟨hj1, hj2⟩, hm⟩ := h
              refine ⟨0, j, by simp, by simpa using hk, by simpa using hc, hj1, by simp; omega, ?_⟩
              simp only [pt_zero, pt_succ]
              injection hm with hm
              exact hm.symm
            · exact shift (ih m h)

theorem ref_msgs (f : Rat → Rat) (P : List Pt) (m : Msg) (h : Outcome.msg m ∈ ref f P) :
    ∃ i, i + 1 < P.length ∧ kindsOK (pt P i) (pt P (i + 1)) = true ∧ (pt P i).dur ≠ 0 ∧
      (m = firstMsg (pt P i) ∨
        ∃ j, 1 ≤ j ∧ j ≤ (pt P i).dur ∧ compat (pt P i) (pt P (i + 1)) = true ∧
          m = msgAt f (pt P i) (pt P (i + 1)) j) := by
  by_cases hpl : Playable P
  · obtain ⟨hlt, hdz⟩ := dropZero_of_playable hpl
    rw [ref_of_cons f hdz] at h
    cases hk : kindsOK (pt P (firstIdx P)) (pt P (firstIdx P + 1))
    · simp [hk] at h
    · simp only [hk, Bool.not_true, Bool.false_eq_true, if_false, List.mem_cons] at h
      rcases h with h | h
      · injection h with h
        exact ⟨firstIdx P, hlt, hk, firstIdx_dur P (by omega), Or.inl h⟩
      · rw [← hdz, refFrom_dropZero] at h
        obtain ⟨i, j, h1, h2, h3, h4, h5, h6⟩ := refFrom_msgs f P m h
        exact ⟨i, h1, h2, by omega, Or.inr ⟨j, h4, h5, h3, h6⟩⟩
  · rw [ref_of_short f (not_playable_short hpl)] at h
    simp at h

/-! ### arithmetic of the curve -/

theorem ratio_self {D : Nat} (hD : D ≠ 0) : ratio D D = 1 := by
  unfold ratio
  have : (D : Rat) ≠ 0 := by exact_mod_cast hD
  exact div_self this

theorem ratio_mem {j D : Nat} (h : j ≤ D) (hD : D ≠ 0) : 0 ≤ ratio j D ∧ ratio j D ≤ 1 := by
  unfold ratio
  have hD' : (0 : Rat) < (D : Rat) := by
    have : 0 < D := Nat.pos_of_ne_zero hD
    exact_mod_cast this
  have hj : (j : Rat) ≤ (D : Rat) := by exact_mod_cast h
  have h0 : (0 : Rat) ≤ (j : Rat) := by positivity
  constructor
  · positivity
  · rw [div_le_one hD']; exact hj

theorem hull (a b t : Rat) (h0 : 0 ≤ t) (h1 : t ≤ 1) :
    min a b ≤ a + (b - a) * t ∧ a + (b - a) * t ≤ max a b := by
  rcases le_total a b with h | h
  · rw [min_eq_left h, max_eq_right h]
    constructor
    · nlinarith [mul_nonneg (sub_nonneg.2 h) h0]
    · nlinarith [mul_nonneg (sub_nonneg.2 h) (sub_nonneg.2 h1)]
  · rw [min_eq_right h, max_eq_left h]
    constructor
    · nlinarith [mul_nonneg (sub_nonneg.2 h) (sub_nonneg.2 h1)]
    · nlinarith [mul_nonneg (sub_nonneg.2 h) h0]

/-! ### PInterpolate on its own -/

/-- the values after the first one: one step table per target, each starting from the previous target -/
def curve (f : Rat → Rat) (D : Nat) : Rat → List Rat → List Rat
  | _, [] => []
  | e, t :: rest => stepTable f e t D ++ curve f D t rest

theorem stepTable_getLast (f : Rat → Rat) (hf1 : f 1 = 1) (e t : Rat) {D : Nat} (hD : D ≠ 0) :
    (stepTable f e t D).getLast? = some t := by
  obtain ⟨k, rfl⟩ := Nat.exists_eq_succ_of_ne_zero hD
  have : ratio (k + 1) (k + 1) = 1 := ratio_self (by omega)
  simp [stepTable, List.range_succ, this, hf1]

theorem getLast?_getElem {α : Type} (l : List α) (e : α) (h : l.getLast? = some e) (i : Nat) (hi : i + 1 = l.length) :
    l[i]? = some e := by
  rw [List.getLast?_eq_getElem?] at h
  have : l.length - 1 = i := by omega
  rw [this] at h
  exact h

theorem pi_take_general (f : Rat → Rat) (hf1 : f 1 = 1) {D : Nat} (hD : D ≠ 0) :
    ∀ (n : Nat) (p : PI) (e : Rat), p.steps = D → p.pos ≤ p.table.length → p.table.getLast? = some e →
      (p.pos = p.table.length → p.value = e) →
      PI.take f n p = (p.table.drop p.pos ++ curve f D e p.src).take n := by
  intro n
  induction n with
  | zero => intro p e _ _ _ _; simp [PI.take]
  | succ n ih =>
    intro p e hs hpos hlast hval
    by_cases hlt : p.pos < p.table.length
    · have hnext : p.next f =
          { out := .val (p.table.getD p.pos 0),
            pi := { p with value := p.table.getD p.pos 0, pos := p.pos + 1 } } := by
        simp [PI.next, hlt]
      have hget : p.table.getD p.pos 0 = p.table[p.pos] := by simp [List.getD, hlt]
      have key := ih { p with value := p.table.getD p.pos 0, pos := p.pos + 1 } e hs
        (by show p.pos + 1 ≤ p.table.length; omega) hlast
        (by
          intro hp
          have hp' : p.pos + 1 = p.table.length := hp
          have := getLast?_getElem p.table e hlast p.pos hp'
          show p.table.getD p.pos 0 = e
          rw [hget]
          simpa [hlt] using this)
      simp only [PI.take, hnext]
      rw [key]
      simp only
      rw [List.drop_eq_getElem_cons hlt, hget, List.cons_append, List.take_succ_cons]
    · have hp : p.pos = p.table.length := by omega
      have hv := hval hp
      cases hsrc : p.src with
      | nil =>
        have hnext : (p.next f).out = .stop := by
          simp [PI.next, hlt, hs, hD, hsrc]
        simp only [PI.take]
        rw [hnext]
        simp [hp, curve]
      | cons t rest =>
        have hnext : p.next f =
            { out := .val ((stepTable f e t D).getD 0 0),
              pi := { p with table := stepTable f e t D, pos := 1, value := (stepTable f e t D).getD 0 0,
                             src := rest } } := by
          simp [PI.next, hlt, hs, hD, hsrc, hv]
        have hlen : (stepTable f e t D).length = D := stepTable_length f e t D
        have h0 : 0 < (stepTable f e t D).length := by rw [hlen]; exact Nat.pos_of_ne_zero hD
        have hget : (stepTable f e t D).getD 0 0 = (stepTable f e t D)[0] := by simp [List.getD, h0]
        have key := ih { p with table := stepTable f e t D, pos := 1, value := (stepTable f e t D).getD 0 0,
                                src := rest } t hs
          (by show 1 ≤ (stepTable f e t D).length; omega) (stepTable_getLast f hf1 e t hD)
          (by
            intro h1
            have h1' : 0 + 1 = (stepTable f e t D).length := h1
            have := getLast?_getElem _ t (stepTable_getLast f hf1 e t hD) 0 h1'
            show (stepTable f e t D).getD 0 0 = t
            rw [hget]
            simpa [h0] using this)
        simp only [PI.take, hnext]
        rw [key]
        simp only [hp, List.drop_length, List.nil_append, curve]
        rw [hget]
        conv_rhs => rw [← List.drop_zero (l := stepTable f e t D), List.drop_eq_getElem_cons h0]
        rw [List.cons_append, List.take_succ_cons]

/-! ### reading the trace -/

theorem trace_get {f : Rat → Rat} {pts : List Pt} {count n k : Nat} {o : Outcome}
    (h : (ref f (eff count pts))[k]? = some o) (hk : k < n) : (trace f pts count n)[k]? = some o := by
  rw [trace_eq_ref, List.getElem?_take]
  simp [hk, h]

theorem allMsgs_all_msg (f : Rat → Rat) : ∀ (P : List Pt) (o : Outcome), o ∈ allMsgs f P → ∃ m, o = .msg m := by
  intro P
  induction P with
  | nil => intro o h; simp [allMsgs] at h
  | cons a tl ih =>
    intro o h
    cases tl with
    | nil => simp [allMsgs] at h
    | cons b r =>
      rw [allMsgs_cons2, List.mem_append] at h
      rcases h with h | h
      · simp only [segMsgs, List.mem_map] at h
        obtain ⟨j, _, hj⟩ := h
        exact ⟨_, hj.symm⟩
      · exact ih o h

end IsobarV.Interp
