/-
C05 / C15 — an interpolating track that is updated or restarted begins a new interpolation (fix 5de958e).

`Track.start()` replaces the event stream and — since the fix — drops the interpolation segment in
progress and the event read ahead (`next_event = None`, `interpolating_event = PSequence([], 0)`).  In the
model of the interpolating branch of `Track.tick` (`Interp/Model.lean`) that is `Track.start`.  Theorem:
from the tick of the switch on, the track's outcomes are those of a NEW track of the new stream (same
event counters) — nothing of the old stream, whatever state the old interpolation was in.
-/
import IsobarV.Interp.Model

namespace IsobarV.Interp

/-- `Track.start(events)` on an interpolating track (after fix 5de958e). -/
def Track.start (t : Track) (pts : List Pt) : Track :=
  { t with stream := pts, nxt := none, seg := none }

/-- the state the interpolating `tick` reads: everything but `current_event` and `is_finished`, which it only writes. -/
def Sim (a b : Track) : Prop :=
  a.stream = b.stream ∧ a.count = b.count ∧ a.maxCount = b.maxCount ∧ a.nxt = b.nxt ∧ a.seg = b.seg

theorem Sim.refl (a : Track) : Sim a a := ⟨rfl, rfl, rfl, rfl, rfl⟩

theorem getNext_sim {a b : Track} (h : Sim a b) :
    (a.getNext = none ∧ b.getNext = none) ∨
    (∃ ga gb, a.getNext = some ga ∧ b.getNext = some gb ∧ ga.ev = gb.ev ∧ Sim ga.track gb.track) := by
  obtain ⟨h1, h2, h3, h4, h5⟩ := h
  unfold Track.getNext
  rw [← h1, ← h2, ← h3]
  split
  · exact Or.inl ⟨rfl, rfl⟩
  · split
    · exact Or.inl ⟨rfl, rfl⟩
    · right
      exact ⟨_, _, rfl, rfl, rfl, by simp_all [Sim]⟩

theorem emit_sim (f : Rat → Rat) {a b : Track} (s : Seg)
    (h : a.stream = b.stream ∧ a.count = b.count ∧ a.maxCount = b.maxCount ∧ a.nxt = b.nxt) :
    (emit f a s).out = (emit f b s).out ∧ Sim (emit f a s).track (emit f b s).track := by
  obtain ⟨h1, h2, h3, h4⟩ := h
  unfold emit
  dsimp only
  split <;> exact ⟨rfl, by simp_all [Sim]⟩

theorem setupFrom_sim (f : Rat → Rat) (first : Bool) (c : Pt) {a b : Track} (h : Sim a b) :
    (setupFrom f first c a).out = (setupFrom f first c b).out ∧
    Sim (setupFrom f first c a).track (setupFrom f first c b).track := by
  unfold setupFrom
  rcases getNext_sim h with ⟨ha, hb⟩ | ⟨ga, gb, ha, hb, hev, hs⟩
  · rw [ha, hb]
    obtain ⟨h1, h2, h3, _, h5⟩ := h
    exact ⟨rfl, by simp_all [Sim]⟩
  · rw [ha, hb]
    obtain ⟨s1, s2, s3, s4, s5⟩ := hs
    dsimp only
    rw [← s1, ← s2, ← s3, ← hev]
    split
    · exact ⟨rfl, by simp_all [Sim]⟩
    · split
      · exact ⟨rfl, by simp_all [Sim]⟩
      · split
        · exact emit_sim f _ (by simp_all)
        · split
          · exact emit_sim f _ (by simp_all)
          · exact ⟨rfl, by simp_all [Sim]⟩
          · exact ⟨rfl, by simp_all [Sim]⟩

theorem setup_sim (f : Rat → Rat) {a b : Track} (h : Sim a b) :
    (setup f a).out = (setup f b).out ∧ Sim (setup f a).track (setup f b).track := by
  unfold setup
  have h4 := h.2.2.2.1
  rw [← h4]
  split
  · exact setupFrom_sim f false _ h
  · rcases getNext_sim h with ⟨ha, hb⟩ | ⟨ga, gb, ha, hb, hev, hs⟩
    · rw [ha, hb]
      obtain ⟨h1, h2, h3, h4', h5⟩ := h
      exact ⟨rfl, by simp_all [Sim]⟩
    · rw [ha, hb]
      dsimp only
      rw [← hev]
      apply setupFrom_sim
      obtain ⟨s1, s2, s3, s4, s5⟩ := hs
      simp_all [Sim]

theorem tick_sim (f : Rat → Rat) {a b : Track} (h : Sim a b) :
    (tick f a).out = (tick f b).out ∧ Sim (tick f a).track (tick f b).track := by
  unfold tick
  have h5 := h.2.2.2.2
  rw [← h5]
  split
  · exact setup_sim f h
  · dsimp only
    obtain ⟨h1, h2, h3, h4, _⟩ := h
    split
    · exact ⟨rfl, by simp_all [Sim]⟩
    · exact ⟨rfl, by simp_all [Sim]⟩
    · exact setup_sim f (by simp_all [Sim])

theorem run_sim (f : Rat → Rat) (n : Nat) : ∀ {a b : Track}, Sim a b → run f n a = run f n b := by
  induction n with
  | zero => intro a b _; rfl
  | succ n ih =>
    intro a b h
    obtain ⟨ho, hs⟩ := tick_sim f h
    simp only [run]
    rw [ho]
    split
    · rw [ih hs]
    · rfl

/-- **From the tick of the switch on, only the new stream**: whatever the updated track was doing — in the
    middle of a segment, between two, finished — after `start(pts)` its outcomes, for any number of ticks,
    are those of a new track of `pts` with the same event counters. -/
theorem start_plays_only_the_new_stream (f : Rat → Rat) (t : Track) (pts : List Pt) (n : Nat) :
    run f n (t.start pts) = run f n { Track.fresh pts t.maxCount with count := t.count } :=
  run_sim f n ⟨rfl, rfl, rfl, rfl, rfl⟩

/-- … in particular the old segment and the old look-ahead event are irrelevant: two tracks that differ only in
    them behave alike after the same `start`. -/
theorem start_forgets_the_old_interpolation (f : Rat → Rat) (t : Track) (seg : Option Seg) (nxt cur : Option Pt)
    (pts : List Pt) (n : Nat) :
    run f n (({ t with seg := seg, nxt := nxt, cur := cur } : Track).start pts) = run f n (t.start pts) :=
  run_sim f n ⟨rfl, rfl, rfl, rfl, rfl⟩

end IsobarV.Interp
