/-
Interpolated control tracks (C15): the interpolating branch of `Track.tick` (isobar/timelines/track.py)
and `PInterpolate` (isobar/pattern/sequence.py), after the fix that rounds `duration * ticks_per_beat`
before truncating it.  Import-free, total, computable, over `Nat`/`Rat`/`List`.

What is mirrored (same state variables, same order of effects):

* `PInterpolate`: `value`, `step_values` (the step table), `pos`, the wrapped pattern (here: the list of
  values it still has to deliver) and `steps`; `reset` takes the first value, `__next__` replays the
  table and, when it is used up, pulls the next target and builds the table
  `value + (target - value) * f((n+1)/steps)`, `n = 0 … steps-1`.  The easing `f : Rat → Rat` is a
  PARAMETER: identity for `"linear"`, `x ↦ (1 - cos(πx))/2` for `"cosine"`, the step `x ↦ [x ≥ 1]` for
  `"none"`; a `steps` of zero drains the wrapped pattern (the code's `while vsteps == 0` loop).
* `Track.tick` with `interpolate != "none"`: `next(self.interpolating_event)`; on `StopIteration` the
  set-up of the next segment: first call pulls two events (`is_first_event`), later calls shift
  `next_event` into `current_event` and pull one; the loop that skips events of zero ticks; the
  type test (`InvalidEventException` unless both ends are control events); one `PInterpolate` over
  `[current[key], next[key]]` with `steps = duration in ticks` for every field whose value is an `int`
  or a `float`, every other field copied from the current event; the extra `next()` that discards the
  first value of every segment but the first; `get_next_event` with `max_event_count` (`count`);
  a `StopIteration` from any of these finishes the track.
* the event fields the output device sees: `control`, `value`, `channel` (`Msg`).

A control point is `Pt`: its duration is already a whole number of ticks (`Pt.dur`, the value of
`int(round(duration * ticks_per_beat, 8))`).
-/
namespace IsobarV.Interp

/-- an event field: `int`/`float` (these are interpolated) or anything else (`str`, `None`, `bool`,
    objects: these are passed through). -/
inductive Fld
  | num (r : Rat)
  | opq (s : String)
  deriving DecidableEq, Repr, Inhabited

/-- event type as classified by `Event.__init__`: a control event or anything else (note, action, …) -/
inductive Kind
  | control
  | other
  deriving DecidableEq, Repr, Inhabited

/-- one event of the track's stream = one control point -/
structure Pt where
  kind : Kind
  dur : Nat
  value : Rat
  control : Fld
  channel : Fld
  deriving DecidableEq, Repr, Inhabited

/-! ### PInterpolate -/

/-- `j / D` -/
def ratio (j D : Nat) : Rat := (j : Rat) / (D : Rat)

/-- `step_values`: `[value + dt * f((n+1)/vsteps) for n in range(vsteps)]`, `dt = target - value` -/
def stepTable (f : Rat → Rat) (v target : Rat) (D : Nat) : List Rat :=
  (List.range D).map fun n => v + (target - v) * f (ratio (n + 1) D)

structure PI where
  value : Rat
  table : List Rat
  pos : Nat
  src : List Rat
  steps : Nat
  deriving Repr, Inhabited

/-- `__init__`/`reset` once the first value has been taken from the pattern -/
def PI.start (first : Rat) (rest : List Rat) (steps : Nat) : PI :=
  { value := first, table := [first], pos := 0, src := rest, steps := steps }

/-- `PInterpolate(PSequence(src, 1), steps, mode)`; `none` = `StopIteration` out of the constructor -/
def PI.init : List Rat → Nat → Option PI
  | [], _ => none
  | a :: r, steps => some (PI.start a r steps)

inductive PIOut
  | val (r : Rat)
  | stop
  deriving Repr, Inhabited

structure PIStep where
  out : PIOut
  pi : PI
  deriving Repr, Inhabited

/-- `PInterpolate.__next__` -/
def PI.next (f : Rat → Rat) (p : PI) : PIStep :=
  if p.pos < p.table.length then
    let v := p.table.getD p.pos 0
    { out := .val v, pi := { p with value := v, pos := p.pos + 1 } }
  else if p.steps = 0 then
    -- `while vsteps == 0: self.value = next(self.pattern)`: runs a finite pattern dry
    { out := .stop, pi := { p with value := p.src.getLast?.getD p.value, src := [] } }
  else
    match p.src with
    | [] => { out := .stop, pi := p }
    | target :: rest =>
      let tb := stepTable f p.value target p.steps
      let v := tb.getD 0 0
      { out := .val v, pi := { p with table := tb, pos := 1, value := v, src := rest } }

/-- `nextn`-style unrolling (used by the driver and by examples) -/
def PI.take (f : Rat → Rat) : Nat → PI → List Rat
  | 0, _ => []
  | n + 1, p =>
    let r := p.next f
    match r.out with
    | .val v => v :: PI.take f n r.pi
    | .stop => []

/-! ### one field of the interpolating event -/

/-- what `interpolating_event_fields[key]` is: a constant, a `PInterpolate` over two numbers, or a
    `PInterpolate` whose second value is not a number (`target - self.value` raises `TypeError` on the
    second `next`). -/
inductive FI
  | const (v : Fld)
  | interp (p : PI)
  | bad (a : Rat) (fresh : Bool)
  deriving Repr, Inhabited

inductive FOut
  | val (v : Fld)
  | stop
  | typeError
  deriving Repr, Inhabited

structure FStep where
  out : FOut
  fi : FI
  deriving Repr, Inhabited

def FI.next (f : Rat → Rat) : FI → FStep
  | .const v => { out := .val v, fi := .const v }
  | .interp p =>
    let r := p.next f
    match r.out with
    | .val x => { out := .val (.num x), fi := .interp r.pi }
    | .stop => { out := .stop, fi := .interp r.pi }
  | .bad a true => { out := .val (.num a), fi := .bad a false }
  | .bad a false => { out := .typeError, fi := .bad a false }

/-- the per-key rule of `Track.tick`: `type(value) is float or int` → `PInterpolate`, else copy -/
def mkFI (x y : Fld) (D : Nat) : FI :=
  match x, y with
  | .opq s, _ => .const (.opq s)
  | .num a, .num b => .interp (PI.start a [b] D)
  | .num a, .opq _ => .bad a true

/-! ### the interpolating event (a `PDict`) and the messages it yields -/

structure Seg where
  control : FI
  value : PI
  channel : FI
  deriving Repr, Inhabited

/-- what `OutputDevice.control(control, value, channel)` receives -/
structure Msg where
  control : Fld
  value : Rat
  channel : Fld
  deriving DecidableEq, Repr, Inhabited

inductive SegOut
  | msg (m : Msg)
  | stop
  | typeError
  deriving Repr, Inhabited

structure SegStep where
  out : SegOut
  seg : Seg
  deriving Repr, Inhabited

/-- `PDict.__next__`: the fields are evaluated in dict order (control, value, channel); the first one
    to raise ends the evaluation. -/
def Seg.next (f : Rat → Rat) (s : Seg) : SegStep :=
  let c := s.control.next f
  match c.out with
  | .stop => { out := .stop, seg := { s with control := c.fi } }
  | .typeError => { out := .typeError, seg := { s with control := c.fi } }
  | .val cv =>
    let v := s.value.next f
    match v.out with
    | .stop => { out := .stop, seg := { s with control := c.fi, value := v.pi } }
    | .val vv =>
      let h := s.channel.next f
      match h.out with
      | .stop => { out := .stop, seg := { control := c.fi, value := v.pi, channel := h.fi } }
      | .typeError => { out := .typeError, seg := { control := c.fi, value := v.pi, channel := h.fi } }
      | .val hv => { out := .msg { control := cv, value := vv, channel := hv },
                     seg := { control := c.fi, value := v.pi, channel := h.fi } }

/-- the `PDict` built for the segment from `c` to `n` -/
def buildSeg (c n : Pt) : Seg :=
  { control := mkFI c.control n.control c.dur,
    value := PI.start c.value [n.value] c.dur,
    channel := mkFI c.channel n.channel c.dur }

/-! ### the track -/

structure Track where
  stream : List Pt                -- what `event_stream` still has to deliver
  count : Nat := 0                -- `current_event_count`
  maxCount : Nat := 0             -- `max_event_count`; 0 = `None` or 0 = no limit
  cur : Option Pt := none         -- `current_event`
  nxt : Option Pt := none         -- `next_event`
  seg : Option Seg := none        -- `interpolating_event`; `none` = the initial `PSequence([], 0)`
  finished : Bool := false        -- `is_finished`
  deriving Repr, Inhabited

/-- a track as `Timeline.schedule(events, interpolate=mode, count=c)` starts it -/
def Track.fresh (pts : List Pt) (count : Nat) : Track := { stream := pts, maxCount := count }

/-- the `max_event_count` test of `get_next_event` -/
def limitReached (maxCount count : Nat) : Bool := maxCount ≠ 0 && maxCount ≤ count

structure GetResult where
  ev : Pt
  track : Track
  deriving Repr, Inhabited

/-- `get_next_event`; `none` = `StopIteration` -/
def Track.getNext (t : Track) : Option GetResult :=
  if limitReached t.maxCount t.count then none
  else
    match t.stream with
    | [] => none
    | e :: r => some { ev := e, track := { t with stream := r, count := t.count + 1 } }

inductive Outcome
  | msg (m : Msg)          -- one `control()` call
  | finished               -- `StopIteration` inside `tick`: the track is finished (and removed), no call
  | rejected               -- `InvalidEventException("Interpolation is only valid for control event")`
  | typeError              -- a numeric field followed by a non-numeric one
  deriving DecidableEq, Repr, Inhabited

structure TickResult where
  out : Outcome
  track : Track
  deriving Repr, Inhabited

structure SkipResult where
  found : Bool            -- false = `get_next_event` raised `StopIteration` inside the loop
  cur : Pt
  nxt : Pt
  stream : List Pt
  count : Nat
  deriving Repr, Inhabited

/-- `while ticks(current_event.duration) <= 0: current_event = next_event; next_event = get_next_event()`
    (`get_next_event` inlined so that the recursion is structural in the stream). -/
def skipZero (maxCount : Nat) : List Pt → Nat → Pt → Pt → SkipResult
  | [], count, cur, nxt =>
    if cur.dur ≠ 0 then { found := true, cur := cur, nxt := nxt, stream := [], count := count }
    else { found := false, cur := nxt, nxt := nxt, stream := [], count := count }
  | e :: r, count, cur, nxt =>
    if cur.dur ≠ 0 then { found := true, cur := cur, nxt := nxt, stream := e :: r, count := count }
    else if limitReached maxCount count then
      { found := false, cur := nxt, nxt := nxt, stream := e :: r, count := count }
    else skipZero maxCount r (count + 1) nxt e

/-- the tail of the set-up: `Event(next(self.interpolating_event))` + `perform_event` -/
def emit (f : Rat → Rat) (t : Track) (s : Seg) : TickResult :=
  let r := s.next f
  match r.out with
  | .msg m => { out := .msg m, track := { t with seg := some r.seg } }
  | .stop => { out := .finished, track := { t with seg := some r.seg, finished := true } }
  | .typeError => { out := .typeError, track := { t with seg := some r.seg } }

/-- with `current_event = c` about to be assigned from `next_event` and `t` the state before
    `self.next_event = self.get_next_event()` -/
def setupFrom (f : Rat → Rat) (first : Bool) (c : Pt) (t : Track) : TickResult :=
  match t.getNext with
  | none => { out := .finished, track := { t with cur := some c, nxt := some c, finished := true } }
  | some g =>
    let sk := skipZero g.track.maxCount g.track.stream g.track.count c g.ev
    let t2 : Track := { g.track with cur := some sk.cur, nxt := some sk.nxt, stream := sk.stream, count := sk.count }
    if !sk.found then { out := .finished, track := { t2 with finished := true } }
    else if sk.cur.kind ≠ .control ∨ sk.nxt.kind ≠ .control then { out := .rejected, track := t2 }
    else
      let sg := buildSeg sk.cur sk.nxt
      if first then emit f t2 sg
      else
        -- `if not is_first_event: next(self.interpolating_event)`
        let d := sg.next f
        match d.out with
        | .msg _ => emit f t2 d.seg
        | .stop => { out := .finished, track := { t2 with seg := some d.seg, finished := true } }
        | .typeError => { out := .typeError, track := { t2 with seg := some d.seg } }

/-- the `except StopIteration:` branch of the interpolating `tick` -/
def setup (f : Rat → Rat) (t : Track) : TickResult :=
  match t.nxt with
  | some n => setupFrom f false n t
  | none =>
    match t.getNext with
    | none => { out := .finished, track := { t with finished := true } }
    | some g => setupFrom f true g.ev { g.track with nxt := some g.ev }

/-- `Track.tick`, interpolating branch -/
def tick (f : Rat → Rat) (t : Track) : TickResult :=
  match t.seg with
  | none => setup f t
  | some s =>
    let r := s.next f
    match r.out with
    | .msg m => { out := .msg m, track := { t with seg := some r.seg } }
    | .typeError => { out := .typeError, track := { t with seg := some r.seg } }
    | .stop => setup f { t with seg := some r.seg }

def Outcome.isMsg : Outcome → Bool
  | .msg _ => true
  | _ => false

/-- up to `n` consecutive ticks: one outcome per tick; nothing follows the tick in which the track
    finishes (the timeline removes it) or raises (the exception leaves `Timeline.tick`, or the track is
    removed under `ignore_exceptions`). -/
def run (f : Rat → Rat) : Nat → Track → List Outcome
  | 0, _ => []
  | n + 1, t =>
    let r := tick f t
    r.out :: (if r.out.isMsg then run f n r.track else [])

/-- `Timeline.schedule(stream, interpolate=mode, count=count)` followed by `n` ticks from the tick the
    track starts in (entry `k` of the result is tick `n₀ + k`). -/
def trace (f : Rat → Rat) (pts : List Pt) (count n : Nat) : List Outcome :=
  run f n (Track.fresh pts count)

/-! ### the easings that need no transcendental function -/

/-- `"linear"` -/
def linear (x : Rat) : Rat := x

/-- `"none"` inside `PInterpolate`: hold the old value, jump on the last step -/
def hold (x : Rat) : Rat := if x < 1 then 0 else 1

end IsobarV.Interp
