/-
Line-protocol driver for the event model (suite `event`, property C03).  Glue only: no theorem refers to it.

One output line per input line.  Words are separated by single spaces; a value is one word.

  atoms    N | T | F | i<int> | f<num>/<den> (a float, exact) | s<text> (`~` stands for a space)
           K<tonic>:<octave size>:<s0>.<s1>...  (a Key object)     L<id>:<0|1 has **kwargs>:<p1>.<p2>...  (a callable)
           O<id>:<s|t|p>  (an object: PatchSpec-like / with trigger node / plain)     P<id>  (a Pattern object)
  values   atom | (a,b,...) tuple | [a,b,...] list | {k=a,k=a,...} dict

  reset                         forget patterns, cursors and timeline defaults                      -> ok
  pat <id> <atom> <atom> ...    pattern object <id> yields these values cyclically                   -> ok
  default <name> <value>        timeline.defaults.<name> = value                                     -> ok | rejected ValueError
  event <k>=<value> ...         the next event dictionary of the track (keys in insertion order)      -> outcome
  table                         the generated tables                                                 -> table ...

  outcome  rejected <Exception>
           skipped <duration>
           performed <duration> <Exception|-> <call> <call> ...
  calls    on(note,amp,channel) off(beats,note,channel) bend(value,channel) cc(control,value,channel) pc(program,channel)
           send(address,params) create(name,params) act(fn,{args}) patch(patch,{params},note|-,output)
           setin(patch,name,value) setfreq(patch,note) trig(patch,name,value)
-/
import IsobarV.Event.Model
import IsobarV.Util.Parse

namespace IsobarV.Event.Drv
open IsobarV.Event IsobarV.Util

def splitFirst (s : String) (c : Char) : String × String :=
  let cs := s.toList
  (String.ofList (cs.takeWhile (· != c)), String.ofList ((cs.dropWhile (· != c)).drop 1))

def tail1 (s : String) : String := String.ofList (s.toList.drop 1)

def inner (s : String) : String := String.ofList ((s.toList.drop 1).dropLast)

def splitNonEmpty (s : String) (sep : String) : List String := (s.splitOn sep).filter (· ≠ "")

def parseAtom (w : String) : Atom :=
  match w.toList with
  | ['N'] => .none
  | ['T'] => .bool true
  | ['F'] => .bool false
  | 'i' :: _ => .int (toInt! (tail1 w))
  | 'f' :: _ =>
    let (n, d) := splitFirst (tail1 w) '/'
    .flt (mkRat (toInt! n) (toNat! d))
  | 's' :: _ => .str ((tail1 w).replace "~" " ")
  | 'K' :: _ =>
    match (tail1 w).splitOn ":" with
    | [t, o, sems] => .key { tonic := toInt! t, scale := { semitones := (splitNonEmpty sems ".").map toInt!, octave := toInt! o } }
    | _ => .none
  | 'L' :: _ =>
    match (tail1 w).splitOn ":" with
    | [id, kw, ps] => .fn (toNat! id) (splitNonEmpty ps ".") (kw == "1")
    | _ => .none
  | 'O' :: _ =>
    match (tail1 w).splitOn ":" with
    | [id, k] => .obj (toNat! id) (if k == "s" then .spec else if k == "t" then .trig else .plain)
    | _ => .none
  | 'P' :: _ => .pat (toNat! (tail1 w))
  | _ => .none

def parseVal (w : String) : Val :=
  match w.toList with
  | '(' :: _ => .tup ((splitNonEmpty (inner w) ",").map parseAtom)
  | '[' :: _ => .list ((splitNonEmpty (inner w) ",").map parseAtom)
  | '{' :: _ => .dict ((splitNonEmpty (inner w) ",").map fun kv => let (k, v) := splitFirst kv '='; (k, parseAtom v))
  | _ => .a (parseAtom w)

def showRat (r : Rat) : String := s!"{r.num}/{r.den}"

def showAtom : Atom → String
  | .none => "N"
  | .bool true => "T"
  | .bool false => "F"
  | .int i => s!"i{i}"
  | .flt r => "f" ++ showRat r
  | .str s => "s" ++ s.replace " " "~"
  | .key k => s!"K{k.tonic}:{k.scale.octave}:" ++ joinWith "." (k.scale.semitones.map toString)
  | .fn id ps kw => s!"L{id}:{if kw then "1" else "0"}:" ++ joinWith "." ps
  | .obj id k => s!"O{id}:" ++ (match k with | .spec => "s" | .trig => "t" | .plain => "p")
  | .pat id => s!"P{id}"

def showKvs (kvs : List (String × Atom)) : String :=
  "{" ++ joinWith "," (kvs.map fun kv => kv.1 ++ "=" ++ showAtom kv.2) ++ "}"

def showVal : Val → String
  | .a x => showAtom x
  | .tup xs => "(" ++ joinWith "," (xs.map showAtom) ++ ")"
  | .list xs => "[" ++ joinWith "," (xs.map showAtom) ++ "]"
  | .dict kvs => showKvs kvs

def showErr : Err → String
  | .valueError => "ValueError"
  | .typeError => "TypeError"
  | .keyError => "KeyError"
  | .indexError => "IndexError"
  | .attributeError => "AttributeError"
  | .zeroDivisionError => "ZeroDivisionError"
  | .unboundLocalError => "UnboundLocalError"
  | .invalidEventException => "InvalidEventException"
  | .unknownNoteName => "UnknownNoteName"
  | .unknownScaleName => "UnknownScaleName"
  | .outOfModel => "OutOfModel"

def showCall : Call → String
  | .noteOn n a c => s!"on({showVal n},{showVal a},{showVal c})"
  | .noteOffAfter b n c => s!"off({showVal b},{showVal n},{showVal c})"
  | .pitchBend v c => s!"bend({showVal v},{showVal c})"
  | .control c v ch => s!"cc({showVal c},{showVal v},{showVal ch})"
  | .programChange p ch => s!"pc({showVal p},{showVal ch})"
  | .send a p => s!"send({showVal a},{showVal p})"
  | .create n p => s!"create({showVal n},{showVal p})"
  | .action f args => s!"act({showVal f},{showKvs args})"
  | .createPatch p kvs fr out => s!"patch({showVal p},{showKvs kvs},{match fr with | some n => showVal n | none => "-"},{showVal out})"
  | .setInput p k v => s!"setin({showVal p},{k},{showAtom v})"
  | .setFrequency p n => s!"setfreq({showVal p},{showVal n})"
  | .trigger p n v => s!"trig({showVal p},{showVal n},{showVal v})"

def showOutcome : Outcome → String
  | .rejected e => "rejected " ++ showErr e
  | .skipped d => "skipped f" ++ showRat d
  | .performed d p =>
    joinWith " " (["performed", "f" ++ showRat d, match p.err with | some e => showErr e | none => "-"] ++ p.calls.map showCall)

def showGVal : Generated.GVal → String
  | .none => "N"
  | .bool b => if b then "T" else "F"
  | .int i => s!"i{i}"
  | .flt n d => "f" ++ showRat (mkRat n d)
  | .str s => "s" ++ s.replace " " "~"
  | .key t sem o => s!"K{t}:{o}:" ++ joinWith "." (sem.map toString)
  | .other n => "?" ++ n

def tableLine : String :=
  "table " ++ joinWith "," Generated.allEventParameters
    ++ " # " ++ joinWith "," (Generated.eventDefaults.map fun kv => kv.1 ++ "=" ++ showGVal kv.2)
    ++ " # " ++ joinWith "," (Generated.eventConstants.map fun kv => kv.1 ++ "=" ++ showGVal kv.2)

structure St where
  pats : List (Nat × List Atom) := []
  cursor : List (Nat × Nat) := []
  overrides : Dict := []

def envOf (pats : List (Nat × List Atom)) : PatEnv := fun id i =>
  match pats.lookup id with
  | some xs => xs.getD (i % xs.length) .none
  | none => .none

def cursorOf (c : List (Nat × Nat)) : Cursor := fun id => (c.lookup id).getD 0

def answer (st : St) (ws : List String) : St × String :=
  match ws with
  | ["reset"] => ({}, "ok")
  | ["table"] => (st, tableLine)
  | "pat" :: id :: vals => ({ st with pats := (toNat! id, vals.map parseAtom) :: st.pats }, "ok")
  | ["default", name, v] =>
    match setTimelineDefault st.overrides name (parseVal v) with
    | .ok ov => ({ st with overrides := ov }, "ok")
    | .error e => (st, "rejected " ++ showErr e)
  | "event" :: kvs =>
    let d : Dict := kvs.map fun kv => let (k, v) := splitFirst kv '='; (k, parseVal v)
    let (out, cur) := trackEvent (envOf st.pats) (cursorOf st.cursor) d st.overrides
    ({ st with cursor := st.pats.map fun p => (p.1, cur p.1) }, showOutcome out)
  | _ => (st, "?")

def main : IO Unit := do
  let stdin ← IO.getStdin
  let stdout ← IO.getStdout
  let _ ← foldLines stdin ({} : St) fun st line => do
    let (st', out) := answer st (words line)
    stdout.putStrLn out
    return st'
  stdout.flush

end IsobarV.Event.Drv
