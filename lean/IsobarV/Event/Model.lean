/-
Executable model of how an event dictionary becomes device messages (property C03).

Mirrors, statement by statement,
  isobar/timelines/event.py   Event.__init__          -> `resolve` (pure) / `eventInit` (with `Pattern.value` pulls)
  isobar/timelines/track.py   Track.tick (the `float(duration)` step), Track.perform_event  -> `trackEvent`, `perform`
                              (after fix C03-01: a callable with **kwargs accepts any named argument)
  isobar/key.py               Key.__init__ for a string ("C# minor")                          -> `parseKey`
and uses isobar/key.py Key.get, isobar/scale.py Scale.get, isobar/util.py note_name_to_midi_note from the
tonal model (C13) and the tables generated from isobar/constants.py / EventDefaults.default_values.

Value universe: `None`, bools, ints, floats (carried as exact rationals), strings, `Key` objects, callables
(with the parameter names `inspect.signature` reports), opaque objects (SignalFlow-like patches), `Pattern`
objects (only meaningful as a timeline default or as a value of the `args` dictionary), flat tuples / lists of
those, and flat dictionaries (`args`, `params`).  Where Python's behaviour on a value would depend on things
outside this universe (iterating a string, `int("12")`, an object with its own operators, a Pattern met
where a number is expected) the model answers `outOfModel`; the harness never generates those inputs and
no theorem says anything about them.

An event dictionary is an association list in insertion order (Python `dict`).
No imports besides model files (this file is linked into the compiled driver).
-/
import IsobarV.Generated.Tables
import IsobarV.Tonal.Model

namespace IsobarV.Event
open IsobarV.Tonal (Key Scale)

/-! ### values -/

/-- what `Event.__init__` can find out about the object given as `patch`. -/
inductive ObjKind where
  | spec     -- `type(patch).__name__ == "PatchSpec" or isinstance(patch, type)`
  | trig     -- has a `trigger_node` that is not None
  | plain    -- anything else
  deriving DecidableEq, Repr, Inhabited

inductive Atom where
  | none
  | bool (b : Bool)
  | int (i : Int)
  | flt (r : Rat)                                   -- a Python float, exact
  | str (s : String)
  | key (k : Key)                                   -- an `isobar.Key`
  | fn (id : Nat) (params : List String) (varkw : Bool)   -- a callable: names in `inspect.signature(fn).parameters`, has `**kwargs`
  | obj (id : Nat) (kind : ObjKind)                 -- an opaque object (patch)
  | pat (id : Nat)                                  -- a `Pattern` object
  deriving DecidableEq, Repr, Inhabited

inductive Val where
  | a (x : Atom)
  | tup (xs : List Atom)
  | list (xs : List Atom)
  | dict (kvs : List (String × Atom))
  deriving DecidableEq, Repr, Inhabited

namespace Val
@[match_pattern] def none : Val := .a .none
@[match_pattern] def int (i : Int) : Val := .a (.int i)
@[match_pattern] def flt (r : Rat) : Val := .a (.flt r)
@[match_pattern] def bool (b : Bool) : Val := .a (.bool b)
@[match_pattern] def str (s : String) : Val := .a (.str s)
end Val

/-- exception classes (`outOfModel`: outside the value universe, see the header). -/
inductive Err where
  | valueError | typeError | keyError | indexError | attributeError | zeroDivisionError | unboundLocalError
  | invalidEventException | unknownNoteName | unknownScaleName
  | outOfModel
  deriving DecidableEq, Repr, Inhabited

/-! ### Python dict -/

abbrev Dict := List (String × Val)

namespace Dict

/-- `d.get(k)` / `d[k]` -/
def get : Dict → String → Option Val
  | [], _ => Option.none
  | (k', v) :: rest, k => if k' = k then some v else get rest k

/-- `k in d` -/
def contains (d : Dict) (k : String) : Bool := (d.get k).isSome

/-- `d[k] = v`: an existing key keeps its position, a new key is appended. -/
def set : Dict → String → Val → Dict
  | [], k, v => [(k, v)]
  | (k', v') :: rest, k, v => if k' = k then (k, v) :: rest else (k', v') :: set rest k v

/-- `d.setdefault(k, v)` -/
def setDefault (d : Dict) (k : String) (v : Val) : Dict := if d.contains k then d else d ++ [(k, v)]

/-- `d[k]`, raising `KeyError`. -/
def need (d : Dict) (k : String) : Except Err Val :=
  match d.get k with
  | some v => .ok v
  | Option.none => .error .keyError

end Dict

/-! ### CPython coercions and operators on the universe -/

/-- a Python number: `int` or `float`. -/
inductive Num where
  | int (i : Int)
  | flt (r : Rat)
  deriving DecidableEq, Repr, Inhabited

namespace Num
def toRat : Num → Rat
  | .int i => (i : Rat)
  | .flt r => r
def toAtom : Num → Atom
  | .int i => .int i
  | .flt r => .flt r
/-- `a + b` -/
def add : Num → Num → Num
  | .int a, .int b => .int (a + b)
  | a, b => .flt (a.toRat + b.toRat)
/-- `a * b` -/
def mul : Num → Num → Num
  | .int a, .int b => .int (a * b)
  | a, b => .flt (a.toRat * b.toRat)
end Num

/-- the numeric reading of an atom (`bool` is a subclass of `int`). -/
def Atom.num? : Atom → Option Num
  | .int i => some (.int i)
  | .flt r => some (.flt r)
  | .bool b => some (.int (if b then 1 else 0))
  | _ => Option.none

/-- `int(x)` on a float: truncation towards zero. -/
def truncRat (r : Rat) : Int := if 0 ≤ r then r.floor else r.ceil

/-- `int(x)` -/
def pyIntAtom : Atom → Except Err Int
  | .int i => .ok i
  | .flt r => .ok (truncRat r)
  | .bool b => .ok (if b then 1 else 0)
  | .none => .error .typeError
  | .key _ => .error .typeError
  | .fn _ _ _ => .error .typeError
  | .str _ => .error .outOfModel        -- `int("12")` is 12, `int("x")` a ValueError
  | .obj _ _ => .error .outOfModel
  | .pat _ => .error .outOfModel

def pyInt : Val → Except Err Int
  | .a x => pyIntAtom x
  | .tup _ => .error .typeError
  | .list _ => .error .typeError
  | .dict _ => .error .typeError

/-- `float(x)` as done by `Track.tick` on the duration. -/
def pyFloat : Val → Except Err Rat
  | .a (.int i) => .ok (i : Rat)
  | .a (.flt r) => .ok r
  | .a (.bool b) => .ok (if b then 1 else 0)
  | .a .none => .error .typeError
  | .a (.key _) => .error .typeError
  | .a (.fn _ _ _) => .error .typeError
  | .a (.str _) => .error .outOfModel
  | .a (.obj _ _) => .error .outOfModel
  | .a (.pat _) => .error .outOfModel       -- PConstant defines __float__
  | .tup _ => .error .typeError
  | .list _ => .error .typeError
  | .dict _ => .error .typeError

/-- `x > 0` -/
def gtZero : Val → Except Err Bool
  | .a (.int i) => .ok (decide (0 < i))
  | .a (.flt r) => .ok (decide (0 < r))
  | .a (.bool b) => .ok b
  | .a .none => .error .typeError
  | .a (.str _) => .error .typeError
  | .a (.key _) => .error .typeError
  | .a (.fn _ _ _) => .error .typeError
  | .a (.obj _ _) => .error .outOfModel
  | .a (.pat _) => .error .outOfModel       -- Pattern.__gt__ builds a pattern
  | .tup _ => .error .typeError
  | .list _ => .error .typeError
  | .dict _ => .error .typeError

/-- truthiness (`if not x`). -/
def truthy : Val → Bool
  | .a .none => false
  | .a (.bool b) => b
  | .a (.int i) => i != 0
  | .a (.flt r) => r != 0
  | .a (.str s) => s != ""
  | .a _ => true
  | .tup xs => !xs.isEmpty
  | .list xs => !xs.isEmpty
  | .dict kvs => !kvs.isEmpty

/-- does the model know how Python iterates / refuses to iterate this scalar?  (`for x in v`) -/
def Atom.iterOOM : Atom → Bool
  | .str _ | .key _ | .obj _ _ | .pat _ => true     -- str iterates characters, Key iterates through __getitem__ for ever
  | _ => false

/-- is the value outside the universe of `int()`? -/
def Atom.intOOM : Atom → Bool
  | .str _ | .obj _ _ | .pat _ => true
  | _ => false

def Val.intOOM : Val → Bool
  | .a x => x.intOOM
  | _ => false

/-! ### keys given by name: `Key("C# minor")` -/

/-- position of a name in the generated `Scale.dict` (names as character lists: the kernel can evaluate this). -/
def scaleIndex (name : List Char) : List (List Char) → Nat → Option Nat
  | [], _ => Option.none
  | n :: rest, i => if n = name then some i else scaleIndex name rest (i + 1)

/-- `Scale.byname(name)` on the generated `Scale.dict`. -/
def scaleByName (name : List Char) : Option Scale :=
  match scaleIndex name Generated.scaleNameChars 0 with
  | Option.none => Option.none
  | some i => (Generated.scaleTable[i]?).map fun r => { semitones := r.semitones, octave := r.octave }

/-- `Scale.major`, the default `scale` argument of `Key.__init__`. -/
def scaleMajor : Scale := (scaleByName ['m', 'a', 'j', 'o', 'r']).getD { semitones := [0, 2, 4, 5, 7, 9, 11], octave := 12 }

def noteNameErr : Tonal.NameRes → Except Err Int
  | .ok n => .ok n
  | .unknownNoteName => .error .unknownNoteName
  | .indexError => .error .indexError

/-- Python `s.split(" ")` on a character list. -/
def splitSpaces : List Char → List (List Char)
  | [] => [[]]
  | c :: cs =>
    if c = ' ' then [] :: splitSpaces cs
    else match splitSpaces cs with
      | [] => [[c]]
      | w :: ws => (c :: w) :: ws

/-- `Key(s)` for a string `s` (as a character list): `"<note name> <scale name>"` or `"<note name>"` (major). -/
def parseKey (s : List Char) : Except Err Key :=
  if s.contains ' ' then
    match splitSpaces s with
    | [tonicStr, scaleStr] => do
      let tonic ← noteNameErr (Tonal.noteNameToMidiNote tonicStr)
      match scaleByName scaleStr with
      | some sc => .ok { tonic := tonic, scale := sc }
      | Option.none => .error .unknownScaleName
    | _ => .error .valueError                       -- tuple unpacking of `tonic.split(" ")`
  else do
    let tonic ← noteNameErr (Tonal.noteNameToMidiNote s)
    .ok { tonic := tonic, scale := scaleMajor }

/-- the object that is indexed by the degree. -/
inductive KeyRef where
  | key (k : Key)
  | notSubscriptable                                 -- None, a number, a callable: indexing it is a TypeError
  deriving DecidableEq, Repr

/-- `key = event_values["key"]; if isinstance(key, str): key = Key(key)` -/
def resolveKey : Val → Except Err KeyRef
  | .a (.key k) => .ok (.key k)
  | .a (.str s) => (parseKey s.toList).map .key
  | .a .none => .ok .notSubscriptable
  | .a (.bool _) => .ok .notSubscriptable
  | .a (.int _) => .ok .notSubscriptable
  | .a (.flt _) => .ok .notSubscriptable
  | .a (.fn _ _ _) => .ok .notSubscriptable
  | _ => .error .outOfModel                          -- sequences / dicts / objects are subscriptable in their own way

/-- `key[degree]` for an integer degree (`Scale.get` divides by the number of semitones). -/
def keyGet (k : Key) (d : Int) : Except Err Int :=
  if k.scale.semitones.isEmpty then .error .zeroDivisionError else .ok (k.get d)

/-! ### `Event.__init__`, pure part -/

/-- the degree after `[int(d) for d in degree]` / `int(degree)`. -/
inductive Deg where
  | one (d : Int)
  | chord (ds : List Int)
  deriving DecidableEq, Repr

/-- `try: degree = [int(degree) for degree in degree]  except: degree = int(degree)` (degree is not None). -/
def degreeInts : Val → Except Err Deg
  | .tup xs | .list xs =>
    if xs.any Atom.intOOM then .error .outOfModel
    else match xs.mapM pyIntAtom with
      | .ok ds => .ok (.chord ds)
      | .error _ => .error .typeError               -- bare except, then `int(<tuple>)`
  | .dict _ => .error .outOfModel
  | .a x =>
    if x.iterOOM then .error .outOfModel
    else (pyIntAtom x).map .one

/-- `try: [key[n] for n in degree]  except TypeError: key[degree]`  (nothing is indexed for an empty chord) -/
def keyLookup : KeyRef → Deg → Except Err Val
  | .key k, .one d => (keyGet k d).map Val.int
  | .key k, .chord ds => (ds.mapM (keyGet k)).map fun ns => Val.list (ns.map Atom.int)
  | .notSubscriptable, .chord [] => .ok (.list [])
  | .notSubscriptable, _ => .error .typeError

/-- the `if EVENT_DEGREE in event_values:` block. -/
def degreeStage (d : Dict) : Except Err Dict :=
  match d.get "degree" with
  | Option.none => .ok d
  | some deg =>
    if deg = .none then .ok (d.set "note" .none)
    else do
      let ds ← degreeInts deg
      let keyVal ← d.need "key"
      let k ← resolveKey keyVal
      let note ← keyLookup k ds
      .ok (d.set "note" note)

/-- `int(event_values[EVENT_OCTAVE]) * 12 + int(event_values[EVENT_TRANSPOSE])` -/
def shiftAmount (octave transpose : Val) : Except Err Int :=
  if octave.intOOM || transpose.intOOM then .error .outOfModel
  else do
    let o ← pyInt octave
    let t ← pyInt transpose
    .ok (o * 12 + t)

/-- the `else:` branch of the note block: add octave and transpose to a note or to every note of a chord.
    A chord becomes a list of ints (`int(note) + ...`), a scalar keeps its type (`note += ...`).
    A `TypeError` inside the comprehension falls through to `+=`, which is again a `TypeError`. -/
def shiftNote (note octave transpose : Val) : Except Err Val :=
  match note with
  | .tup xs | .list xs =>
    if xs.isEmpty then .ok (.list [])               -- nothing is evaluated for an empty chord
    else if xs.any Atom.intOOM then .error .outOfModel
    else do
      let s ← shiftAmount octave transpose
      match xs.mapM pyIntAtom with
      | .ok ns => .ok (.list (ns.map fun n => Atom.int (n + s)))
      | .error _ => .error .typeError
  | .dict _ => .error .outOfModel
  | .a x =>
    if x.iterOOM then .error .outOfModel
    else do
      let s ← shiftAmount octave transpose
      match x.num? with
      | some n => .ok (.a (Num.add n (.int s)).toAtom)
      | Option.none => .error .typeError            -- None is handled before; a callable `+= int`

/-- the `if EVENT_NOTE in event_values:` block (rest, or octave / transpose). -/
def noteStage (d : Dict) : Except Err Dict :=
  match d.get "note" with
  | Option.none => .ok d
  | some n =>
    if n = .none then .ok (((d.set "note" (.int 0)).set "amplitude" (.int 0)).set "gate" (.int 0))
    else do
      let octave ← d.need "octave"
      let transpose ← d.need "transpose"
      let n' ← shiftNote n octave transpose
      .ok (d.set "note" n')

/-- type-specific attributes of an `Event`. -/
inductive Payload where
  | action (fn : Val) (args : List (String × Atom))
  | patch (type : Val) (patch output params : Val) (note : Option Val) (triggerName triggerValue : Val)
  | control (control value channel : Val)
  | program (program channel : Val)
  | osc (address params : Val)
  | synth (name params : Val)
  | note (note amplitude gate channel pitchbend : Val)
  deriving DecidableEq, Repr, Inhabited

/-- the attributes `perform_event` reads. -/
structure Event where
  payload : Payload
  duration : Val
  active : Val
  deriving DecidableEq, Repr, Inhabited

/-- the type of a patch event when no `type` key is given. -/
def patchType : Val → Val
  | .a (.obj _ .spec) => .str "patch"
  | .a (.obj _ .trig) => .str "trigger"
  | _ => .str "set"

/-- `list(event_values[EVENT_OSC_PARAMS])` after the `Iterable` test. -/
def oscParams : Val → Except Err Val
  | .tup xs | .list xs => .ok (.list xs)
  | .dict kvs => .ok (.list (kvs.map fun kv => Atom.str kv.1))
  | .a (.str s) => .ok (.list (s.toList.map fun c => Atom.str (String.singleton c)))
  | .a (.pat _) => .error .outOfModel
  | .a (.obj _ _) => .error .outOfModel
  | .a _ => .error .valueError                      -- "OSC params must be an iterable"

/-- the classification chain with the attributes each branch stores.  The values of `args` are kept as
    they are here; `eventInit` applies `Pattern.value` to them. -/
def classifyPayload (d : Dict) : Except Err Payload :=
  if d.contains "action" then do
    let fn ← d.need "action"
    match d.get "args" with
    | Option.none => .ok (.action fn [])
    | some (.dict kvs) => .ok (.action fn kvs)
    | some (.a (.obj _ _)) | some (.a (.pat _)) => .error .outOfModel
    | some _ => .error .attributeError             -- `.items()` of something that is not a dict
  else if d.contains "patch" then do
    let patch ← d.need "patch"
    let type := match d.get "type" with
      | some t => t
      | Option.none => patchType patch
    let output := (d.get "output").getD .none
    let params := (d.get "params").getD (.dict [])
    let triggerName := (d.get "trigger_name").getD .none
    let triggerValue := (d.get "trigger_value").getD .none
    .ok (.patch type patch output params (d.get "note") triggerName triggerValue)
  else if d.contains "control" then do
    let control ← d.need "control"
    let value ← d.need "value"
    let channel ← d.need "channel"
    .ok (.control control value channel)
  else if d.contains "program_change" then do
    let program ← d.need "program_change"
    let channel ← d.need "channel"
    .ok (.program program channel)
  else if d.contains "osc_address" then do
    let address ← d.need "osc_address"
    match d.get "osc_params" with
    | Option.none => .ok (.osc address (.dict []))
    | some p => do
      let ps ← oscParams p
      .ok (.osc address ps)
  else if d.contains "synth" then do
    let name ← d.need "synth"
    match d.get "params" with
    | Option.none => .ok (.synth name (.dict []))
    | some (.dict kvs) => .ok (.synth name (.dict kvs))
    | some (.a (.obj _ _)) | some (.a (.pat _)) => .error .outOfModel
    | some _ => .error .valueError                 -- "SuperCollider params must be a dict"
  else if d.contains "note" then do
    let note ← d.need "note"
    let amplitude ← d.need "amplitude"
    let gate ← d.need "gate"
    let channel ← d.need "channel"
    let pitchbend ← d.need "pitchbend"
    .ok (.note note amplitude gate channel pitchbend)
  else .error .invalidEventException

def classify (d : Dict) : Except Err Event := do
  let payload ← classifyPayload d
  let duration ← d.need "duration"
  let active ← d.need "active"
  .ok { payload := payload, duration := duration, active := active }

/-- `for key in event_values.keys(): if key not in ALL_EVENT_PARAMETERS: raise ValueError` -/
def checkKeys (d : Dict) : Except Err Unit :=
  if d.all fun kv => Generated.allEventParameters.contains kv.1 then .ok () else .error .valueError

/-- legacy keys and the synonym, in the code's order: `dur`, `amp`, then `velocity`. -/
def foldLegacy (d : Dict) : Dict :=
  let d := match d.get "dur" with
    | some v => d.set "duration" v
    | Option.none => d
  let d := match d.get "amp" with
    | some v => d.set "amplitude" v
    | Option.none => d
  match d.get "velocity" with
  | some v => d.set "amplitude" v
  | Option.none => d

/-- `for key, value in defaults.__dict__.items(): event_values.setdefault(key, <value>)` -/
def applyDefaults (d : Dict) (df : Dict) : Dict := df.foldl (fun acc kv => acc.setDefault kv.1 kv.2) d

def checkConflict (d : Dict) : Except Err Unit :=
  if d.contains "note" && d.contains "degree" then .error .invalidEventException else .ok ()

/-- `Event.__init__` on the values `df` of the timeline's defaults (already passed through `Pattern.value`). -/
def resolveWith (d : Dict) (df : Dict) : Except Err Event := do
  checkKeys d
  let d1 := foldLegacy d
  let d2 := applyDefaults d1 df
  checkConflict d2
  let d3 ← degreeStage d2
  let d4 ← noteStage d3
  classify d4

/-! ### defaults: library values, timeline overrides -/

def ofGVal : Generated.GVal → Val
  | .none => .none
  | .bool b => .bool b
  | .int i => .int i
  | .flt n dn => .flt (mkRat n dn)
  | .str s => .str s
  | .key t sem o => .a (.key { tonic := t, scale := { semitones := sem, octave := o } })
  | .other _ => .none

/-- `EventDefaults.default_values`: the library defaults. -/
def libraryDefaults : Dict := Generated.eventDefaults.map fun kv => (kv.1, ofGVal kv.2)

/-- `timeline.defaults.__dict__` after the user has assigned the attributes in `ov`
    (`EventDefaults.__setattr__` refuses names that are not library defaults; the order of `__dict__` is
    the library's, whatever was assigned). -/
def effectiveDefaults (ov : Dict) : Dict :=
  libraryDefaults.map fun kv => (kv.1, (ov.get kv.1).getD kv.2)

/-- `timeline.defaults.<name> = value` -/
def setTimelineDefault (ov : Dict) (name : String) (value : Val) : Except Err Dict :=
  if libraryDefaults.contains name then .ok (ov.set name value) else .error .valueError

/-- `Event(event_values, timeline.defaults)` where no default is a pattern (or: `ov` holds the values the
    pattern-valued defaults yield for this event). -/
def resolve (d : Dict) (ov : Dict) : Except Err Event := resolveWith d (effectiveDefaults ov)

/-! ### `Pattern.value`: pulling pattern-valued defaults and action arguments, once per event -/

/-- the values a pattern object yields: `stream id i` is the `i`-th value of pattern `id`. -/
abbrev PatEnv := Nat → Nat → Atom

/-- how many values have been taken from each pattern object. -/
abbrev Cursor := Nat → Nat

def bump (cur : Cursor) (id : Nat) : Cursor := fun j => if j = id then cur j + 1 else cur j

/-- `Pattern.value(x)` on an atom. -/
def pullAtom (env : PatEnv) (x : Atom) (cur : Cursor) : Atom × Cursor :=
  match x with
  | .pat id => (env id (cur id), bump cur id)
  | x => (x, cur)

/-- `Pattern.value(v)` (patterns nested in tuples are outside the universe). -/
def pullVal (env : PatEnv) (v : Val) (cur : Cursor) : Val × Cursor :=
  match v with
  | .a x => let r := pullAtom env x cur; (.a r.1, r.2)
  | v => (v, cur)

/-- `Pattern.value` over the defaults, in `__dict__` order. -/
def pullDefaults (env : PatEnv) : Dict → Cursor → Dict × Cursor
  | [], cur => ([], cur)
  | (k, v) :: rest, cur =>
    let r := pullVal env v cur
    let rs := pullDefaults env rest r.2
    ((k, r.1) :: rs.1, rs.2)

/-- `dict((key, Pattern.value(value)) for key, value in args.items())` -/
def pullArgs (env : PatEnv) : List (String × Atom) → Cursor → List (String × Atom) × Cursor
  | [], cur => ([], cur)
  | (k, x) :: rest, cur =>
    let r := pullAtom env x cur
    let rs := pullArgs env rest r.2
    ((k, r.1) :: rs.1, rs.2)

/-- the last statement of the action branch: the arguments are resolved. -/
def pullPayload (env : PatEnv) (p : Payload) (cur : Cursor) : Payload × Cursor :=
  match p with
  | .action fn args => let r := pullArgs env args cur; (.action fn r.1, r.2)
  | p => (p, cur)

/-- `Event(event_values, timeline.defaults)`: the key check comes before anything is pulled; every default is
    pulled (used or not); the action arguments are pulled last. -/
def eventInit (env : PatEnv) (cur : Cursor) (d : Dict) (ov : Dict) : Except Err (Event × Cursor) := do
  checkKeys d
  let df := pullDefaults env (effectiveDefaults ov) cur
  let e ← resolveWith d df.1
  let p := pullPayload env e.payload df.2
  .ok ({ e with payload := p.1 }, p.2)

/-! ### `Track.perform_event` -/

/-- what the track does to the outside world. -/
inductive Call where
  | noteOn (note amplitude channel : Val)                 -- output_device.note_on(note, amp, channel)
  | noteOffAfter (beats : Val) (note channel : Val)       -- NoteOffEvent(current_time + duration * gate, note, channel)
  | pitchBend (value channel : Val)                       -- output_device.pitch_bend(pitchbend, channel)
  | control (control value channel : Val)                 -- output_device.control(control, value, channel)
  | programChange (program channel : Val)                 -- output_device.program_change(program, channel)
  | send (address params : Val)                           -- output_device.send(osc_address, osc_params)
  | create (name params : Val)                            -- output_device.create(synth_name, synth_params)
  | action (fn : Val) (args : List (String × Atom))       -- fn(**args)
  | createPatch (patch : Val) (params : List (String × Atom)) (frequencyOfNote : Option Val) (output : Val)
  | setInput (patch : Val) (name : String) (value : Atom) -- patch.set_input(name, value)
  | setFrequency (patch : Val) (note : Val)               -- patch.set_input("frequency", midi_note_to_frequency(note))
  | trigger (patch name value : Val)                      -- output_device.trigger(patch, trigger_name, trigger_value)
  deriving DecidableEq, Repr, Inhabited

/-- the calls made, and the exception that ended the event (if any). -/
structure Perf where
  calls : List Call
  err : Option Err := Option.none
  deriving DecidableEq, Repr, Inhabited

/-- `v[index] if isinstance(v, tuple) else v` -/
def pick (v : Val) (index : Nat) : Except Err Val :=
  match v with
  | .tup xs =>
    match xs[index]? with
    | some x => .ok (.a x)
    | Option.none => .error .indexError
  | v => .ok v

/-- `x is not None and x > 0` -/
def positive : Val → Except Err Bool
  | .a .none => .ok false
  | v => gtZero v

/-- `event.duration * gate` -/
def mulVal : Val → Val → Except Err Val
  | .a x, .a y =>
    match x.num?, y.num? with
    | some m, some n => .ok (.a (Num.mul m n).toAtom)
    | _, _ => .error .outOfModel
  | _, _ => .error .outOfModel

/-- one voice: the per-voice parameters, the audibility test, the note-on and its scheduled note-off. -/
structure Voice where
  calls : List Call
  channel : Val
  deriving DecidableEq, Repr

def voice (duration amplitude gate channel : Val) (index : Nat) (note : Atom) : Except Err Voice := do
  let amp ← pick amplitude index
  let chan ← pick channel index
  let g ← pick gate index
  let pa ← positive amp
  if !pa then return { calls := [], channel := chan }
  let pg ← positive g
  if !pg then return { calls := [], channel := chan }
  let len ← mulVal duration g
  return { calls := [.noteOn (.a note) amp chan, .noteOffAfter len (.a note) chan], channel := chan }

/-- `for index, note in enumerate(notes)`: the calls so far, the last `channel` bound, the error that stopped it. -/
structure Loop where
  calls : List Call
  channel : Option Val
  err : Option Err
  deriving DecidableEq, Repr

def voiceLoop (duration amplitude gate channel : Val) : List Atom → Nat → Loop → Loop
  | [], _, acc => acc
  | note :: rest, index, acc =>
    match voice duration amplitude gate channel index note with
    | .error e => { acc with err := some e }
    | .ok v => voiceLoop duration amplitude gate channel rest (index + 1)
                 { calls := acc.calls ++ v.calls, channel := some v.channel, err := Option.none }

/-- `notes = event.note if hasattr(event.note, '__iter__') else [event.note]` -/
def notesOf : Val → Except Err (List Atom)
  | .tup xs | .list xs => .ok xs
  | .a x => if x.iterOOM then .error .outOfModel else .ok [x]
  | .dict _ => .error .outOfModel

/-- `type(event.amplitude) is tuple or event.amplitude > 0` -/
def audible : Val → Except Err Bool
  | .tup _ => .ok true
  | v => gtZero v

/-- after the voice loop: `if event.pitchbend is not None and played: output_device.pitch_bend(pitchbend, channel)` —
    the bend accompanies a note that was actually played (an event none of whose voices sounds sends nothing at all);
    `channel` is the loop variable left by the last voice. -/
def withBend (l : Loop) (pitchbend : Val) : Perf :=
  match pitchbend with
  | .a .none => { calls := l.calls }
  | pb =>
    if l.calls.isEmpty then { calls := l.calls }
    else
      match l.channel with
      | some ch => { calls := l.calls ++ [.pitchBend pb ch] }
      | Option.none => { calls := l.calls, err := some .unboundLocalError }   -- unreachable: a played voice bound `channel`

def afterLoop (l : Loop) (pitchbend : Val) : Perf :=
  match l.err with
  | some e => { calls := l.calls, err := some e }
  | Option.none => withBend l pitchbend

def performNote (duration note amplitude gate channel pitchbend : Val) : Perf :=
  match audible amplitude with
  | .error e => { calls := [], err := some e }
  | .ok false => { calls := [] }
  | .ok true =>
    match notesOf note with
    | .error e => { calls := [], err := some e }
    | .ok notes =>
      afterLoop (voiceLoop duration amplitude gate channel notes 0 { calls := [], channel := Option.none, err := Option.none })
        pitchbend

/-- the action branch: the arguments are checked against the callable's signature; any problem is printed
    and swallowed (`except Exception`), the callable is then not called. -/
def performAction (fn : Val) (args : List (String × Atom)) : Perf :=
  match fn with
  | .a (.fn _ params varkw) =>
    if varkw || args.all (fun kv => params.contains kv.1) then { calls := [.action fn args] } else { calls := [] }
  | .a (.obj _ _) | .a (.pat _) => { calls := [], err := some .outOfModel }
  | _ => { calls := [] }                            -- not callable: `inspect.signature` raises TypeError, swallowed

/-- `for key, value in event.params.items(): ... event.patch.set_input(key, value)`; returns the calls and
    whether a parameter was None (`event_is_rest`). -/
def setInputs (patch : Val) : List (String × Atom) → List Call → Bool → List Call × Bool
  | [], calls, rest => (calls, rest)
  | (k, x) :: kvs, calls, rest =>
    match x with
    | .none => setInputs patch kvs calls true
    | x => setInputs patch kvs (calls ++ [.setInput patch k x]) rest

/-- does the object given as `patch` have a `set_input` method?  (a PatchSpec / class does not) -/
def hasSetInput : Val → Bool
  | .a (.obj _ .trig) => true
  | .a (.obj _ .plain) => true
  | _ => false

def performPatch (type patch output params : Val) (note : Option Val) (triggerName triggerValue : Val) : Perf :=
  let paramsKvs : Except Err (List (String × Atom)) := match params with
    | .dict kvs => if kvs.any (fun kv => match kv.2 with | .pat _ => true | _ => false) then .error .outOfModel else .ok kvs
    | .a (.obj _ _) | .a (.pat _) => .error .outOfModel
    | _ => .error .attributeError                   -- `.items()`
  match type with
  | .a (.str "patch") =>
    match paramsKvs with
    | .error e => { calls := [], err := some e }
    | .ok kvs =>
      match note with
      | Option.none => { calls := [.createPatch patch kvs Option.none output] }
      | some n =>
        match notesOf n with
        | .error e => { calls := [], err := some e }
        | .ok notes =>
          let kvs' := kvs.filter fun kv => kv.1 != "frequency"
          let step (acc : Perf) (x : Atom) : Perf :=
            match acc.err with
            | some _ => acc
            | Option.none =>
              match gtZero (.a x) with
              | .error e => { acc with err := some e }
              | .ok false => acc
              | .ok true => { acc with calls := acc.calls ++ [.createPatch patch kvs' (some (.a x)) output] }
          notes.foldl step { calls := [] }
  | .a (.str "set") | .a (.str "trigger") =>
    match paramsKvs with
    | .error e => { calls := [], err := some e }
    | .ok kvs =>
      let r := setInputs patch kvs [] false
      if !hasSetInput patch && (!r.1.isEmpty || note.isSome) then
        { calls := [], err := some .attributeError }     -- the patch has no `set_input`
      else
        let calls := match note with
          | some n => r.1 ++ [.setFrequency patch n]
          | Option.none => r.1
        let noteErr : Option Err := match note with
          | some (.a x) => if x.num?.isSome then Option.none else some .outOfModel
          | some _ => some .typeError               -- midi_note_to_frequency(<list>)
          | Option.none => Option.none
        match noteErr with
        | some e => { calls := r.1, err := some e }
        | Option.none =>
          if r.2 then { calls := calls }
          else if type = .str "trigger" then { calls := calls ++ [.trigger patch triggerName triggerValue] }
          else { calls := calls }
  | .a (.str "action") => { calls := [] }           -- `event.action` AttributeError, swallowed by the action branch
  | .a (.str "control") | .a (.str "program_change") | .a (.str "osc") | .a (.str "supercollider") | .a (.str "note") =>
    { calls := [], err := some .attributeError }    -- the branch reads attributes a patch event does not have
  | .a (.obj _ _) | .a (.pat _) => { calls := [], err := some .outOfModel }
  | _ => { calls := [], err := some .invalidEventException }   -- "Invalid event type"

/-- `Track.perform_event(event)` (track not muted, no event callbacks registered). -/
def perform (e : Event) : Perf :=
  if !truthy e.active then { calls := [] }
  else match e.payload with
    | .action fn args => performAction fn args
    | .control control value channel => { calls := [.control control value channel] }
    | .program program channel => { calls := [.programChange program channel] }
    | .osc address params => { calls := [.send address params] }
    | .synth name params => { calls := [.create name params] }
    | .patch type patch output params note tn tv => performPatch type patch output params note tn tv
    | .note note amplitude gate channel pitchbend => performNote e.duration note amplitude gate channel pitchbend

/-! ### one event through `Track.tick` -/

/-- what happened to one event dictionary. -/
inductive Outcome where
  | rejected (e : Err)                              -- `Event.__init__` or `float(duration)` raised: nothing was played
  | skipped (duration : Rat)                        -- duration ≤ 0: the `while` loop fetches the next event at once
  | performed (duration : Rat) (p : Perf)
  deriving DecidableEq, Repr, Inhabited

/-- `current_event = get_next_event(); next_event_time += float(current_event.duration); perform_event(...)` -/
def trackEvent (env : PatEnv) (cur : Cursor) (d : Dict) (ov : Dict) : Outcome × Cursor :=
  match eventInit env cur d ov with
  | .error e => (.rejected e, cur)
  | .ok (ev, cur') =>
    match pyFloat ev.duration with
    | .error e => (.rejected e, cur')
    | .ok dur =>
      if dur ≤ 0 then (.skipped dur, cur') else (.performed dur (perform ev), cur')

end IsobarV.Event
