/-
Specification vocabulary of property C03 (definitions only, no proofs): what an event dictionary is documented to
mean, written declaratively — per field a precedence list, the pitch formula, the first-present rule for the
type — instead of as the sequence of dictionary updates `Event.__init__` performs.
`IsobarV/Props/C03.lean` proves `resolve = specResolve`.
-/
import IsobarV.Event.Model

namespace IsobarV.Event
open IsobarV.Tonal (Key Scale)

/-- equality of outcomes is decidable (used by the `decide` examples). -/
instance instDecidableEqExcept {ε α : Type} [DecidableEq ε] [DecidableEq α] : DecidableEq (Except ε α)
  | .ok a, .ok b => if h : a = b then isTrue (by rw [h]) else isFalse (by intro e; cases e; exact h rfl)
  | .error a, .error b => if h : a = b then isTrue (by rw [h]) else isFalse (by intro e; cases e; exact h rfl)
  | .ok _, .error _ => isFalse (by intro e; cases e)
  | .error _, .ok _ => isFalse (by intro e; cases e)

/-- the first value that is present. -/
def firstSome {α : Type} : List (Option α) → Option α
  | [] => none
  | some a :: _ => some a
  | none :: rest => firstSome rest

/-- the value the dictionary itself gives for a field; `velocity`, `amp` and `amplitude` are one field (in this
    order of precedence), and so are `dur` and `duration`. -/
def explicitField (d : Dict) (k : String) : Option Val :=
  if k = "amplitude" then firstSome [d.get "velocity", d.get "amp", d.get "amplitude"]
  else if k = "duration" then firstSome [d.get "dur", d.get "duration"]
  else d.get k

/-- the value assigned to `timeline.defaults.<k>` (only names of library defaults can be assigned). -/
def timelineDefault (ov : Dict) (k : String) : Option Val :=
  if libraryDefaults.contains k then ov.get k else none

/-- a field of the event: given in the event, else the timeline's default, else the library default. -/
def specField (d ov : Dict) (k : String) : Option Val :=
  firstSome [explicitField d k, timelineDefault ov k, libraryDefaults.get k]

/-- a field nobody gives is a `KeyError`. -/
def needSome : Option Val → Except Err Val
  | some v => .ok v
  | none => .error .keyError

/-- the pitch of an event. -/
inductive Pitch where
  | absent                    -- neither `note` nor `degree`
  | rest                      -- `None`
  | notes (v : Val)           -- a note, or a list of notes (one per chord voice)
  deriving DecidableEq, Repr

/-- the pitch computed from a lookup function `f` of the fields: `key[degree]`, or the given note,
    `+ 12 × octave + transpose`; `None` is a rest. -/
def pitchOf (f : String → Option Val) : Except Err Pitch :=
  match f "degree" with
  | some degree =>
    if degree = .none then .ok .rest
    else do
      let ds ← degreeInts degree
      let key ← needSome (f "key")
      let k ← resolveKey key
      let ns ← keyLookup k ds
      let octave ← needSome (f "octave")
      let transpose ← needSome (f "transpose")
      let v ← shiftNote ns octave transpose
      .ok (.notes v)
  | none =>
    match f "note" with
    | none => .ok .absent
    | some note =>
      if note = .none then .ok .rest
      else do
        let octave ← needSome (f "octave")
        let transpose ← needSome (f "transpose")
        let v ← shiftNote note octave transpose
        .ok (.notes v)

/-- the pitch of the event `d` on a timeline whose defaults were assigned `ov`. -/
def specPitch (d ov : Dict) : Except Err Pitch := pitchOf (specField d ov)

/-- the fields as `perform_event` sees them, from the lookup function `f`: the note is the pitch; a rest has
    amplitude 0 and gate 0. -/
def finalOf (f : String → Option Val) (p : Pitch) (k : String) : Option Val :=
  match p with
  | .absent => f k
  | .rest => if k = "note" ∨ k = "amplitude" ∨ k = "gate" then some (.int 0) else f k
  | .notes v => if k = "note" then some v else f k

/-- the fields of the event `d` as `perform_event` sees them. -/
def specFinal (d ov : Dict) (p : Pitch) : String → Option Val := finalOf (specField d ov) p

/-- the type is the first present of `action, patch, control, program_change, osc_address, synth, note`
    (a `degree` has become a note by now); each type keeps its own fields. -/
def specPayload (f : String → Option Val) : Except Err Payload :=
  if (f "action").isSome then do
    let fn ← needSome (f "action")
    match f "args" with
    | none => .ok (.action fn [])
    | some (.dict kvs) => .ok (.action fn kvs)
    | some (.a (.obj _ _)) | some (.a (.pat _)) => .error .outOfModel
    | some _ => .error .attributeError
  else if (f "patch").isSome then do
    let patch ← needSome (f "patch")
    let type := match f "type" with
      | some t => t
      | none => patchType patch
    .ok (.patch type patch ((f "output").getD .none) ((f "params").getD (.dict [])) (f "note")
          ((f "trigger_name").getD .none) ((f "trigger_value").getD .none))
  else if (f "control").isSome then do
    let control ← needSome (f "control")
    let value ← needSome (f "value")
    let channel ← needSome (f "channel")
    .ok (.control control value channel)
  else if (f "program_change").isSome then do
    let program ← needSome (f "program_change")
    let channel ← needSome (f "channel")
    .ok (.program program channel)
  else if (f "osc_address").isSome then do
    let address ← needSome (f "osc_address")
    match f "osc_params" with
    | none => .ok (.osc address (.dict []))
    | some p => do
      let ps ← oscParams p
      .ok (.osc address ps)
  else if (f "synth").isSome then do
    let name ← needSome (f "synth")
    match f "params" with
    | none => .ok (.synth name (.dict []))
    | some (.dict kvs) => .ok (.synth name (.dict kvs))
    | some (.a (.obj _ _)) | some (.a (.pat _)) => .error .outOfModel
    | some _ => .error .valueError
  else if (f "note").isSome then do
    let note ← needSome (f "note")
    let amplitude ← needSome (f "amplitude")
    let gate ← needSome (f "gate")
    let channel ← needSome (f "channel")
    let pitchbend ← needSome (f "pitchbend")
    .ok (.note note amplitude gate channel pitchbend)
  else .error .invalidEventException

def specEvent (f : String → Option Val) : Except Err Event := do
  let payload ← specPayload f
  let duration ← needSome (f "duration")
  let active ← needSome (f "active")
  .ok { payload := payload, duration := duration, active := active }

/-- the documented meaning of an event dictionary `d` on a timeline whose defaults were assigned `ov`. -/
def specResolve (d ov : Dict) : Except Err Event :=
  if d.any (fun kv => !Generated.allEventParameters.contains kv.1) then .error .valueError
  else if d.contains "note" && d.contains "degree" then .error .invalidEventException
  else do
    let p ← specPitch d ov
    specEvent (specFinal d ov p)

/-! ### vocabulary of the stand-alone theorems -/

/-- the type-selecting keys in their order of precedence (`note` stands for `note` or `degree`). -/
def typeKeys : List String := ["action", "patch", "control", "program_change", "osc_address", "synth", "note"]

/-- which type-selecting key a payload belongs to. -/
def Payload.typeKey : Payload → String
  | .action _ _ => "action"
  | .patch _ _ _ _ _ _ _ => "patch"
  | .control _ _ _ => "control"
  | .program _ _ => "program_change"
  | .osc _ _ => "osc_address"
  | .synth _ _ => "synth"
  | .note _ _ _ _ _ => "note"

/-- is the type-selecting key present in the dictionary? -/
def hasTypeKey (d : Dict) (k : String) : Bool :=
  if k = "note" then d.contains "note" || d.contains "degree" else d.contains k

/-- how often pattern object `id` occurs among values (each occurrence is one `Pattern.value`). -/
def patCountVals (id : Nat) (d : Dict) : Nat :=
  (d.filter fun kv => kv.2 = .a (.pat id)).length

/-- the names of isobar/constants.py as the model spells them (checked against the generated table by
    `constants_as_assumed`). -/
def assumedConstants : List (String × String) := [
  ("EVENT_TYPE", "type"), ("EVENT_ACTIVE", "active"), ("EVENT_CHANNEL", "channel"), ("EVENT_AMPLITUDE", "amplitude"),
  ("EVENT_DURATION", "duration"), ("EVENT_GATE", "gate"), ("EVENT_NOTE", "note"), ("EVENT_DEGREE", "degree"),
  ("EVENT_KEY", "key"), ("EVENT_OCTAVE", "octave"), ("EVENT_TRANSPOSE", "transpose"), ("EVENT_PITCHBEND", "pitchbend"),
  ("EVENT_ACTION", "action"), ("EVENT_ACTION_ARGS", "args"), ("EVENT_CONTROL", "control"),
  ("EVENT_OSC_ADDRESS", "osc_address"), ("EVENT_OSC_PARAMS", "osc_params"), ("EVENT_VALUE", "value"),
  ("EVENT_PATCH", "patch"), ("EVENT_PATCH_PARAMS", "params"), ("EVENT_PATCH_OUTPUT", "output"),
  ("EVENT_TRIGGER_NAME", "trigger_name"), ("EVENT_TRIGGER_VALUE", "trigger_value"),
  ("EVENT_PROGRAM_CHANGE", "program_change"), ("EVENT_SUPERCOLLIDER_SYNTH", "synth"),
  ("EVENT_SUPERCOLLIDER_SYNTH_PARAMS", "params"), ("EVENT_DURATION_LEGACY", "dur"), ("EVENT_AMPLITUDE_LEGACY", "amp"),
  ("EVENT_VELOCITY", "velocity"), ("EVENT_TYPE_NOTE", "note"), ("EVENT_TYPE_CONTROL", "control"),
  ("EVENT_TYPE_PROGRAM_CHANGE", "program_change"), ("EVENT_TYPE_OSC", "osc"), ("EVENT_TYPE_ACTION", "action"),
  ("EVENT_TYPE_PATCH_CREATE", "patch"), ("EVENT_TYPE_PATCH_TRIGGER", "trigger"), ("EVENT_TYPE_PATCH_SET", "set"),
  ("EVENT_TYPE_SUPERCOLLIDER", "supercollider")]

/-- the library defaults the documentation names. -/
def documentedDefaults : Dict := [
  ("active", .bool true), ("channel", .int 0), ("duration", .int 1), ("gate", .flt 1), ("amplitude", .int 64),
  ("octave", .int 0), ("transpose", .int 0),
  ("key", .a (.key { tonic := 0, scale := { semitones := [0, 2, 4, 5, 7, 9, 11], octave := 12 } })),
  ("quantize", .int 0), ("delay", .int 0), ("pitchbend", .none)]

/-- the timeline defaults as they stand for one event: every default has been passed through `Pattern.value`. -/
def pulledDefaults (env : PatEnv) (cur : Cursor) (ov : Dict) : Dict := (pullDefaults env (effectiveDefaults ov) cur).1

/-- how often pattern object `id` occurs in the payload's unresolved arguments. -/
def patCountPayload (id : Nat) : Payload → Nat
  | .action _ args => (args.filter fun kv => kv.2 = .pat id).length
  | _ => 0

end IsobarV.Event
