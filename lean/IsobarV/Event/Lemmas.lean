/-
Helper lemmas for property C03 (no property theorem lives here): Python-dict algebra on association lists, what
each stage of `Event.__init__` does to a lookup, and the loops of `perform_event`.
-/
import IsobarV.Event.Spec

set_option linter.unusedSimpArgs false
set_option linter.unusedVariables false

namespace IsobarV.Event
open IsobarV.Tonal (Key Scale)

/-! ### dictionaries -/

namespace Dict

@[simp] theorem get_nil (k : String) : Dict.get [] k = none := rfl

theorem get_cons (k' : String) (v : Val) (rest : Dict) (k : String) :
    Dict.get ((k', v) :: rest) k = if k' = k then some v else Dict.get rest k := rfl

theorem get_set (d : Dict) (k : String) (v : Val) (k' : String) :
    (d.set k v).get k' = if k = k' then some v else d.get k' := by
  induction d with
  | nil => simp [Dict.set, get_cons]
  | cons kv rest ih =>
    obtain ⟨k0, v0⟩ := kv
    simp only [Dict.set]
    by_cases h0 : k0 = k
    · subst h0
      simp only [if_true, get_cons]
      by_cases h1 : k0 = k' <;> simp [h1]
    · simp only [h0, if_false, get_cons, ih]
      by_cases h1 : k0 = k'
      · subst h1
        have : ¬ k = k0 := fun h => h0 h.symm
        simp [this]
      · simp [h1]

theorem get_append_single (d : Dict) (k : String) (v : Val) (k' : String) :
    (d ++ [(k, v)]).get k' = match d.get k' with
      | some x => some x
      | none => if k = k' then some v else none := by
  induction d with
  | nil => simp [get_cons]
  | cons kv rest ih =>
    obtain ⟨k0, v0⟩ := kv
    simp only [List.cons_append, get_cons]
    by_cases h : k0 = k' <;> simp [h, ih]

theorem get_setDefault (d : Dict) (k : String) (v : Val) (k' : String) :
    (d.setDefault k v).get k' = match d.get k' with
      | some x => some x
      | none => if k = k' then some v else none := by
  unfold Dict.setDefault Dict.contains
  cases hk : d.get k with
  | some x =>
    simp only [Option.isSome_some, if_true]
    cases hk' : d.get k' with
    | some y => rfl
    | none =>
      have : ¬ k = k' := by
        intro h; subst h; rw [hk] at hk'; cases hk'
      simp [this]
  | none =>
    simp only [Option.isSome_none, Bool.false_eq_true, if_false]
    exact get_append_single d k v k'

end Dict

@[simp] theorem firstSome_single {α : Type} (a : Option α) : firstSome [a] = a := by
  cases a <;> rfl

@[simp] theorem firstSome_some {α : Type} (a : α) (rest : List (Option α)) : firstSome (some a :: rest) = some a := rfl

@[simp] theorem firstSome_none {α : Type} (rest : List (Option α)) : firstSome (none :: rest) = firstSome rest := rfl

/-- `a` if present, else `b`. -/
theorem firstSome_two {α : Type} (a b : Option α) : firstSome [a, b] = match a with | some x => some x | none => b := by
  cases a <;> cases b <;> rfl

theorem applyDefaults_get (df d : Dict) (k : String) :
    (applyDefaults d df).get k = match d.get k with
      | some x => some x
      | none => df.get k := by
  unfold applyDefaults
  induction df generalizing d with
  | nil =>
    simp only [List.foldl_nil, Dict.get_nil]
    cases d.get k <;> rfl
  | cons kv rest ih =>
    obtain ⟨k0, v0⟩ := kv
    simp only [List.foldl_cons]
    rw [ih, Dict.get_setDefault, Dict.get_cons]
    cases hd : d.get k with
    | some x => rfl
    | none =>
      by_cases h : k0 = k <;> simp [h]

/-! ### legacy keys, defaults -/

theorem foldLegacy_get (d : Dict) (k : String) : (foldLegacy d).get k = explicitField d k := by
  unfold foldLegacy explicitField
  by_cases ha : k = "amplitude"
  · subst ha
    cases hdur : d.get "dur" <;> cases hamp : d.get "amp" <;> cases hvel : d.get "velocity" <;>
      simp [Dict.get_set, hdur, hamp, hvel, firstSome]
  · by_cases hd : k = "duration"
    · subst hd
      cases hdur : d.get "dur" <;> cases hamp : d.get "amp" <;> cases hvel : d.get "velocity" <;>
        simp [Dict.get_set, hdur, hamp, hvel, firstSome]
    · have ha' : ¬ "amplitude" = k := fun h => ha h.symm
      have hd' : ¬ "duration" = k := fun h => hd h.symm
      cases hdur : d.get "dur" <;> cases hamp : d.get "amp" <;> cases hvel : d.get "velocity" <;>
        simp [Dict.get_set, hdur, hamp, hvel, ha, hd, ha', hd']

theorem get_map_values (l : Dict) (f : String → Val → Val) (k : String) :
    Dict.get (l.map fun kv => (kv.1, f kv.1 kv.2)) k = (Dict.get l k).map (f k) := by
  induction l with
  | nil => rfl
  | cons kv rest ih =>
    obtain ⟨k0, v0⟩ := kv
    simp only [List.map_cons, Dict.get_cons, ih]
    by_cases h : k0 = k
    · subst h; simp
    · simp [h]

theorem effectiveDefaults_get (ov : Dict) (k : String) :
    (effectiveDefaults ov).get k = (libraryDefaults.get k).map fun v => (ov.get k).getD v := by
  unfold effectiveDefaults
  exact get_map_values libraryDefaults (fun k v => (ov.get k).getD v) k

/-- after the legacy keys are folded and the defaults filled in, every lookup is the documented precedence. -/
theorem defaults_stage_get (d ov : Dict) (k : String) :
    (applyDefaults (foldLegacy d) (effectiveDefaults ov)).get k = specField d ov k := by
  rw [applyDefaults_get, foldLegacy_get, effectiveDefaults_get]
  unfold specField timelineDefault Dict.contains
  cases explicitField d k <;> cases libraryDefaults.get k <;> cases ov.get k <;> simp

/-! ### facts about the generated tables -/

/-- the names of the library defaults (decided on the table generated from the repository). -/
theorem libraryDefaults_keys :
    libraryDefaults.map (·.1) = ["active", "channel", "duration", "gate", "amplitude", "octave", "transpose", "key",
      "quantize", "delay", "pitchbend"] := by decide

theorem lib_get_none_of_not_mem (k : String) (h : k ∉ libraryDefaults.map (·.1)) : libraryDefaults.get k = none := by
  generalize libraryDefaults = l at h
  induction l with
  | nil => rfl
  | cons kv rest ih =>
    obtain ⟨k0, v0⟩ := kv
    simp only [List.map_cons, List.mem_cons, not_or] at h
    rw [Dict.get_cons]
    have : ¬ k0 = k := fun e => h.1 e.symm
    simp [this, ih h.2]

theorem specField_plain (d ov : Dict) (k : String) (h : k ∉ libraryDefaults.map (·.1)) : specField d ov k = d.get k := by
  have hl := lib_get_none_of_not_mem k h
  rw [libraryDefaults_keys] at h
  have ha : ¬ k = "amplitude" := by intro e; subst e; exact h (by decide)
  have hd : ¬ k = "duration" := by intro e; subst e; exact h (by decide)
  unfold specField timelineDefault explicitField Dict.contains
  simp [hl, ha, hd]
  cases d.get k <;> rfl

/-! ### the classification only looks values up -/

theorem need_eq (d : Dict) (k : String) : d.need k = needSome (d.get k) := by
  unfold Dict.need needSome
  cases d.get k <;> rfl

theorem classify_eq (d : Dict) : classify d = specEvent d.get := by
  unfold classify classifyPayload specEvent specPayload
  simp only [need_eq, Dict.contains]
  rfl

/-! ### the degree and note stages -/

theorem ok_bind {ε α β : Type} (a : α) (f : α → Except ε β) : (Except.ok a >>= f) = f a := rfl

theorem error_bind {ε α β : Type} (e : ε) (f : α → Except ε β) : ((Except.error e : Except ε α) >>= f) = Except.error e := rfl

theorem keyLookup_ne_none (k : KeyRef) (ds : Deg) (v : Val) (h : keyLookup k ds = .ok v) : v ≠ Val.none := by
  intro e
  subst e
  cases k with
  | key k =>
    cases ds with
    | one d =>
      simp only [keyLookup, Except.map] at h
      cases hk : keyGet k d with
      | error e => rw [hk] at h; cases h
      | ok n => rw [hk] at h; simp [Val.int, Val.none] at h
    | chord ds =>
      simp only [keyLookup, Except.map] at h
      cases hk : List.mapM (keyGet k) ds with
      | error e => rw [hk] at h; cases h
      | ok n => rw [hk] at h; simp [Val.none] at h
  | notSubscriptable =>
    cases ds with
    | one d => simp [keyLookup] at h
    | chord ds => cases ds <;> simp [keyLookup, Val.none] at h

theorem rest_fields (d : Dict) (k : String) :
    ((((d.set "note" (.int 0)).set "amplitude" (.int 0)).set "gate" (.int 0)).get k)
      = if k = "note" ∨ k = "amplitude" ∨ k = "gate" then some (.int 0) else d.get k := by
  simp only [Dict.get_set]
  by_cases h1 : "gate" = k
  · subst h1; simp
  · by_cases h2 : "amplitude" = k
    · subst h2; simp
    · by_cases h3 : "note" = k
      · subst h3; simp
      · have h1' : ¬ k = "gate" := fun e => h1 e.symm
        have h2' : ¬ k = "amplitude" := fun e => h2 e.symm
        have h3' : ¬ k = "note" := fun e => h3 e.symm
        simp [h1, h2, h3, h1', h2', h3']

theorem set_note_final (d : Dict) (v : Val) : (d.set "note" v).get = finalOf d.get (.notes v) := by
  funext k
  rw [Dict.get_set]
  unfold finalOf
  by_cases hk : "note" = k
  · subst hk; simp
  · have : ¬ k = "note" := fun e => hk e.symm
    simp [hk, this]

/-- the note block, on a dictionary without `degree`: what it computes, as a pitch and a final lookup function. -/
theorem noteStage_eq (d : Dict) (hdeg : d.get "degree" = none) :
    (noteStage d >>= classify) = (pitchOf d.get >>= fun p => specEvent (finalOf d.get p)) := by
  unfold noteStage pitchOf
  rw [hdeg]
  cases hn : d.get "note" with
  | none =>
    simp only [ok_bind]
    rw [classify_eq]
    rfl
  | some n =>
    simp only
    by_cases hr : n = Val.none
    · simp only [hr, if_true, ok_bind]
      rw [classify_eq]
      congr 1
      funext k
      rw [rest_fields]
      rfl
    · simp only [hr, if_false, need_eq, bind_assoc]
      cases needSome (d.get "octave") with
      | error e => rfl
      | ok o =>
        simp only [ok_bind]
        cases needSome (d.get "transpose") with
        | error e => rfl
        | ok t =>
          simp only [ok_bind]
          cases shiftNote n o t with
          | error e => rfl
          | ok v =>
            simp only [ok_bind]
            rw [classify_eq, set_note_final]

theorem get_set_note_other (d : Dict) (v : Val) (k : String) (h : k ≠ "note") : (d.set "note" v).get k = d.get k := by
  rw [Dict.get_set]
  have : ¬ "note" = k := fun e => h e.symm
  simp [this]

/-- the degree block followed by the note block, on a dictionary with a `degree`. -/
theorem degreeStage_eq (d : Dict) (deg : Val) (hdeg : d.get "degree" = some deg) :
    (degreeStage d >>= noteStage >>= classify) = (pitchOf d.get >>= fun p => specEvent (finalOf d.get p)) := by
  unfold degreeStage pitchOf
  rw [hdeg]
  simp only
  by_cases hr : deg = Val.none
  · simp only [hr, if_true, ok_bind]
    unfold noteStage
    rw [Dict.get_set]
    simp only [if_true, ok_bind]
    rw [classify_eq]
    congr 1
    funext k
    rw [rest_fields]
    unfold finalOf
    by_cases hk : k = "note" ∨ k = "amplitude" ∨ k = "gate"
    · simp [hk]
    · simp only [hk, if_false]
      have : k ≠ "note" := fun e => hk (Or.inl e)
      exact get_set_note_other d _ k this
  · simp only [hr, if_false, need_eq, bind_assoc]
    cases degreeInts deg with
    | error e => rfl
    | ok ds =>
      simp only [ok_bind]
      cases needSome (d.get "key") with
      | error e => rfl
      | ok kv =>
        simp only [ok_bind]
        cases resolveKey kv with
        | error e => rfl
        | ok key =>
          simp only [ok_bind]
          cases hkl : keyLookup key ds with
          | error e => rfl
          | ok note =>
            simp only [ok_bind]
            have hne := keyLookup_ne_none key ds note hkl
            unfold noteStage
            rw [Dict.get_set]
            simp only [if_true, hne, if_false, need_eq, bind_assoc]
            rw [get_set_note_other d note "octave" (by decide), get_set_note_other d note "transpose" (by decide)]
            cases needSome (d.get "octave") with
            | error e => rfl
            | ok o =>
              simp only [ok_bind]
              cases needSome (d.get "transpose") with
              | error e => rfl
              | ok t =>
                simp only [ok_bind]
                cases shiftNote note o t with
                | error e => rfl
                | ok v =>
                  simp only [ok_bind]
                  rw [classify_eq]
                  congr 1
                  funext k
                  rw [Dict.get_set]
                  unfold finalOf
                  by_cases hk : "note" = k
                  · subst hk; simp
                  · have h' : ¬ k = "note" := fun e => hk e.symm
                    simp only [hk, h', if_false]
                    exact get_set_note_other d note k h'

/-- everything after the conflict check, on any dictionary. -/
theorem stages_eq (d : Dict) :
    (degreeStage d >>= noteStage >>= classify) = (pitchOf d.get >>= fun p => specEvent (finalOf d.get p)) := by
  cases hdeg : d.get "degree" with
  | some deg => exact degreeStage_eq d deg hdeg
  | none =>
    have : degreeStage d = .ok d := by unfold degreeStage; rw [hdeg]
    rw [this, ok_bind]
    exact noteStage_eq d hdeg

theorem stages_eq' (d : Dict) :
    (degreeStage d >>= fun d3 => noteStage d3 >>= fun d4 => classify d4)
      = (pitchOf d.get >>= fun p => specEvent (finalOf d.get p)) := by
  have h := stages_eq d
  rw [bind_assoc] at h
  exact h

theorem not_lib_note : "note" ∉ libraryDefaults.map (·.1) := by rw [libraryDefaults_keys]; decide
theorem not_lib_degree : "degree" ∉ libraryDefaults.map (·.1) := by rw [libraryDefaults_keys]; decide

/-- `Event.__init__` computes the documented meaning (the load-bearing lemma of `resolve_eq_spec`). -/
theorem resolve_eq_spec_aux (d ov : Dict) : resolve d ov = specResolve d ov := by
  unfold resolve resolveWith specResolve checkKeys checkConflict specPitch specFinal
  have hall : (d.all fun kv => Generated.allEventParameters.contains kv.1)
      = !(d.any fun kv => !Generated.allEventParameters.contains kv.1) := by
    rw [List.all_eq_not_any_not]
  rw [hall]
  cases hany : d.any fun kv => !Generated.allEventParameters.contains kv.1 with
  | true => rfl
  | false =>
    simp only [Bool.not_false, if_true, ok_bind, Bool.false_eq_true, if_false]
    have hg : (applyDefaults (foldLegacy d) (effectiveDefaults ov)).get = specField d ov :=
      funext (defaults_stage_get d ov)
    have hn : (applyDefaults (foldLegacy d) (effectiveDefaults ov)).contains "note" = d.contains "note" := by
      unfold Dict.contains; rw [hg, specField_plain d ov "note" not_lib_note]
    have hd : (applyDefaults (foldLegacy d) (effectiveDefaults ov)).contains "degree" = d.contains "degree" := by
      unfold Dict.contains; rw [hg, specField_plain d ov "degree" not_lib_degree]
    rw [hn, hd]
    cases hc : (d.contains "note" && d.contains "degree") with
    | true => rfl
    | false =>
      simp only [Bool.false_eq_true, if_false, ok_bind]
      rw [stages_eq', hg]

/-! ### reading an event back: which lookups produced it -/

theorem bind_eq_ok {ε α β : Type} (x : Except ε α) (f : α → Except ε β) (b : β) :
    (x >>= f) = .ok b ↔ ∃ a, x = .ok a ∧ f a = .ok b := by
  cases x <;> simp [ok_bind, error_bind]

theorem needSome_eq_ok (o : Option Val) (v : Val) : needSome o = .ok v ↔ o = some v := by
  cases o <;> simp [needSome]

theorem specEvent_ok (f : String → Option Val) (e : Event) (h : specEvent f = .ok e) :
    specPayload f = .ok e.payload ∧ f "duration" = some e.duration ∧ f "active" = some e.active := by
  unfold specEvent at h
  simp only [bind_eq_ok, needSome_eq_ok, Except.ok.injEq] at h
  obtain ⟨p, hp, du, hd, ac, ha, he⟩ := h
  subst he
  exact ⟨hp, hd, ha⟩

theorem specPayload_note (f : String → Option Val) (n a g c pb : Val) (h : specPayload f = .ok (.note n a g c pb)) :
    f "action" = none ∧ f "patch" = none ∧ f "control" = none ∧ f "program_change" = none ∧ f "osc_address" = none ∧
    f "synth" = none ∧ f "note" = some n ∧ f "amplitude" = some a ∧ f "gate" = some g ∧ f "channel" = some c ∧
    f "pitchbend" = some pb := by
  unfold specPayload at h
  repeat' split at h
  all_goals simp only [bind_eq_ok, needSome_eq_ok, Except.ok.injEq, reduceCtorEq, and_false, exists_false, exists_const] at h
  all_goals simp_all

  obtain ⟨_, h1, _, h2, _, h3, _, h4, _, h5, rfl, rfl, rfl, rfl, rfl⟩ := h
  exact ⟨h1, h2, h3, h4, h5⟩

theorem specPayload_control (f : String → Option Val) (c v ch : Val) (h : specPayload f = .ok (.control c v ch)) :
    f "action" = none ∧ f "patch" = none ∧ f "control" = some c ∧ f "value" = some v ∧ f "channel" = some ch := by
  unfold specPayload at h
  repeat' split at h
  all_goals simp only [bind_eq_ok, needSome_eq_ok, Except.ok.injEq, reduceCtorEq, and_false, exists_false, exists_const] at h
  all_goals simp_all
  obtain ⟨_, h1, _, h2, _, h3, rfl, rfl, rfl⟩ := h
  exact ⟨h1, h2, h3⟩

theorem specPayload_program (f : String → Option Val) (p ch : Val) (h : specPayload f = .ok (.program p ch)) :
    f "action" = none ∧ f "patch" = none ∧ f "control" = none ∧ f "program_change" = some p ∧ f "channel" = some ch := by
  unfold specPayload at h
  repeat' split at h
  all_goals simp only [bind_eq_ok, needSome_eq_ok, Except.ok.injEq, reduceCtorEq, and_false, exists_false, exists_const] at h
  all_goals simp_all

theorem specPayload_osc (f : String → Option Val) (a ps : Val) (h : specPayload f = .ok (.osc a ps)) :
    f "action" = none ∧ f "patch" = none ∧ f "control" = none ∧ f "program_change" = none ∧ f "osc_address" = some a ∧
    ((f "osc_params" = none ∧ ps = .dict []) ∨ ∃ p, f "osc_params" = some p ∧ oscParams p = .ok ps) := by
  unfold specPayload at h
  repeat' split at h
  all_goals simp only [bind_eq_ok, needSome_eq_ok, Except.ok.injEq, reduceCtorEq, and_false, exists_false, exists_const] at h
  all_goals simp_all
  all_goals (obtain ⟨_, h1, rfl, rfl⟩ := h; simp_all)

theorem specPayload_synth (f : String → Option Val) (n ps : Val) (h : specPayload f = .ok (.synth n ps)) :
    f "action" = none ∧ f "patch" = none ∧ f "control" = none ∧ f "program_change" = none ∧ f "osc_address" = none ∧
    f "synth" = some n ∧ ((f "params" = none ∧ ps = .dict []) ∨ (f "params" = some ps ∧ ∃ kvs, ps = .dict kvs)) := by
  unfold specPayload at h
  repeat' split at h
  all_goals simp only [bind_eq_ok, needSome_eq_ok, Except.ok.injEq, reduceCtorEq, and_false, exists_false, exists_const] at h
  all_goals simp_all
  all_goals (obtain ⟨_, h1, rfl, rfl⟩ := h; simp_all)

theorem specPayload_action (f : String → Option Val) (fn : Val) (args : List (String × Atom))
    (h : specPayload f = .ok (.action fn args)) :
    f "action" = some fn ∧ ((f "args" = none ∧ args = []) ∨ f "args" = some (.dict args)) := by
  unfold specPayload at h
  repeat' split at h
  all_goals simp only [bind_eq_ok, needSome_eq_ok, Except.ok.injEq, reduceCtorEq, and_false, exists_false, exists_const] at h
  all_goals simp_all
  all_goals (obtain ⟨_, h1, rfl, rfl⟩ := h; simp_all)

/-! ### from a resolved event back to the specification's ingredients -/

theorem resolve_ok (d ov : Dict) (e : Event) (h : resolve d ov = .ok e) :
    (d.any fun kv => !Generated.allEventParameters.contains kv.1) = false ∧
    (d.contains "note" && d.contains "degree") = false ∧
    ∃ p, specPitch d ov = .ok p ∧ specEvent (specFinal d ov p) = .ok e := by
  rw [resolve_eq_spec_aux] at h
  unfold specResolve at h
  split at h
  · cases h
  · split at h
    · cases h
    · rename_i h1 h2
      rw [bind_eq_ok] at h
      exact ⟨by simpa using h1, by simpa using h2, h⟩

theorem finalOf_other (f : String → Option Val) (p : Pitch) (k : String)
    (h1 : k ≠ "note") (h2 : k ≠ "amplitude") (h3 : k ≠ "gate") : finalOf f p k = f k := by
  cases p <;> simp [finalOf, h1, h2, h3]

theorem specField_degree (d ov : Dict) : specField d ov "degree" = d.get "degree" := specField_plain d ov _ not_lib_degree
theorem specField_note (d ov : Dict) : specField d ov "note" = d.get "note" := specField_plain d ov _ not_lib_note

/-- the final `note` field is present exactly when the dictionary has a `note` or a `degree`. -/
theorem final_note_isSome (d ov : Dict) (p : Pitch) (h : specPitch d ov = .ok p) :
    (specFinal d ov p "note").isSome = (d.contains "note" || d.contains "degree") := by
  unfold specPitch pitchOf at h
  rw [specField_degree, specField_note] at h
  unfold specFinal finalOf Dict.contains
  cases hdeg : d.get "degree" with
  | some deg =>
    rw [hdeg] at h
    simp only at h
    split at h
    · cases h; simp
    · simp only [bind_eq_ok] at h
      obtain ⟨_, _, _, _, _, _, _, _, _, _, _, _, _, _, h⟩ := h
      cases h; simp
  | none =>
    rw [hdeg] at h
    cases hn : d.get "note" with
    | none =>
      rw [hn] at h
      cases h
      simp [specField_note, hn]
    | some n =>
      rw [hn] at h
      simp only at h
      split at h
      · cases h; simp
      · simp only [bind_eq_ok] at h
        obtain ⟨_, _, _, _, _, _, h⟩ := h
        cases h; simp

theorem specPayload_typeKey (f : String → Option Val) (p : Payload) (h : specPayload f = .ok p) :
    (typeKeys.find? fun k => (f k).isSome) = some p.typeKey := by
  unfold specPayload at h
  cases p
  all_goals repeat' split at h
  all_goals simp only [bind_eq_ok, needSome_eq_ok, Except.ok.injEq, reduceCtorEq, and_false, exists_false, exists_const] at h
  all_goals simp_all [typeKeys, List.find?, Payload.typeKey]

/-! ### the pitch of well-formed inputs -/

theorem mapM_pyIntAtom_ints (ds : List Int) : (ds.map Atom.int).mapM pyIntAtom = .ok ds := by
  induction ds with
  | nil => rfl
  | cons x xs ih =>
    simp only [List.map_cons, List.mapM_cons, ih, pyIntAtom]
    rfl

theorem any_intOOM_ints (ds : List Int) : (ds.map Atom.int).any Atom.intOOM = false := by
  induction ds with
  | nil => rfl
  | cons x xs ih => simp [List.any_cons, Atom.intOOM, ih]

theorem mapM_keyGet (k : Key) (hne : k.scale.semitones ≠ []) (ds : List Int) :
    ds.mapM (keyGet k) = .ok (ds.map k.get) := by
  have hk : ∀ d, keyGet k d = .ok (k.get d) := by
    intro d
    unfold keyGet
    have : k.scale.semitones.isEmpty = false := by
      cases hs : k.scale.semitones with
      | nil => exact absurd hs hne
      | cons _ _ => rfl
    rw [this]
    rfl
  induction ds with
  | nil => rfl
  | cons x xs ih =>
    simp only [List.mapM_cons, hk, ih, List.map_cons]
    rfl

theorem degreeInts_tup (ds : List Int) : degreeInts (.tup (ds.map Atom.int)) = .ok (.chord ds) := by
  unfold degreeInts
  simp only
  rw [any_intOOM_ints, mapM_pyIntAtom_ints]
  rfl

theorem degreeInts_list (ds : List Int) : degreeInts (.list (ds.map Atom.int)) = .ok (.chord ds) := by
  unfold degreeInts
  simp only
  rw [any_intOOM_ints, mapM_pyIntAtom_ints]
  rfl

theorem shiftAmount_ints (o t : Int) : shiftAmount (.int o) (.int t) = .ok (o * 12 + t) := by
  simp [shiftAmount, Val.intOOM, Atom.intOOM, Val.int, pyInt, pyIntAtom]
  rfl

theorem shiftNote_list_ints (ns : List Int) (o t : Int) :
    shiftNote (.list (ns.map Atom.int)) (.int o) (.int t) = .ok (.list (ns.map fun n => Atom.int (n + (o * 12 + t)))) := by
  cases ns with
  | nil => rfl
  | cons x xs =>
    unfold shiftNote
    simp only [List.map_cons, List.isEmpty_cons, Bool.false_eq_true, if_false]
    rw [← List.map_cons (f := Atom.int), any_intOOM_ints]
    simp only [Bool.false_eq_true, if_false, shiftAmount_ints, ok_bind]
    rw [mapM_pyIntAtom_ints]
    rfl

theorem shiftNote_tup_ints (ns : List Int) (o t : Int) :
    shiftNote (.tup (ns.map Atom.int)) (.int o) (.int t) = .ok (.list (ns.map fun n => Atom.int (n + (o * 12 + t)))) := by
  cases ns with
  | nil => rfl
  | cons x xs =>
    unfold shiftNote
    simp only [List.map_cons, List.isEmpty_cons, Bool.false_eq_true, if_false]
    rw [← List.map_cons (f := Atom.int), any_intOOM_ints]
    simp only [Bool.false_eq_true, if_false, shiftAmount_ints, ok_bind]
    rw [mapM_pyIntAtom_ints]
    rfl

theorem shiftNote_int (n o t : Int) : shiftNote (.int n) (.int o) (.int t) = .ok (.int (n + (o * 12 + t))) := by
  unfold shiftNote
  simp only [Val.int, Atom.iterOOM, Bool.false_eq_true, if_false]
  have := shiftAmount_ints o t
  simp only [Val.int] at this
  rw [this]
  rfl

/-! ### the voice loop -/

theorem voiceLoop_all_ok (dur amp gate chan : Val) (notes : List Atom) (vs : List Voice) (i0 : Nat) (acc : Loop)
    (hacc : acc.err = none) (hlen : notes.length = vs.length)
    (h : ∀ j (hj : j < notes.length), voice dur amp gate chan (i0 + j) notes[j] = .ok (vs[j]'(hlen ▸ hj))) :
    (voiceLoop dur amp gate chan notes i0 acc).err = none ∧
    (voiceLoop dur amp gate chan notes i0 acc).calls = acc.calls ++ (vs.map (·.calls)).flatten := by
  induction notes generalizing vs i0 acc with
  | nil =>
    cases vs with
    | nil => simp [voiceLoop, hacc]
    | cons _ _ => simp at hlen
  | cons note rest ih =>
    cases vs with
    | nil => simp at hlen
    | cons v vs' =>
      have h0 := h 0 (by simp)
      simp only [Nat.add_zero, List.getElem_cons_zero] at h0
      simp only [voiceLoop, h0]
      have hlen' : rest.length = vs'.length := by simpa using hlen
      have := ih vs' (i0 + 1) { calls := acc.calls ++ v.calls, channel := some v.channel, err := none } rfl hlen'
        (by
          intro j hj
          have := h (j + 1) (by simp; omega)
          simp only [List.getElem_cons_succ] at this
          rw [← this]
          congr 1
          omega)
      refine ⟨this.1, ?_⟩
      rw [this.2]
      simp [List.append_assoc]

/-! ### `Pattern.value` over the defaults and the arguments -/

theorem pullDefaults_keys (env : PatEnv) (l : Dict) (cur : Cursor) :
    (pullDefaults env l cur).1.map (·.1) = l.map (·.1) := by
  induction l generalizing cur with
  | nil => rfl
  | cons kv rest ih =>
    obtain ⟨k, v⟩ := kv
    simp only [pullDefaults, List.map_cons, ih]

theorem pullVal_cursor (env : PatEnv) (v : Val) (cur : Cursor) (id : Nat) :
    (pullVal env v cur).2 id = cur id + (if v = .a (.pat id) then 1 else 0) := by
  unfold pullVal
  cases v with
  | a x =>
    cases x <;> simp [pullAtom, bump]
    rename_i j
    by_cases h : id = j
    · subst h; simp
    · have : ¬ j = id := fun e => h e.symm
      simp [h, this]
  | tup xs => simp
  | list xs => simp
  | dict kvs => simp

theorem pullDefaults_cursor (env : PatEnv) (l : Dict) (cur : Cursor) (id : Nat) :
    (pullDefaults env l cur).2 id = cur id + patCountVals id l := by
  induction l generalizing cur with
  | nil => simp [pullDefaults, patCountVals]
  | cons kv rest ih =>
    obtain ⟨k, v⟩ := kv
    simp only [pullDefaults, ih, pullVal_cursor, patCountVals, List.filter_cons]
    by_cases h : v = .a (.pat id)
    · simp [h]; omega
    · simp [h]

theorem pullAtom_cursor (env : PatEnv) (x : Atom) (cur : Cursor) (id : Nat) :
    (pullAtom env x cur).2 id = cur id + (if x = .pat id then 1 else 0) := by
  cases x <;> simp [pullAtom, bump]
  rename_i j
  by_cases h : id = j
  · subst h; simp
  · have : ¬ j = id := fun e => h e.symm
    simp [h, this]

theorem pullArgs_cursor (env : PatEnv) (l : List (String × Atom)) (cur : Cursor) (id : Nat) :
    (pullArgs env l cur).2 id = cur id + (l.filter fun kv => kv.2 = .pat id).length := by
  induction l generalizing cur with
  | nil => simp [pullArgs]
  | cons kv rest ih =>
    obtain ⟨k, x⟩ := kv
    simp only [pullArgs, ih, pullAtom_cursor, List.filter_cons]
    by_cases h : x = .pat id
    · simp [h]; omega
    · simp [h]

theorem pullPayload_cursor (env : PatEnv) (p : Payload) (cur : Cursor) (id : Nat) :
    (pullPayload env p cur).2 id = cur id + patCountPayload id p := by
  cases p <;> simp [pullPayload, patCountPayload, pullArgs_cursor]

/-! ### the pulled defaults are themselves an assignment of timeline defaults -/

theorem effective_of_same_keys (lib l : Dict) (hk : lib.map (·.1) = l.map (·.1)) (hnd : (lib.map (·.1)).Nodup) :
    lib.map (fun kv => (kv.1, (l.get kv.1).getD kv.2)) = l := by
  induction lib generalizing l with
  | nil =>
    cases l with
    | nil => rfl
    | cons _ _ => simp at hk
  | cons kv rest ih =>
    cases l with
    | nil => simp at hk
    | cons kv' rest' =>
      obtain ⟨k, v⟩ := kv
      obtain ⟨k', v'⟩ := kv'
      simp only [List.map_cons, List.cons.injEq] at hk
      obtain ⟨hkk, hrest⟩ := hk
      subst hkk
      simp only [List.map_cons, List.nodup_cons] at hnd
      simp only [List.map_cons, Dict.get_cons, if_true, Option.getD_some, List.cons.injEq, true_and]
      rw [← ih rest' hrest hnd.2]
      apply List.map_congr_left
      intro kv hkv
      have : ¬ k = kv.1 := by
        intro e
        apply hnd.1
        rw [e]
        exact List.mem_map_of_mem hkv
      simp only [this, if_false]
      rw [ih rest' hrest hnd.2]

theorem effectiveDefaults_keys (ov : Dict) : (effectiveDefaults ov).map (·.1) = libraryDefaults.map (·.1) := by
  unfold effectiveDefaults
  rw [List.map_map]
  rfl

theorem effectiveDefaults_pulled (env : PatEnv) (cur : Cursor) (ov : Dict) :
    effectiveDefaults (pulledDefaults env cur ov) = pulledDefaults env cur ov := by
  unfold effectiveDefaults
  apply effective_of_same_keys
  · unfold pulledDefaults
    rw [pullDefaults_keys, effectiveDefaults_keys]
  · rw [libraryDefaults_keys]
    decide

end IsobarV.Event
