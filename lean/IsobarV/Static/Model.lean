/-
Shared static state (`isobar/pattern/static.py`, `isobar/globals/globals.py`):
`PStaticPattern.__next__` as a state machine over read times, `Globals.get/set` as a finite map.
Import-free.
-/
namespace IsobarV.Static

/-- State of a `PStaticPattern`: how many elements of the inner pattern have been pulled since it was
    last rewound (`idx`), which element is being held (`cur`, an index into the inner pattern) and when
    it was selected. -/
structure St where
  idx : Nat := 0
  cur : Nat := 0
  start : Option Rat := none
  deriving DecidableEq, Repr, Inhabited

/-- One `__next__` at (rounded) timeline time `t` with element duration `d > 0`:
    `while start is None or t - start >= d: value = next(pattern); start = t`.
    For `d > 0` the loop body runs at most once (afterwards `t - start = 0 < d`). -/
def St.read (s : St) (t d : Rat) : St :=
  match s.start with
  | none => { idx := s.idx + 1, cur := s.idx, start := some t }
  | some st => if d ≤ t - st then { idx := s.idx + 1, cur := s.idx, start := some t } else s

/-- The element index returned by a read. -/
def St.held (s : St) : Nat := s.cur

/-- `Pattern.reset` reaching the static pattern (every constructor of a pattern built around it calls it:
    `PSequence([static])`, `PReset`, `all()`, `Timeline.reset`): `PStaticPattern` has no `reset` of its
    own, so the inherited one rewinds the INNER pattern and nothing else — the value held and the time it
    was selected are the shared state and stay. -/
def St.rewind (s : St) : St := { s with idx := 0 }

def reads (d : Rat) : St → List Rat → St
  | s, [] => s
  | s, t :: ts => reads d (s.read t d) ts

/-- `Globals`: an association list (latest binding first). -/
abbrev GMap := List (String × Int)

def gset (m : GMap) (k : String) (v : Int) : GMap := (k, v) :: m
def gget (m : GMap) (k : String) (default : Int) : Int :=
  match m.find? (fun e => e.1 == k) with
  | some e => e.2
  | none => default

/-! ### `Globals` holding patterns: the by-name reference `PGlobals(name)`

`Globals.get(key)` returns `Pattern.value(Globals.dict[key])`: a scalar as it is, a pattern's NEXT value — the
stored pattern object is advanced, so successive reads (by any number of `PGlobals` readers) walk through it.
`Globals.set(key, v)` (both forms) replaces the target.  Values are opaque tokens (`String`); a pattern target
is an endlessly repeated sequence with its read position. -/

inductive GVal
  | scalar (v : String)
  | seq (vals : List String) (pos : Nat)
  deriving DecidableEq, Repr, Inhabited

abbrev GEnv := List (String × GVal)

def GEnv.lookup (e : GEnv) (k : String) : Option GVal :=
  match e.find? (fun x => x.1 == k) with
  | some x => some x.2
  | none => none

/-- `Globals.set(k, v)` / `Globals.set({k: v})` -/
def GEnv.set (e : GEnv) (k : String) (v : GVal) : GEnv := (k, v) :: e

/-- `next(PGlobals(k, default))`: the value read and the environment afterwards (`none` = the default) -/
def GEnv.read (e : GEnv) (k : String) : Option String × GEnv :=
  match e.lookup k with
  | none => (none, e)
  | some (.scalar v) => (some v, e)
  | some (.seq vals pos) =>
    match vals with
    | [] => (none, e)                                   -- (an empty sequence is never generated: it ends at once)
    | _ => (vals[pos % vals.length]?, (k, .seq vals (pos + 1)) :: e)

/-- `n` successive reads of one name -/
def GEnv.reads (e : GEnv) (k : String) : Nat → List (Option String) × GEnv
  | 0 => ([], e)
  | n + 1 =>
    let r := e.read k
    let rs := GEnv.reads r.2 k n
    (r.1 :: rs.1, rs.2)

end IsobarV.Static
