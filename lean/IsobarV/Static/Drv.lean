/-
Driver for the static-state model (suite `static`).  Glue only.
  new <d>                 start a new static pattern with element duration d (rational n/d)
  read <t>                one read at time t (rational): prints the element index returned
  rewind                  Pattern.reset reaches the static pattern (a constructor built around it, …)
  gnew                    an empty Globals
  gset <name> s:<tok>     Globals.set(name, scalar)            (tokens are opaque: the harness writes repr-like words)
  gset <name> q:<t,t,…>   Globals.set(name, PSequence([…]))
  gget <name>             next(PGlobals(name, default)): prints the token read, or `default`
-/
import IsobarV.Static.Model
import IsobarV.Util.Parse

namespace IsobarV.Static.Drv
open IsobarV.Static IsobarV.Util

def parseRat (s : String) : Rat :=
  match s.splitOn "/" with
  | [n, d] => mkRat (n.toInt?.getD 0) (d.toNat?.getD 1)
  | [n] => (n.toInt?.getD 0 : Int)
  | _ => 0

structure DSt where
  d : Rat := 1
  s : St := {}
  g : GEnv := []
  deriving Inhabited

def handle (x : DSt) (line : String) : IO DSt := do
  match words line with
  | ["new", d] => IO.println "ok"; return { d := parseRat d, s := {} }
  | ["read", t] =>
    let s' := x.s.read (parseRat t) x.d
    IO.println (toString s'.held)
    return { x with s := s' }
  | ["gnew"] => IO.println "ok"; return { x with g := [] }
  | ["gset", k, v] =>
    let gv : GVal := if v.startsWith "q:" then .seq ((v.drop 2).toString.splitOn ",") 0 else .scalar (v.drop 2).toString
    IO.println "ok"
    return { x with g := x.g.set k gv }
  | ["gget", k] =>
    let r := x.g.read k
    IO.println (r.1.getD "default")
    return { x with g := r.2 }
  | ["rewind"] => IO.println "ok"; return { x with s := x.s.rewind }
  | [] => return x
  | _ => IO.println "bad-line"; return x

def main : IO Unit := do
  let stdin ← IO.getStdin
  let _ ← foldLines stdin ({} : DSt) handle
  return ()

end IsobarV.Static.Drv
