/-
Driver for the static-state model (suite `static`).  Glue only.
  new <d>                 start a new static pattern with element duration d (rational n/d)
  read <t>                one read at time t (rational): prints the element index returned
  rewind                  Pattern.reset reaches the static pattern (a constructor built around it, …)
-/
import IsobarV.Static.Model
import IsobarV.Util.Parse

namespace IsobarV.Static.Drv
open IsobarV.Static IsobarV.Util

def parseRat (s : String) : Rat :=
  match s.splitOn "/" with
  | [n, d] => mkRat (n.toInt?.getD 0) (d.toNat?.getD 1)
  | [n] => (n.toInt?.getD 0 : Int)
  | _ => 0

structure DSt where
  d : Rat := 1
  s : St := {}
  deriving Inhabited

def handle (x : DSt) (line : String) : IO DSt := do
  match words line with
  | ["new", d] => IO.println "ok"; return { d := parseRat d, s := {} }
  | ["read", t] =>
    let s' := x.s.read (parseRat t) x.d
    IO.println (toString s'.held)
    return { x with s := s' }
  | ["rewind"] => IO.println "ok"; return { x with s := x.s.rewind }
  | [] => return x
  | _ => IO.println "bad-line"; return x

def main : IO Unit := do
  let stdin ← IO.getStdin
  let _ ← foldLines stdin ({} : DSt) handle
  return ()

end IsobarV.Static.Drv
