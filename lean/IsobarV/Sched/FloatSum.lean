/-
C01, the float side of the event times: `Track._advance_next_event_time` (fix cbcd7cb).

    duration = duration - self.next_event_time_error
    next_event_time = self.next_event_time + duration
    self.next_event_time_error = (next_event_time - self.next_event_time) - duration
    self.next_event_time = next_event_time

Compensated (Kahan) summation, modelled over ℚ with an abstract rounding function `fl` after every float
operation.  Assumed of `fl`, as hypotheses of the theorems (never as axioms):

* the standard model `|fl x - x| ≤ ε |x|`;
* along the run, the two subtractions that recover the rounding error of the addition are exact
  (`Exact`): `fl (t - s) = t - s` and `fl ((t - s) - y) = (t - s) - y`.  For IEEE-754 binary arithmetic this
  is the Fast2Sum theorem (Dekker 1971) whenever `|s| ≥ |y|` — the running time against one duration.  It
  is NOT proved here; the harness checks it, in exact rational arithmetic, on every addition of its
  long runs (`c01.float_sum_cases`).

Theorem (`kahan_error`): after ANY number `k` of events the accumulated time differs from the exact sum of
the durations by at most `ε M + ε (Σ|dᵢ| + k ε M)` where `M` bounds the running time — one rounding of the
total, plus the roundings of the (tiny) corrected durations; nothing grows with `k` beyond second order.
Plain `+=` admits `k ε M / 2`.
-/
import Mathlib.Tactic.Linarith
import Mathlib.Tactic.Positivity
import Mathlib.Tactic.Ring
import Mathlib.Tactic.NormNum
import Mathlib.Algebra.Order.AbsoluteValue.Basic
import Mathlib.Algebra.BigOperators.Group.List.Basic
import Mathlib.Data.Rat.Defs
import Mathlib.Algebra.Order.Field.Rat

namespace IsobarV.FloatSum

structure KS where
  s : ℚ      -- next_event_time
  c : ℚ      -- next_event_time_error
  deriving Repr

/-- The corrected duration `y`, the new time `t`. -/
def corrected (fl : ℚ → ℚ) (st : KS) (d : ℚ) : ℚ := fl (d - st.c)
def newTime (fl : ℚ → ℚ) (st : KS) (d : ℚ) : ℚ := fl (st.s + corrected fl st d)

/-- `Track._advance_next_event_time`. -/
def kstep (fl : ℚ → ℚ) (st : KS) (d : ℚ) : KS :=
  { s := newTime fl st d, c := fl (fl (newTime fl st d - st.s) - corrected fl st d) }

def krun (fl : ℚ → ℚ) : KS → List ℚ → KS
  | st, [] => st
  | st, d :: ds => krun fl (kstep fl st d) ds

/-- The error-recovering subtractions are exact along the run (Fast2Sum). -/
def Exact (fl : ℚ → ℚ) : KS → List ℚ → Prop
  | _, [] => True
  | st, d :: ds =>
    fl (newTime fl st d - st.s) = newTime fl st d - st.s ∧
    fl ((newTime fl st d - st.s) - corrected fl st d) = (newTime fl st d - st.s) - corrected fl st d ∧
    Exact fl (kstep fl st d) ds

/-- The running time stays below `M` in magnitude. -/
def Mag (fl : ℚ → ℚ) (M : ℚ) : KS → List ℚ → Prop
  | _, [] => True
  | st, d :: ds => |st.s + corrected fl st d| ≤ M ∧ Mag fl M (kstep fl st d) ds

/-- One step: `(s, c)` represents `s - c`; the step adds `d` to it up to the rounding of `d - c` alone. -/
theorem kstep_spec (fl : ℚ → ℚ) (ε M : ℚ) (hfl : ∀ x, |fl x - x| ≤ ε * |x|) (st : KS) (d : ℚ)
    (h1 : fl (newTime fl st d - st.s) = newTime fl st d - st.s)
    (h2 : fl ((newTime fl st d - st.s) - corrected fl st d) = (newTime fl st d - st.s) - corrected fl st d)
    (hM : |st.s + corrected fl st d| ≤ M) (hε : 0 ≤ ε) :
    |((kstep fl st d).s - (kstep fl st d).c) - ((st.s - st.c) + d)| ≤ ε * |d - st.c| ∧
    |(kstep fl st d).c| ≤ ε * M := by
  have hc : (kstep fl st d).c = (newTime fl st d - st.s) - corrected fl st d := by
    simp only [kstep]; rw [h1, h2]
  have hs : (kstep fl st d).s = newTime fl st d := rfl
  constructor
  · rw [hc, hs]
    have : newTime fl st d - (newTime fl st d - st.s - corrected fl st d) - (st.s - st.c + d) =
        corrected fl st d - (d - st.c) := by ring
    rw [this]
    exact hfl (d - st.c)
  · rw [hc]
    have : newTime fl st d - st.s - corrected fl st d = fl (st.s + corrected fl st d) - (st.s + corrected fl st d) := by
      simp only [newTime]; ring
    rw [this]
    exact (hfl _).trans (mul_le_mul_of_nonneg_left hM hε)

/-- The invariant over a whole run. -/
theorem krun_spec (fl : ℚ → ℚ) (ε M : ℚ) (hε : 0 ≤ ε) (hfl : ∀ x, |fl x - x| ≤ ε * |x|) :
    ∀ (ds : List ℚ) (st : KS), |st.c| ≤ ε * M → Exact fl st ds → Mag fl M st ds →
      |((krun fl st ds).s - (krun fl st ds).c) - ((st.s - st.c) + ds.sum)| ≤
        ε * ((ds.map (fun d => |d|)).sum + ds.length * (ε * M)) ∧
      |(krun fl st ds).c| ≤ ε * M := by
  intro ds
  induction ds with
  | nil =>
    intro st hc _ _
    simp [krun, hc]
  | cons d ds ih =>
    intro st hc hE hG
    obtain ⟨e1, e2, e3⟩ := hE
    obtain ⟨g1, g2⟩ := hG
    obtain ⟨k1, k2⟩ := kstep_spec fl ε M hfl st d e1 e2 g1 hε
    obtain ⟨i1, i2⟩ := ih (kstep fl st d) k2 e3 g2
    refine ⟨?_, i2⟩
    simp only [krun, List.sum_cons, List.map_cons, List.length_cons]
    have hd : |d - st.c| ≤ |d| + ε * M := by
      calc |d - st.c| ≤ |d| + |st.c| := abs_sub _ _
        _ ≤ |d| + ε * M := by linarith
    have hmul : ε * |d - st.c| ≤ ε * (|d| + ε * M) := mul_le_mul_of_nonneg_left hd hε
    have hsplit : ((krun fl (kstep fl st d) ds).s - (krun fl (kstep fl st d) ds).c) - ((st.s - st.c) + (d + ds.sum)) =
        (((krun fl (kstep fl st d) ds).s - (krun fl (kstep fl st d) ds).c) - (((kstep fl st d).s - (kstep fl st d).c) + ds.sum)) +
        ((((kstep fl st d).s - (kstep fl st d).c)) - ((st.s - st.c) + d)) := by ring
    rw [hsplit]
    calc |(((krun fl (kstep fl st d) ds).s - (krun fl (kstep fl st d) ds).c) - (((kstep fl st d).s - (kstep fl st d).c) + ds.sum)) +
          ((((kstep fl st d).s - (kstep fl st d).c)) - ((st.s - st.c) + d))|
        ≤ |((krun fl (kstep fl st d) ds).s - (krun fl (kstep fl st d) ds).c) - (((kstep fl st d).s - (kstep fl st d).c) + ds.sum)| +
          |(((kstep fl st d).s - (kstep fl st d).c)) - ((st.s - st.c) + d)| := abs_add_le _ _
      _ ≤ ε * ((ds.map (fun d => |d|)).sum + ds.length * (ε * M)) + ε * (|d| + ε * M) := add_le_add i1 (k1.trans hmul)
      _ = ε * (|d| + (ds.map (fun d => |d|)).sum + ((ds.length + 1 : ℕ) : ℚ) * (ε * M)) := by push_cast; ring

/-- **Event times do not drift**: started at `s₀` with no pending correction, after the durations `ds`
    (any number of them) the accumulated time is within `ε M + ε (Σ|dᵢ| + k ε M)` of the exact time. -/
theorem kahan_error (fl : ℚ → ℚ) (ε M : ℚ) (hε : 0 ≤ ε) (hM0 : 0 ≤ M) (hfl : ∀ x, |fl x - x| ≤ ε * |x|)
    (s0 : ℚ) (ds : List ℚ) (hE : Exact fl ⟨s0, 0⟩ ds) (hG : Mag fl M ⟨s0, 0⟩ ds) :
    |(krun fl ⟨s0, 0⟩ ds).s - (s0 + ds.sum)| ≤ ε * M + ε * ((ds.map (fun d => |d|)).sum + ds.length * (ε * M)) := by
  obtain ⟨h1, h2⟩ := krun_spec fl ε M hε hfl ds ⟨s0, 0⟩ (by simp; positivity) hE hG
  simp only [sub_zero] at h1
  have : (krun fl ⟨s0, 0⟩ ds).s - (s0 + ds.sum) =
      ((krun fl ⟨s0, 0⟩ ds).s - (krun fl ⟨s0, 0⟩ ds).c - (s0 + ds.sum)) + (krun fl ⟨s0, 0⟩ ds).c := by ring
  rw [this]
  calc |((krun fl ⟨s0, 0⟩ ds).s - (krun fl ⟨s0, 0⟩ ds).c - (s0 + ds.sum)) + (krun fl ⟨s0, 0⟩ ds).c|
      ≤ |(krun fl ⟨s0, 0⟩ ds).s - (krun fl ⟨s0, 0⟩ ds).c - (s0 + ds.sum)| + |(krun fl ⟨s0, 0⟩ ds).c| := abs_add_le _ _
    _ ≤ ε * ((ds.map (fun d => |d|)).sum + ds.length * (ε * M)) + ε * M := add_le_add h1 h2
    _ = ε * M + ε * ((ds.map (fun d => |d|)).sum + ds.length * (ε * M)) := by ring

/-- In exact arithmetic the compensated sum IS the sum (the repair changes nothing but the rounding):
    this is how the integer-time scheduler model (`nxt := nxt + d`) reads the same code. -/
theorem kahan_exact_arithmetic (s0 : ℚ) (ds : List ℚ) : krun id ⟨s0, 0⟩ ds = ⟨s0 + ds.sum, 0⟩ := by
  induction ds generalizing s0 with
  | nil => simp [krun]
  | cons d ds ih =>
    have : kstep id ⟨s0, 0⟩ d = ⟨s0 + d, 0⟩ := by
      simp [kstep, newTime, corrected]
    simp only [krun, this, List.sum_cons]
    rw [ih]
    congr 1
    ring

/-- Non-vacuity: the hypotheses hold for exact arithmetic on a concrete run. -/
example : Exact id ⟨0, 0⟩ [1 / 10, 1 / 3, 7] ∧ Mag id 8 ⟨0, 0⟩ [1 / 10, 1 / 3, 7] := by
  simp only [Exact, Mag, kstep, newTime, corrected, id]
  norm_num

end IsobarV.FloatSum
