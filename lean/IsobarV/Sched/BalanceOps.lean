/-
C02 helper lemmas, part 2: every API call, every callback script, every track tick and every
timeline tick keeps the balance  on + pending-before = off + pending-after,  and never leaves a
finished-and-removable track in the timeline.
-/
import IsobarV.Sched.Balance

namespace IsobarV.Sched
variable {nc : NC}

theorem onCount_flatten_flush (ts : List Track) : onCount nc ((ts.map Track.flushCalls).flatten) = 0 := by
  induction ts with
  | nil => rfl
  | cons t ts ih => simp [Track.flushCalls, ih]

theorem offCount_flatten_flush (ts : List Track) :
    offCount nc ((ts.map Track.flushCalls).flatten) = pendTracks nc ts := by
  induction ts with
  | nil => rfl
  | cons t ts ih => simp [Track.flushCalls, ih]

/-- Modifying a found track without touching its pending list keeps the count. -/
theorem pend_modify {tl : TL} {tid : Nat} {t t' : Track} (h : tl.find tid = some t)
    (hid : t'.id = t.id) (ho : t'.offs = t.offs) : pend nc (tl.setTrack t') = pend nc tl := by
  have h' : tl.find t'.id = some t := by rw [hid]; exact find_self_id h
  exact pend_setTrack_same h' ho

theorem fresh_modify {tl : TL} {t' : Track} (hA : AllFresh tl.tracks) (ht : Fresh t') :
    AllFresh (tl.setTrack t').tracks := by
  simpa [TL.setTrack] using hA.setFirst ht

theorem applyOp_bal (tl : TL) (op : Op) (hA : AllFresh tl.tracks) :
    Bal nc tl (applyOp tl op).calls (applyOp tl op).tl ∧ AllFresh (applyOp tl op).tl.tracks := by
  cases op with
  | schedule sid qz dl count rwd name replace =>
    simp only [applyOp]
    split
    · -- existing named track
      rename_i t hex
      have hft : tl.find t.id = some t := by
        cases name with
        | none => simp at hex
        | some n =>
          simp only at hex
          split at hex
          · split at hex
            · exact find_self_id hex
            · simp at hex
          · simp at hex
      have hp := pend_updateTrack (nc := nc) hft sid qz dl count
      have hfr := fresh_updateTrack hA (hA.find hft) sid qz dl count
      have hfind := find_updateTrack hft sid qz dl count
      simp only [hfind]
      obtain ⟨ho, hi, hf, hr⟩ := updateCore_offs tl t sid qz dl count
      constructor
      · apply Bal.of_pend_eq
        rw [pend_modify (t := (updateCore tl t sid qz dl count).t) hfind (by simp) (by simp)]
        exact hp
      · apply fresh_modify hfr
        have := hA.find hft
        simpa [Fresh, hf, hr] using this
    · split
      · exact ⟨Bal.of_pend_eq rfl, hA⟩
      · obtain ⟨ho, _, hf, _⟩ := updateCore_offs tl (newTrack tl.nextId name (count.getD 0) rwd) sid qz dl none
        constructor
        · apply Bal.of_pend_eq
          simp only [pend, pendTracks_append, pendTracks_cons, pendTracks_nil, ho]
          simp [newTrack]
        · intro x hx
          simp only [List.mem_append, List.mem_singleton] at hx
          rcases hx with hx | rfl
          · exact hA x hx
          · simp only [Fresh, hf]; simp [newTrack]
  | scheduleAt idx sid qz dl count rwd =>
    simp only [applyOp]
    split
    · exact ⟨Bal.of_pend_eq rfl, hA⟩
    · obtain ⟨ho, _, hf, _⟩ := updateCore_offs tl (newTrack tl.nextId none (count.getD 0) rwd) sid qz dl none
      constructor
      · apply Bal.of_pend_eq
        have hsplit : pendTracks nc (tl.tracks.take idx) + pendTracks nc (tl.tracks.drop idx) = pendTracks nc tl.tracks := by
          rw [← pendTracks_append, List.take_append_drop]
        simp only [pend, pendTracks_append, pendTracks_cons, ho]
        simp only [newTrack, pendOffs_nil]
        omega
      · intro x hx
        simp only [List.mem_append, List.mem_cons] at hx
        rcases hx with hx | rfl | hx
        · exact hA x (List.mem_of_mem_take hx)
        · simp only [Fresh, hf]; simp [newTrack]
        · exact hA x (List.mem_of_mem_drop hx)
  | update tid sid qz dl count =>
    simp only [applyOp]
    split
    · rename_i t hf
      have hft := find_self_id hf
      exact ⟨Bal.of_pend_eq (pend_updateTrack hft sid qz dl count), fresh_updateTrack hA (hA.find hft) sid qz dl count⟩
    · exact ⟨Bal.of_pend_eq rfl, hA⟩
  | unschedule tid =>
    simp only [applyOp]
    split
    · rename_i t hf
      constructor
      · have := pend_removeTrack (nc := nc) hf
        simp only [Bal, Track.flushCalls, onCount_offCalls, offCount_offCalls]; omega
      · simpa [TL.removeTrack] using hA.eraseFirst
    · exact ⟨Bal.of_pend_eq rfl, hA⟩
  | clear =>
    simp only [applyOp]
    constructor
    · simp [Bal, onCount_flatten_flush, offCount_flatten_flush, pend]
    · intro x hx; simp at hx
  | mute tid =>
    simp only [applyOp]
    split
    · rename_i t hf
      exact ⟨Bal.of_pend_eq (pend_modify hf rfl rfl), fresh_modify hA (by simpa [Fresh] using hA.find hf)⟩
    · exact ⟨Bal.of_pend_eq rfl, hA⟩
  | unmute tid =>
    simp only [applyOp]
    split
    · rename_i t hf
      exact ⟨Bal.of_pend_eq (pend_modify hf rfl rfl), fresh_modify hA (by simpa [Fresh] using hA.find hf)⟩
    · exact ⟨Bal.of_pend_eq rfl, hA⟩
  | nudge tid x =>
    simp only [applyOp]
    split
    · rename_i t hf
      exact ⟨Bal.of_pend_eq (pend_modify hf rfl rfl), fresh_modify hA (by simpa [Fresh] using hA.find hf)⟩
    · exact ⟨Bal.of_pend_eq rfl, hA⟩
  | setMax n => exact ⟨Bal.of_pend_eq rfl, hA⟩
  | setDefaults qz dl => exact ⟨Bal.of_pend_eq rfl, hA⟩
  | setStopWhenDone b => exact ⟨Bal.of_pend_eq rfl, hA⟩
  | setLatency l => exact ⟨Bal.of_pend_eq rfl, hA⟩

theorem applyOps_bal (tl : TL) (ops : List Op) (hA : AllFresh tl.tracks) :
    Bal nc tl (applyOps tl ops).calls (applyOps tl ops).tl ∧ AllFresh (applyOps tl ops).tl.tracks := by
  induction ops generalizing tl with
  | nil => exact ⟨Bal.of_pend_eq rfl, hA⟩
  | cons op ops ih =>
    obtain ⟨h1, h1f⟩ := applyOp_bal (nc := nc) tl op hA
    simp only [applyOps]
    split
    · obtain ⟨h2, h2f⟩ := ih (applyOp tl op).tl h1f
      exact ⟨h1.trans h2, h2f⟩
    · exact ⟨h1, h1f⟩

end IsobarV.Sched

namespace IsobarV.Sched
variable {nc : NC}

theorem performVoices_counts (base : Nat) (vs : List Voice) :
    onCount nc (performVoices base vs).calls = pendOffs nc (performVoices base vs).offs ∧
    offCount nc (performVoices base vs).calls = 0 := by
  induction vs with
  | nil => simp [performVoices]
  | cons v vs ih =>
    simp only [performVoices]
    split
    · split
      · simp
      · obtain ⟨h1, h2⟩ := ih
        have hon : Call.isOn nc (Call.noteOn v.note v.amp v.chan)
            = NoteOff.is nc { time := base + v.len, note := v.note, chan := v.chan } := rfl
        have hoff : Call.isOff nc (Call.noteOn v.note v.amp v.chan) = false := rfl
        simp only [onCount, offCount, pendOffs, List.countP_cons, hon, hoff] at *
        simp only [Bool.false_eq_true, if_false]
        omega
    · exact ih

/-- What a pull does to the track record: only the cursor, the event count and the next event time. -/
def SameCore (t t' : Track) : Prop :=
  t'.id = t.id ∧ t'.offs = t.offs ∧ t'.finished = t.finished ∧ t'.rwd = t.rwd ∧ t'.muted = t.muted ∧ t'.cur = t.cur

theorem SameCore.refl (t : Track) : SameCore t t := ⟨rfl, rfl, rfl, rfl, rfl, rfl⟩
theorem SameCore.trans {a b c : Track} (h1 : SameCore a b) (h2 : SameCore b c) : SameCore a c := by
  obtain ⟨a1, a2, a3, a4, a5, a6⟩ := h1; obtain ⟨b1, b2, b3, b4, b5, b6⟩ := h2
  exact ⟨b1.trans a1, b2.trans a2, b3.trans a3, b4.trans a4, b5.trans a5, b6.trans a6⟩

theorem getNext_same (W : World) (t : Track) : SameCore t (t.getNext W).t := by
  unfold Track.getNext
  split
  · exact SameCore.refl t
  · split <;> simp [SameCore]

theorem pullLoop_same (W : World) (q : Nat) (fuel : Nat) (t : Track) (last : Pull) :
    SameCore t (Track.pullLoop W q fuel t last).t := by
  induction fuel generalizing t last with
  | zero => exact SameCore.refl t
  | succ n ih =>
    simp only [Track.pullLoop]
    split
    · have hg := getNext_same W t
      split
      · rename_i d a k _
        refine hg.trans (SameCore.trans ?_ (ih _ _))
        simp [SameCore]
      · exact hg
      · exact hg
      · exact hg
    · exact SameCore.refl t

theorem performEvent_bal (tl : TL) (t : Track) (d : Nat) (a : Bool) (k : EvKind)
    (hf : tl.find t.id = some t) (hA : AllFresh tl.tracks) :
    Bal nc tl (performEvent tl t d a k).calls (performEvent tl t d a k).tl ∧
    AllFresh (performEvent tl t d a k).tl.tracks := by
  unfold performEvent
  split
  · exact ⟨Bal.of_pend_eq rfl, hA⟩
  · cases k with
    | note vs =>
      simp only []
      obtain ⟨h1, h2⟩ := performVoices_counts (nc := nc) (t.cur * tl.q) vs
      constructor
      · have := pend_setTrack (nc := nc) (tl := tl) (t := { t with offs := t.offs ++ (performVoices (t.cur * tl.q) vs).offs }) hf
        simp only [pendOffs_append] at this
        simp only [Bal]; omega
      · exact fresh_modify hA (by simpa [Fresh] using hA.find hf)
    | control cc v ch bad =>
      simp only []
      split
      · exact ⟨Bal.of_pend_eq rfl, hA⟩
      · exact ⟨by simp [Bal, onCount, offCount, Call.isOn, Call.isOff], hA⟩
    | program p ch bad =>
      simp only []
      split
      · exact ⟨Bal.of_pend_eq rfl, hA⟩
      · exact ⟨by simp [Bal, onCount, offCount, Call.isOn, Call.isOff], hA⟩
    | action ops out =>
      simp only []
      exact applyOps_bal tl ops hA

/-- After a track tick every track is fresh, except possibly the ticked one, which then carries no
    pending note-off: the timeline is all fresh, or `X.setTrack t'` for an all-fresh `X`. -/
def PostTick (tid : Nat) (tl' : TL) : Prop :=
  AllFresh tl'.tracks ∨
  ∃ (X : TL) (t' : Track), AllFresh X.tracks ∧ tl'.tracks = setFirst t' X.tracks ∧ t'.id = tid ∧ t'.offs = [] ∧
    X.find tid ≠ none

theorem endTick_bal (tl : TL) (tid : Nat) (stopped : Bool) (hA : AllFresh tl.tracks) :
    pend nc (endTick tl tid stopped) = pend nc tl ∧ PostTick tid (endTick tl tid stopped) := by
  unfold endTick
  split
  · exact ⟨rfl, Or.inl hA⟩
  · rename_i t hf
    have hid := findTrack_id hf
    have hfr := hA.find hf
    refine ⟨pend_modify hf rfl rfl, ?_⟩
    by_cases hst : stopped = true
    · by_cases he : t.offs = []
      · right
        exact ⟨tl, _, hA, rfl, by simpa using hid, by simpa using he, by rw [hf]; simp⟩
      · left
        apply fresh_modify hA
        have : t.offs.isEmpty = false := by cases h : t.offs <;> simp_all
        simpa [Fresh, this, hst] using hfr
    · left
      apply fresh_modify hA
      simpa [Fresh, hst] using hfr

theorem afterPull_bal (tl : TL) (tid : Nat) (t : Track) (p : PullRes) (hf : tl.find tid = some t)
    (hs : SameCore t p.t) (hA : AllFresh tl.tracks) :
    Bal nc tl (afterPull tl tid p).calls (afterPull tl tid p).tl ∧ PostTick tid (afterPull tl tid p).tl ∧
    ((afterPull tl tid p).out ≠ .ok → AllFresh (afterPull tl tid p).tl.tracks) := by
  have hft := find_self_id hf
  have hfr := hA.find hf
  obtain ⟨s1, s2, s3, s4, _, _⟩ := hs
  have hp1 : pend nc (tl.setTrack p.t) = pend nc tl := pend_modify hf s1 s2
  have hfr1 : AllFresh (tl.setTrack p.t).tracks := fresh_modify hA (by simpa [Fresh, s3, s4] using hfr)
  have hfind1 : (tl.setTrack p.t).find p.t.id = some p.t := find_setTrack (by rw [s1]; exact hft)
  unfold afterPull
  split
  · exact ⟨Bal.of_pend_eq hp1, Or.inl hfr1, fun _ => hfr1⟩
  · exact ⟨Bal.of_pend_eq hp1, Or.inl hfr1, fun _ => hfr1⟩
  · obtain ⟨e1, e2⟩ := endTick_bal (nc := nc) (tl.setTrack p.t) tid true hfr1
    exact ⟨Bal.of_pend_eq (e1.trans hp1), e2, fun h => absurd rfl h⟩
  · rename_i d a k _
    obtain ⟨hb, hfp⟩ := performEvent_bal (nc := nc) (tl.setTrack p.t) p.t d a k hfind1 hfr1
    have hb' : Bal nc tl (performEvent (tl.setTrack p.t) p.t d a k).calls (performEvent (tl.setTrack p.t) p.t d a k).tl := by
      have := (Bal.of_pend_eq (nc := nc) hp1).trans hb; simpa using this
    split
    · exact ⟨hb', Or.inl hfp, fun _ => hfp⟩
    · obtain ⟨e1, e2⟩ := endTick_bal (nc := nc) (performEvent (tl.setTrack p.t) p.t d a k).tl tid
        (performEvent (tl.setTrack p.t) p.t d a k).stopped hfp
      refine ⟨?_, e2, fun h => absurd rfl h⟩
      simp only [Bal] at hb' ⊢; omega

theorem tickTrack_bal (W : World) (tl : TL) (tid : Nat) (hA : AllFresh tl.tracks) :
    Bal nc tl (tickTrack W tl tid).calls (tickTrack W tl tid).tl ∧ PostTick tid (tickTrack W tl tid).tl ∧
    ((tickTrack W tl tid).out ≠ .ok → AllFresh (tickTrack W tl tid).tl.tracks) := by
  unfold tickTrack
  split
  · exact ⟨Bal.of_pend_eq rfl, Or.inl hA, fun _ => hA⟩
  · rename_i t hf
    split
    · exact ⟨Bal.of_pend_eq rfl, Or.inl hA, fun _ => hA⟩
    · split
      · exact afterPull_bal tl tid t _ hf (pullLoop_same W tl.q _ t .stop) hA
      · obtain ⟨e1, e2⟩ := endTick_bal (nc := nc) tl tid false hA
        exact ⟨Bal.of_pend_eq e1, e2, fun h => absurd rfl h⟩

end IsobarV.Sched

namespace IsobarV.Sched
variable {nc : NC}

theorem dropFinished_bal (tl : TL) (tid : Nat) (h : PostTick tid tl) :
    pend nc (dropFinished tl tid) = pend nc tl ∧ AllFresh (dropFinished tl tid).tracks := by
  unfold dropFinished
  rcases h with hA | ⟨X, t', hX, htr, hid, hoffs, hne⟩
  · split
    · rename_i t hf
      have := hA.find hf
      split
      · rename_i hc; exact absurd hc (by simpa [Fresh] using this)
      · exact ⟨rfl, hA⟩
    · exact ⟨rfl, hA⟩
  · have hfX : ∃ u, findTrack t'.id X.tracks = some u := by
      rw [hid]; cases h : findTrack tid X.tracks with
      | none => exact absurd h hne
      | some u => exact ⟨u, rfl⟩
    obtain ⟨u, hu⟩ := hfX
    have hfind : tl.find tid = some t' := by
      have := findTrack_setFirst hu
      simpa [TL.find, htr, hid] using this
    simp only [hfind]
    split
    · constructor
      · have := pend_removeTrack (nc := nc) hfind
        simp only [hoffs, pendOffs_nil] at this; omega
      · simp only [TL.removeTrack, htr, ← hid, eraseFirst_setFirst]
        exact hX.eraseFirst
    · rename_i hc
      refine ⟨rfl, ?_⟩
      rw [htr]; exact hX.setFirst (by simpa [Fresh] using hc)

theorem phaseTracks_bal (W : World) (ids : List Nat) (tl : TL) (hA : AllFresh tl.tracks) :
    Bal nc tl (phaseTracks W tl ids).calls (phaseTracks W tl ids).tl ∧ AllFresh (phaseTracks W tl ids).tl.tracks := by
  induction ids generalizing tl with
  | nil => exact ⟨Bal.of_pend_eq rfl, hA⟩
  | cons tid rest ih =>
    obtain ⟨hb, hpost, hraise⟩ := tickTrack_bal (nc := nc) W tl tid hA
    simp only [phaseTracks]
    split
    · rename_i ho; exact ⟨hb, hraise (by simp [ho])⟩
    · rename_i ho
      have hfr := hraise (by simp [ho])
      split
      · have hfr2 : AllFresh ((tickTrack W tl tid).tl.removeTrack tid).tracks := by
          simpa [TL.removeTrack] using hfr.eraseFirst
        obtain ⟨ih1, ih2⟩ := ih _ hfr2
        refine ⟨?_, ih2⟩
        have hflush : Bal nc (tickTrack W tl tid).tl (flushOf (tickTrack W tl tid).tl tid)
            ((tickTrack W tl tid).tl.removeTrack tid) := by
          unfold flushOf
          cases hf : (tickTrack W tl tid).tl.find tid with
          | none =>
            have : ((tickTrack W tl tid).tl.removeTrack tid).tracks = (tickTrack W tl tid).tl.tracks := by
              simpa [TL.removeTrack] using eraseFirst_none hf
            simp [Bal, pend, this]
          | some t =>
            have := pend_removeTrack (nc := nc) hf
            simp only [Bal, Track.flushCalls, onCount_offCalls, offCount_offCalls]; omega
        exact (hb.trans hflush).trans ih1
      · exact ⟨hb, hfr⟩
    · obtain ⟨d1, d2⟩ := dropFinished_bal (nc := nc) _ tid hpost
      obtain ⟨ih1, ih2⟩ := ih _ d2
      refine ⟨?_, ih2⟩
      have : Bal nc (tickTrack W tl tid).tl [] (dropFinished (tickTrack W tl tid).tl tid) := Bal.of_pend_eq d1
      have := (hb.trans this).trans ih1
      simpa using this

theorem pendTracks_processOffs (q : Nat) (ts : List Track) :
    pendTracks nc (ts.map (Track.processOffs q)) + offCount nc (phaseOffsCalls q ts) = pendTracks nc ts ∧
    onCount nc (phaseOffsCalls q ts) = 0 := by
  induction ts with
  | nil => simp [phaseOffsCalls]
  | cons t ts ih =>
    obtain ⟨h1, h2⟩ := ih
    have hs := pendOffs_filter_split (nc := nc) (fun o => decide (o.time ≤ t.cur * q)) t.offs
    simp only [phaseOffsCalls, List.map_cons, List.flatten_cons, offCount_append, onCount_append,
      pendTracks_cons, Track.processOffs, keepOffs, dueOffs, offCount_offCalls, onCount_offCalls] at *
    refine ⟨?_, by omega⟩
    have e : (List.filter (fun o => !decide (o.time ≤ t.cur * q)) t.offs)
        = (List.filter (fun o => decide ¬ (o.time ≤ t.cur * q)) t.offs) := by
      congr; funext o; by_cases h : o.time ≤ t.cur * q <;> simp [h]
    rw [e] at hs
    omega

theorem allFresh_processOffs (q : Nat) (ts : List Track) (h : AllFresh ts) :
    AllFresh (ts.map (Track.processOffs q)) := by
  intro x hx
  simp only [List.mem_map] at hx
  obtain ⟨t, ht, rfl⟩ := hx
  simpa [Fresh, Track.processOffs] using h t ht

theorem fireOne_bal (tl : TL) (a : PAct) (hA : AllFresh tl.tracks) :
    pend nc (fireOne tl a) = pend nc tl ∧ AllFresh (fireOne tl a).tracks ∧ (fireOne tl a).q = tl.q := by
  unfold fireOne
  split
  · rename_i t hf
    exact ⟨pend_modify hf rfl rfl, fresh_modify hA (by simpa [Fresh, Track.start] using hA.find hf), rfl⟩
  · exact ⟨rfl, hA, rfl⟩

theorem foldl_fireOne_bal (as : List PAct) (tl : TL) (hA : AllFresh tl.tracks) :
    pend nc (as.foldl fireOne tl) = pend nc tl ∧ AllFresh (as.foldl fireOne tl).tracks := by
  induction as generalizing tl with
  | nil => exact ⟨rfl, hA⟩
  | cons a as ih =>
    obtain ⟨h1, h2, _⟩ := fireOne_bal (nc := nc) tl a hA
    obtain ⟨i1, i2⟩ := ih (fireOne tl a) h2
    exact ⟨i1.trans h1, i2⟩

theorem endOfTick_same (r : TickRes) : (endOfTick r).tl.tracks = r.tl.tracks ∧ (endOfTick r).calls = r.calls := by
  unfold endOfTick
  split
  · split <;> exact ⟨rfl, rfl⟩
  · exact ⟨rfl, rfl⟩

theorem tickTL_bal (W : World) (tl : TL) (hA : AllFresh tl.tracks) :
    Bal nc tl (tickTL W tl).calls (tickTL W tl).tl ∧ AllFresh (tickTL W tl).tl.tracks := by
  obtain ⟨p1, p2⟩ := pendTracks_processOffs (nc := nc) tl.q tl.tracks
  have hA1 : AllFresh (phaseOffs tl).tracks := allFresh_processOffs tl.q tl.tracks hA
  obtain ⟨f1, f2⟩ := foldl_fireOne_bal (nc := nc) ((phaseOffs tl).actions.filter (PAct.due (phaseOffs tl))) (phaseOffs tl) hA1
  have hA2 : AllFresh (fireActions (phaseOffs tl)).tracks := by simpa [fireActions] using f2
  have hp2 : pend nc (fireActions (phaseOffs tl)) = pend nc (phaseOffs tl) := by simpa [fireActions, pend] using f1
  obtain ⟨b3, hA3⟩ := phaseTracks_bal (nc := nc) W ((fireActions (phaseOffs tl)).tracks.map Track.id) _ hA2
  have hb : Bal nc tl (phaseOffsCalls tl.q tl.tracks ++
      (phaseTracks W (fireActions (phaseOffs tl)) ((fireActions (phaseOffs tl)).tracks.map Track.id)).calls)
      (phaseTracks W (fireActions (phaseOffs tl)) ((fireActions (phaseOffs tl)).tracks.map Track.id)).tl := by
    have hp1 : pend nc (phaseOffs tl) + offCount nc (phaseOffsCalls tl.q tl.tracks) = pend nc tl := by
      simpa [pend, phaseOffs] using p1
    simp only [Bal, onCount_append, offCount_append] at b3 ⊢
    omega
  obtain ⟨e1, e2⟩ := endOfTick_same (phaseTracks W (fireActions (phaseOffs tl)) ((fireActions (phaseOffs tl)).tracks.map Track.id))
  unfold tickTL
  simp only [e2]
  exact ⟨Bal.congr_tracks hb e1, by rw [e1]; exact hA3⟩

theorem step_bal (W : World) (tl : TL) (s : Step) (hA : AllFresh tl.tracks) :
    Bal nc tl (step W tl s).calls (step W tl s).tl ∧ AllFresh (step W tl s).tl.tracks := by
  cases s with
  | op o => exact applyOp_bal tl o hA
  | tick => exact tickTL_bal W tl hA

theorem run_bal (W : World) (ss : List Step) (tl : TL) (hA : AllFresh tl.tracks) :
    Bal nc tl (run W tl ss).2 (run W tl ss).1 ∧ AllFresh (run W tl ss).1.tracks := by
  induction ss generalizing tl with
  | nil => exact ⟨Bal.of_pend_eq rfl, hA⟩
  | cons s ss ih =>
    obtain ⟨h1, h2⟩ := step_bal (nc := nc) W tl s hA
    obtain ⟨i1, i2⟩ := ih _ h2
    exact ⟨h1.trans i1, i2⟩

end IsobarV.Sched
