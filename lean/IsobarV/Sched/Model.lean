/-
Operational model of isobar's tick-driven scheduler
(`isobar/timelines/timeline.py` : Timeline.tick / schedule / unschedule / clear / _schedule_action,
 `isobar/timelines/track.py`    : Track.tick / start / update / process_note_offs / get_next_event /
                                   perform_event / nudge / mute / unmute).

Time is integer: a run fixes `q` = units per tick; every duration, note length, quantize, delay and
nudge is an integer number of units (the harness picks the unit so that all its rationals are whole).
`Track.cur` counts the track's local ticks, `Track.nxt` is `next_event_time` in units, so the code's
`round(current_time, 8) >= round(next_event_time, 8)` is `nxt ≤ cur * q`.

Import-free, total, computable.  Results of model functions are structures, never tuples.
-/
namespace IsobarV.Sched

/-- A call received by the (recording) output device. -/
inductive Call where
  | noteOn (note amp chan : Int)
  | noteOff (note chan : Int)
  | control (cc val chan : Int)
  | program (p chan : Int)
  deriving DecidableEq, Repr, Inhabited

/-- One voice of a resolved note event.  `len` = duration × gate in units, `gpos` = gate > 0,
    `bad` = the device's note_on raises for this voice (fault injection). -/
structure Voice where
  note : Int
  amp : Int
  len : Nat
  gpos : Bool
  chan : Int
  bad : Bool := false
  deriving DecidableEq, Repr, Inhabited

/-- How a user action callback ends. -/
inductive Outcome where
  | ok | exc | stop
  deriving DecidableEq, Repr, Inhabited

/-- Timeline API calls (usable between ticks and from inside action callbacks).
    `count = 0` means unbounded (Python `None`/`0`); `qz`/`dl = none` means "use the timeline default". -/
inductive Op where
  | schedule (sid : Nat) (qz dl : Option Nat) (count : Option Nat) (rwd : Bool) (name : Option Nat) (replace : Bool)
  | scheduleAt (idx : Nat) (sid : Nat) (qz dl : Option Nat) (count : Option Nat) (rwd : Bool)   -- `track_index=idx`
  | update (tid sid : Nat) (qz dl : Option Nat) (count : Option Nat)
  | unschedule (tid : Nat)
  | clear
  | mute (tid : Nat)
  | unmute (tid : Nat)
  | nudge (tid : Nat) (x : Int)
  | setMax (n : Nat)
  | setDefaults (qz dl : Nat)
  | setStopWhenDone (b : Bool)
  | setLatency (l : Nat)
  deriving DecidableEq, Repr, Inhabited

inductive EvKind where
  | note (vs : List Voice)
  | control (cc val chan : Int) (bad : Bool)
  | program (p chan : Int) (bad : Bool)
  | action (ops : List Op) (out : Outcome)
  deriving DecidableEq, Repr, Inhabited

/-- What a track's event stream yields at one position: a resolved event, or a fault raised while the
    pattern is evaluated (`patFault`, before anything is consumed) or while the Event is constructed
    (`evFault`, after the pattern value was consumed). -/
inductive Item where
  | ev (dur : Nat) (active : Bool) (k : EvKind)
  | patFault
  | evFault
  deriving DecidableEq, Repr, Inhabited

/-- Streams are indexed by a stream id; `none` = StopIteration (sticky by construction). -/
abbrev World := Nat → Nat → Option Item

structure NoteOff where
  time : Nat
  note : Int
  chan : Int
  deriving DecidableEq, Repr, Inhabited

structure Track where
  id : Nat
  name : Option Nat
  sid : Nat
  pos : Nat
  started : Bool
  cur : Nat
  nxt : Int
  count : Nat
  maxCount : Nat
  offs : List NoteOff
  muted : Bool
  finished : Bool
  rwd : Bool
  deriving DecidableEq, Repr, Inhabited

/-- A pending `Track.start` closure queued by `_schedule_action`. -/
structure PAct where
  time : Nat
  tid : Nat
  sid : Nat
  deriving DecidableEq, Repr, Inhabited

structure TL where
  q : Nat
  now : Nat := 0
  tracks : List Track := []
  actions : List PAct := []
  nextId : Nat := 0
  maxTracks : Nat := 0
  stopWhenDone : Bool := false
  tolerant : Bool := false
  defQz : Nat := 0
  defDl : Nat := 0
  latency : Nat := 0
  deriving DecidableEq, Repr, Inhabited

/-- How a call into the timeline returned. -/
inductive Res where
  | ok
  | stopIteration
  | raised
  | limit      -- TrackLimitReachedException
  | notFound   -- TrackNotFoundException
  | diverged   -- the pull loop would not terminate (zero durations); outside the modelled domain
  deriving DecidableEq, Repr, Inhabited

def cdiv (a b : Nat) : Nat := (a + b - 1) / b

/-! ### Track-level functions -/

/-- `Track.process_note_offs`: release, in list order, every pending note-off whose time has come. -/
def dueOffs (q : Nat) (t : Track) : List NoteOff := t.offs.filter (fun o => o.time ≤ t.cur * q)
def keepOffs (q : Nat) (t : Track) : List NoteOff := t.offs.filter (fun o => ¬ (o.time ≤ t.cur * q))
def offCalls (os : List NoteOff) : List Call := os.map (fun o => Call.noteOff o.note o.chan)
def Track.processOffs (q : Nat) (t : Track) : Track := { t with offs := keepOffs q t }

/-- Release everything still sounding on a track (at removal). -/
def Track.flushCalls (t : Track) : List Call := offCalls t.offs

/-- `Track.start`. -/
def Track.start (q : Nat) (t : Track) (sid : Nat) : Track :=
  { t with sid := sid, pos := 0, started := true, nxt := (t.cur * q : Nat) }

/-- Result of playing the voices of a note event. -/
structure VoicesRes where
  calls : List Call
  offs : List NoteOff
  raised : Bool
  deriving Repr

/-- The per-voice loop of `perform_event` for note events. `base` = `cur * q`. -/
def performVoices (base : Nat) : List Voice → VoicesRes
  | [] => { calls := [], offs := [], raised := false }
  | v :: vs =>
    if 0 < v.amp ∧ v.gpos = true then
      if v.bad then { calls := [], offs := [], raised := true }
      else
        let r := performVoices base vs
        { calls := Call.noteOn v.note v.amp v.chan :: r.calls,
          offs := { time := base + v.len, note := v.note, chan := v.chan } :: r.offs,
          raised := r.raised }
    else performVoices base vs

/-- Result of `get_next_event`. -/
inductive Pull where
  | ev (dur : Nat) (active : Bool) (k : EvKind)
  | stop
  | raised
  | diverged
  deriving Repr

structure PullRes where
  t : Track
  r : Pull
  deriving Repr

/-- `Track.get_next_event`. -/
def Track.getNext (W : World) (t : Track) : PullRes :=
  if t.maxCount ≠ 0 ∧ t.maxCount ≤ t.count then { t := t, r := .stop }
  else match W t.sid t.pos with
    | none => { t := t, r := .stop }
    | some .patFault => { t := t, r := .raised }
    | some .evFault => { t := { t with pos := t.pos + 1 }, r := .raised }
    | some (.ev d a k) => { t := { t with pos := t.pos + 1, count := t.count + 1 }, r := .ev d a k }

/-- The `while round(current_time) >= round(next_event_time)` loop; returns the last event pulled.
    `fuel` bounds the iterations (it suffices whenever durations are ≥ 1 unit, see `Lemmas`). -/
def Track.pullLoop (W : World) (q : Nat) : Nat → Track → Pull → PullRes
  | 0, t, _ => { t := t, r := .diverged }   -- out of fuel: zero durations, outside the modelled domain
  | fuel + 1, t, last =>
    if t.nxt ≤ (t.cur * q : Nat) then
      let g := t.getNext W
      match g.r with
      | .ev d a k => Track.pullLoop W q fuel { g.t with nxt := g.t.nxt + d } (.ev d a k)
      | .stop => { t := g.t, r := .stop }
      | .raised => { t := g.t, r := .raised }
      | .diverged => { t := g.t, r := .diverged }
    else { t := t, r := last }

def Track.fuel (q : Nat) (t : Track) : Nat := ((t.cur * q : Nat) - t.nxt).toNat + 2

/-! ### Timeline-level functions -/

/-- Tracks are Python objects; the model finds them by id (first match; ids are unique in every
    reachable state, but nothing below relies on that). -/
def findTrack (tid : Nat) : List Track → Option Track
  | [] => none
  | u :: us => if u.id = tid then some u else findTrack tid us
def setFirst (t : Track) : List Track → List Track
  | [] => []
  | u :: us => if u.id = t.id then t :: us else u :: setFirst t us
def eraseFirst (tid : Nat) : List Track → List Track
  | [] => []
  | u :: us => if u.id = tid then us else u :: eraseFirst tid us

def TL.find (tl : TL) (tid : Nat) : Option Track := findTrack tid tl.tracks
def TL.setTrack (tl : TL) (t : Track) : TL := { tl with tracks := setFirst t tl.tracks }
def TL.removeTrack (tl : TL) (tid : Nat) : TL := { tl with tracks := eraseFirst tid tl.tracks }

/-- `Timeline._schedule_action` time computation. -/
def schedTime (q now qz dl : Nat) : Nat :=
  (if qz = 0 then now * q else qz * cdiv (now * q) qz) + dl

structure OpRes where
  tl : TL
  calls : List Call
  res : Res
  deriving Repr

/-- `Track.update`: what happens to the track object itself, and the start action queued (if any). -/
structure UpdRes where
  t : Track
  act : Option PAct
  deriving Repr

def updateCore (tl : TL) (t : Track) (sid : Nat) (qz dl : Option Nat) (count : Option Nat) : UpdRes :=
  let qz' := qz.getD tl.defQz
  let dl' := dl.getD tl.defDl + tl.latency
  let t1 : Track := match count with
    | some c => { t with maxCount := c }
    | none => t
  if qz' = 0 ∧ dl' = 0 then { t := t1.start tl.q sid, act := none }
  else { t := t1, act := some { time := schedTime tl.q tl.now qz' dl', tid := t.id, sid := sid } }

/-- `Track.update` on a track that is in the timeline. -/
def TL.updateTrack (tl : TL) (t : Track) (sid : Nat) (qz dl : Option Nat) (count : Option Nat) : TL :=
  let r := updateCore tl t sid qz dl count
  let tl1 := tl.setTrack r.t
  { tl1 with actions := tl1.actions ++ r.act.toList }

def newTrack (id : Nat) (name : Option Nat) (count : Nat) (rwd : Bool) : Track :=
  { id := id, name := name, sid := 0, pos := 0, started := false, cur := 0, nxt := 0, count := 0,
    maxCount := count, offs := [], muted := false, finished := false, rwd := rwd }

/-- One timeline API call. -/
def applyOp (tl : TL) : Op → OpRes
  | .schedule sid qz dl count rwd name replace =>
    let existing : Option Track :=
      match name with
      | some n =>
        if replace then
          match tl.tracks.find? (fun t => t.name == some n) with
          | some t0 => tl.find t0.id
          | none => none
        else none
      | none => none
    match existing with
    | some t =>
      -- existing_track.update(...); current_event_count = 0; unmute()
      let tl1 := tl.updateTrack t sid qz dl count
      let tl2 := match tl1.find t.id with
        | some t' => tl1.setTrack { t' with count := 0, muted := false }
        | none => tl1
      { tl := tl2, calls := [], res := .ok }
    | none =>
      if tl.maxTracks ≠ 0 ∧ tl.maxTracks ≤ tl.tracks.length then { tl := tl, calls := [], res := .limit }
      else
        -- Track(...); track.update(params, quantize, delay); tracks.append(track)
        let r := updateCore tl (newTrack tl.nextId name (count.getD 0) rwd) sid qz dl none
        { tl := { tl with tracks := tl.tracks ++ [r.t], nextId := tl.nextId + 1,
                          actions := tl.actions ++ r.act.toList },
          calls := [], res := .ok }
  | .scheduleAt idx sid qz dl count rwd =>
    -- `schedule(..., track_index=idx)`: a new unnamed track, inserted at `idx` (`list.insert`: beyond the end = append)
    if tl.maxTracks ≠ 0 ∧ tl.maxTracks ≤ tl.tracks.length then { tl := tl, calls := [], res := .limit }
    else
      { tl := { tl with tracks := tl.tracks.take idx ++
                          (updateCore tl (newTrack tl.nextId none (count.getD 0) rwd) sid qz dl none).t :: tl.tracks.drop idx,
                        nextId := tl.nextId + 1,
                        actions := tl.actions ++ (updateCore tl (newTrack tl.nextId none (count.getD 0) rwd) sid qz dl none).act.toList },
        calls := [], res := .ok }
  | .update tid sid qz dl count =>
    match tl.find tid with
    | some t => { tl := tl.updateTrack t sid qz dl count, calls := [], res := .ok }
    | none => { tl := tl, calls := [], res := .notFound }
  | .unschedule tid =>
    match tl.find tid with
    | some t => { tl := tl.removeTrack tid, calls := t.flushCalls, res := .ok }
    | none => { tl := tl, calls := [], res := .notFound }
  | .clear =>
    { tl := { tl with tracks := [] }, calls := (tl.tracks.map Track.flushCalls).flatten, res := .ok }
  | .mute tid =>
    match tl.find tid with
    | some t => { tl := tl.setTrack { t with muted := true }, calls := [], res := .ok }
    | none => { tl := tl, calls := [], res := .notFound }
  | .unmute tid =>
    match tl.find tid with
    | some t => { tl := tl.setTrack { t with muted := false }, calls := [], res := .ok }
    | none => { tl := tl, calls := [], res := .notFound }
  | .nudge tid x =>
    match tl.find tid with
    | some t => { tl := tl.setTrack { t with nxt := t.nxt + x }, calls := [], res := .ok }
    | none => { tl := tl, calls := [], res := .notFound }
  | .setMax n => { tl := { tl with maxTracks := n }, calls := [], res := .ok }
  | .setDefaults qz dl => { tl := { tl with defQz := qz, defDl := dl }, calls := [], res := .ok }
  | .setStopWhenDone b => { tl := { tl with stopWhenDone := b }, calls := [], res := .ok }
  | .setLatency l => { tl := { tl with latency := l }, calls := [], res := .ok }

/-- Run the script of an action callback: ops in order, aborted by the first one that raises. -/
def applyOps (tl : TL) : List Op → OpRes
  | [] => { tl := tl, calls := [], res := .ok }
  | op :: ops =>
    let r := applyOp tl op
    match r.res with
    | .ok =>
      let r2 := applyOps r.tl ops
      { tl := r2.tl, calls := r.calls ++ r2.calls, res := r2.res }
    | e => { tl := r.tl, calls := r.calls, res := e }

/-- Outcome of `Track.tick` as seen by `Timeline.tick`. -/
inductive TickOut where
  | ok | raised | diverged
  deriving DecidableEq, Repr, Inhabited

structure TrackTickRes where
  tl : TL
  calls : List Call
  out : TickOut
  deriving Repr

/-- `perform_event` + the tail of `Track.tick` for the track `t` (already written back into `tl`).
    Returns the timeline after the event (callbacks may have changed it), the device calls, and
    `stopped` = a StopIteration escaped the event, `raised` = another exception escaped. -/
structure PerfRes where
  tl : TL
  calls : List Call
  stopped : Bool
  raised : Bool
  deriving Repr

def performEvent (tl : TL) (t : Track) (_dur : Nat) (active : Bool) (k : EvKind) : PerfRes :=
  if active = false ∨ t.muted = true then { tl := tl, calls := [], stopped := false, raised := false }
  else match k with
    | .note vs =>
      let r := performVoices (t.cur * tl.q) vs
      { tl := tl.setTrack { t with offs := t.offs ++ r.offs }, calls := r.calls, stopped := false, raised := r.raised }
    | .control cc v ch bad =>
      if bad then { tl := tl, calls := [], stopped := false, raised := true }
      else { tl := tl, calls := [Call.control cc v ch], stopped := false, raised := false }
    | .program p ch bad =>
      if bad then { tl := tl, calls := [], stopped := false, raised := true }
      else { tl := tl, calls := [Call.program p ch], stopped := false, raised := false }
    | .action ops out =>
      let r := applyOps tl ops
      -- an exception inside the callback (its own, or one raised by a timeline call) is swallowed;
      -- a StopIteration raised by the callback itself (after its script ran to the end) escapes
      { tl := r.tl, calls := r.calls, stopped := (r.res == .ok && out == .stop), raised := false }

/-- The tail of `Track.tick` once the event (if any) has been performed: a StopIteration marks the
    track finished if nothing is pending; the local time advances.  The track is looked up again
    because a callback may have changed or removed it. -/
def endTick (tl : TL) (tid : Nat) (stopped : Bool) : TL :=
  match tl.find tid with
  | none => tl
  | some t =>
    tl.setTrack { t with finished := (if stopped then t.finished || t.offs.isEmpty else t.finished),
                         cur := t.cur + 1 }

/-- `Track.tick` after the pull loop returned `p`. -/
def afterPull (tl : TL) (tid : Nat) (p : PullRes) : TrackTickRes :=
  match p.r with
  | .raised => { tl := tl.setTrack p.t, calls := [], out := .raised }
  | .diverged => { tl := tl.setTrack p.t, calls := [], out := .diverged }
  | .stop => { tl := endTick (tl.setTrack p.t) tid true, calls := [], out := .ok }
  | .ev d a k =>
    if (performEvent (tl.setTrack p.t) p.t d a k).raised then
      { tl := (performEvent (tl.setTrack p.t) p.t d a k).tl,
        calls := (performEvent (tl.setTrack p.t) p.t d a k).calls, out := .raised }
    else
      { tl := endTick (performEvent (tl.setTrack p.t) p.t d a k).tl tid
                (performEvent (tl.setTrack p.t) p.t d a k).stopped,
        calls := (performEvent (tl.setTrack p.t) p.t d a k).calls, out := .ok }

/-- `Track.tick` (non-interpolating branch) for the track with id `tid`. -/
def tickTrack (W : World) (tl : TL) (tid : Nat) : TrackTickRes :=
  match tl.find tid with
  | none => { tl := tl, calls := [], out := .ok }     -- no longer scheduled: skipped
  | some t =>
    if t.started = false then { tl := tl, calls := [], out := .ok }
    else if t.nxt ≤ (t.cur * tl.q : Nat) then
      afterPull tl tid (Track.pullLoop W tl.q (t.fuel tl.q) t .stop)
    else { tl := endTick tl tid false, calls := [], out := .ok }

structure TickRes where
  tl : TL
  calls : List Call
  res : Res
  deriving Repr

/-- Phase 1 of `Timeline.tick`: note-offs of every track, in track order. -/
def phaseOffsCalls (q : Nat) (ts : List Track) : List Call :=
  (ts.map (fun t => offCalls (dueOffs q t))).flatten
def phaseOffs (tl : TL) : TL := { tl with tracks := tl.tracks.map (Track.processOffs tl.q) }

/-- Phase 2: due start actions, in request order (`Timeline.tick`'s loop over `self.actions[:]`). -/
def fireOne (tl : TL) (a : PAct) : TL :=
  match tl.find a.tid with
  | some t => tl.setTrack (t.start tl.q a.sid)
  | none => tl
def PAct.due (tl : TL) (a : PAct) : Bool := a.time ≤ tl.now * tl.q
def fireActions (tl : TL) : TL :=
  let due := tl.actions.filter (PAct.due tl)
  let tl1 := due.foldl fireOne tl
  { tl1 with actions := tl.actions.filter (fun a => ! PAct.due tl a) }

/-- `if track.is_finished and track.remove_when_done and track in self.tracks: self.tracks.remove(track)` -/
def dropFinished (tl : TL) (tid : Nat) : TL :=
  match tl.find tid with
  | some t => if t.finished ∧ t.rwd then tl.removeTrack tid else tl
  | none => tl

/-- The note-offs sent when a faulting track is removed (`track.release_notes()`). -/
def flushOf (tl : TL) (tid : Nat) : List Call :=
  match tl.find tid with
  | some t => t.flushCalls
  | none => []

/-- Phase 3: `for track in self.tracks[:]` over the snapshot of ids. -/
def phaseTracks (W : World) : TL → List Nat → TickRes
  | tl, [] => { tl := tl, calls := [], res := .ok }
  | tl, tid :: rest =>
    match (tickTrack W tl tid).out with
    | .diverged => { tl := (tickTrack W tl tid).tl, calls := (tickTrack W tl tid).calls, res := .diverged }
    | .raised =>
      if tl.tolerant then
        -- tracks.remove(track); pending notes are released
        { tl := (phaseTracks W ((tickTrack W tl tid).tl.removeTrack tid) rest).tl,
          calls := (tickTrack W tl tid).calls ++ flushOf (tickTrack W tl tid).tl tid ++
                   (phaseTracks W ((tickTrack W tl tid).tl.removeTrack tid) rest).calls,
          res := (phaseTracks W ((tickTrack W tl tid).tl.removeTrack tid) rest).res }
      else { tl := (tickTrack W tl tid).tl, calls := (tickTrack W tl tid).calls, res := .raised }
    | .ok =>
      { tl := (phaseTracks W (dropFinished (tickTrack W tl tid).tl tid) rest).tl,
        calls := (tickTrack W tl tid).calls ++ (phaseTracks W (dropFinished (tickTrack W tl tid).tl tid) rest).calls,
        res := (phaseTracks W (dropFinished (tickTrack W tl tid).tl tid) rest).res }

/-- The end of `Timeline.tick`: the stop-when-done test, else the time advances by one tick.
    (An exception that escaped a track leaves the time where it was.) -/
def endOfTick (r : TickRes) : TickRes :=
  match r.res with
  | .ok =>
    if r.tl.tracks.isEmpty ∧ r.tl.actions.isEmpty ∧ r.tl.stopWhenDone then { r with res := .stopIteration }
    else { r with tl := { r.tl with now := r.tl.now + 1 } }
  | _ => r

/-- `Timeline.tick`. -/
def tickTL (W : World) (tl : TL) : TickRes :=
  { tl := (endOfTick (phaseTracks W (fireActions (phaseOffs tl)) ((fireActions (phaseOffs tl)).tracks.map Track.id))).tl,
    calls := phaseOffsCalls tl.q tl.tracks ++
      (endOfTick (phaseTracks W (fireActions (phaseOffs tl)) ((fireActions (phaseOffs tl)).tracks.map Track.id))).calls,
    res := (endOfTick (phaseTracks W (fireActions (phaseOffs tl)) ((fireActions (phaseOffs tl)).tracks.map Track.id))).res }

/-- A step of a history: an API call or a tick. -/
inductive Step where
  | op (o : Op)
  | tick
  deriving DecidableEq, Repr, Inhabited

structure StepRes where
  tl : TL
  calls : List Call
  res : Res
  deriving Repr

def step (W : World) (tl : TL) : Step → StepRes
  | .op o => let r := applyOp tl o; { tl := r.tl, calls := r.calls, res := r.res }
  | .tick => let r := tickTL W tl; { tl := r.tl, calls := r.calls, res := r.res }

/-- Run a whole history, collecting every device call in order. -/
def run (W : World) : TL → List Step → TL × List Call
  | tl, [] => (tl, [])
  | tl, s :: ss =>
    let r := step W tl s
    let r2 := run W r.tl ss
    (r2.1, r.calls ++ r2.2)

end IsobarV.Sched
