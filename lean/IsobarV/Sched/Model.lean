/-
Operational model of isobar's tick-driven scheduler
(`isobar/timelines/timeline.py` : Timeline.tick / schedule / unschedule / clear / _schedule_action,
 `isobar/timelines/track.py`    : Track.tick / start / update / process_note_offs / get_next_event /
                                   perform_event / nudge / mute / unmute).

Time is integer: a run fixes `q` = units per tick; every duration, note length, quantize, delay and
nudge is an integer number of units (the harness picks the unit so that all its rationals are whole).
`Track.cur` counts the track's local ticks, `Track.nxt` is `next_event_time` in units, so the code's
`round(current_time, 8) >= round(next_event_time, 8)` is `nxt ≤ cur * q`.

Import-free, total, computable.  Results of model functions are structures, never tuples.
-/
namespace IsobarV.Sched

/-- A call received by the (recording) output device. -/
inductive Call where
  | noteOn (note amp chan : Int)
  | noteOff (note chan : Int)
  | control (cc val chan : Int)
  | program (p chan : Int)
  deriving DecidableEq, Repr, Inhabited

/-- One voice of a resolved note event.  `len` = duration × gate in units, `gpos` = gate > 0,
    `bad` = the device's note_on raises for this voice (fault injection). -/
structure Voice where
  note : Int
  amp : Int
  len : Nat
  gpos : Bool
  chan : Int
  bad : Bool := false
  deriving DecidableEq, Repr, Inhabited

/-- How a user action callback ends. -/
inductive Outcome where
  | ok | exc | stop
  deriving DecidableEq, Repr, Inhabited

/-- Timeline API calls (usable between ticks and from inside action callbacks).
    `count = 0` means unbounded (Python `None`/`0`); `qz`/`dl = none` means "use the timeline default". -/
inductive Op where
  | schedule (sid : Nat) (qz dl : Option Nat) (count : Option Nat) (rwd : Bool) (name : Option Nat) (replace : Bool)
  | update (tid sid : Nat) (qz dl : Option Nat) (count : Option Nat)
  | unschedule (tid : Nat)
  | clear
  | mute (tid : Nat)
  | unmute (tid : Nat)
  | nudge (tid : Nat) (x : Int)
  | setMax (n : Nat)
  | setDefaults (qz dl : Nat)
  | setStopWhenDone (b : Bool)
  | setLatency (l : Nat)
  deriving DecidableEq, Repr, Inhabited

inductive EvKind where
  | note (vs : List Voice)
  | control (cc val chan : Int) (bad : Bool)
  | program (p chan : Int) (bad : Bool)
  | action (ops : List Op) (out : Outcome)
  deriving DecidableEq, Repr, Inhabited

/-- What a track's event stream yields at one position: a resolved event, or a fault raised while the
    pattern is evaluated (`patFault`, before anything is consumed) or while the Event is constructed
    (`evFault`, after the pattern value was consumed). -/
inductive Item where
  | ev (dur : Nat) (active : Bool) (k : EvKind)
  | patFault
  | evFault
  deriving DecidableEq, Repr, Inhabited

/-- Streams are indexed by a stream id; `none` = StopIteration (sticky by construction). -/
abbrev World := Nat → Nat → Option Item

structure NoteOff where
  time : Nat
  note : Int
  chan : Int
  deriving DecidableEq, Repr, Inhabited

structure Track where
  id : Nat
  name : Option Nat
  sid : Nat
  pos : Nat
  started : Bool
  cur : Nat
  nxt : Int
  count : Nat
  maxCount : Nat
  offs : List NoteOff
  muted : Bool
  finished : Bool
  rwd : Bool
  deriving DecidableEq, Repr, Inhabited

/-- A pending `Track.start` closure queued by `_schedule_action`. -/
structure PAct where
  time : Nat
  tid : Nat
  sid : Nat
  deriving DecidableEq, Repr, Inhabited

structure TL where
  q : Nat
  now : Nat := 0
  tracks : List Track := []
  actions : List PAct := []
  nextId : Nat := 0
  maxTracks : Nat := 0
  stopWhenDone : Bool := false
  tolerant : Bool := false
  defQz : Nat := 0
  defDl : Nat := 0
  latency : Nat := 0
  deriving DecidableEq, Repr, Inhabited

/-- How a call into the timeline returned. -/
inductive Res where
  | ok
  | stopIteration
  | raised
  | limit      -- TrackLimitReachedException
  | notFound   -- TrackNotFoundException
  | diverged   -- the pull loop would not terminate (zero durations); outside the modelled domain
  deriving DecidableEq, Repr, Inhabited

def cdiv (a b : Nat) : Nat := (a + b - 1) / b

/-! ### Track-level functions -/

/-- `Track.process_note_offs`: release, in list order, every pending note-off whose time has come. -/
def dueOffs (q : Nat) (t : Track) : List NoteOff := t.offs.filter (fun o => o.time ≤ t.cur * q)
def keepOffs (q : Nat) (t : Track) : List NoteOff := t.offs.filter (fun o => ¬ (o.time ≤ t.cur * q))
def offCalls (os : List NoteOff) : List Call := os.map (fun o => Call.noteOff o.note o.chan)
def Track.processOffs (q : Nat) (t : Track) : Track := { t with offs := keepOffs q t }

/-- Release everything still sounding on a track (at removal). -/
def Track.flushCalls (t : Track) : List Call := offCalls t.offs

/-- `Track.start`. -/
def Track.start (q : Nat) (t : Track) (sid : Nat) : Track :=
  { t with sid := sid, pos := 0, started := true, nxt := (t.cur * q : Nat) }

/-- Result of playing the voices of a note event. -/
structure VoicesRes where
  calls : List Call
  offs : List NoteOff
  raised : Bool
  deriving Repr

/-- The per-voice loop of `perform_event` for note events. `base` = `cur * q`. -/
def performVoices (base : Nat) : List Voice → VoicesRes
  | [] => { calls := [], offs := [], raised := false }
  | v :: vs =>
    if 0 < v.amp ∧ v.gpos = true then
      if v.bad then { calls := [], offs := [], raised := true }
      else
        let r := performVoices base vs
        { calls := Call.noteOn v.note v.amp v.chan :: r.calls,
          offs := { time := base + v.len, note := v.note, chan := v.chan } :: r.offs,
          raised := r.raised }
    else performVoices base vs

/-- Result of `get_next_event`. -/
inductive Pull where
  | ev (dur : Nat) (active : Bool) (k : EvKind)
  | stop
  | raised
  | diverged
  deriving Repr

structure PullRes where
  t : Track
  r : Pull
  deriving Repr

/-- `Track.get_next_event`. -/
def Track.getNext (W : World) (t : Track) : PullRes :=
  if t.maxCount ≠ 0 ∧ t.maxCount ≤ t.count then { t := t, r := .stop }
  else match W t.sid t.pos with
    | none => { t := t, r := .stop }
    | some .patFault => { t := t, r := .raised }
    | some .evFault => { t := { t with pos := t.pos + 1 }, r := .raised }
    | some (.ev d a k) => { t := { t with pos := t.pos + 1, count := t.count + 1 }, r := .ev d a k }

/-- The `while round(current_time) >= round(next_event_time)` loop; returns the last event pulled.
    `fuel` bounds the iterations (it suffices whenever durations are ≥ 1 unit, see `Lemmas`). -/
def Track.pullLoop (W : World) (q : Nat) : Nat → Track → Pull → PullRes
  | 0, t, _ => { t := t, r := .diverged }   -- out of fuel: zero durations, outside the modelled domain
  | fuel + 1, t, last =>
    if t.nxt ≤ (t.cur * q : Nat) then
      let g := t.getNext W
      match g.r with
      | .ev d a k => Track.pullLoop W q fuel { g.t with nxt := g.t.nxt + d } (.ev d a k)
      | .stop => { t := g.t, r := .stop }
      | .raised => { t := g.t, r := .raised }
      | .diverged => { t := g.t, r := .diverged }
    else { t := t, r := last }

def Track.fuel (q : Nat) (t : Track) : Nat := ((t.cur * q : Nat) - t.nxt).toNat + 2

/-! ### Timeline-level functions -/

def TL.find (tl : TL) (tid : Nat) : Option Track := tl.tracks.find? (fun t => t.id == tid)
def TL.setTrack (tl : TL) (t : Track) : TL :=
  { tl with tracks := tl.tracks.map (fun u => if u.id == t.id then t else u) }
def TL.removeTrack (tl : TL) (tid : Nat) : TL :=
  { tl with tracks := tl.tracks.filter (fun u => ¬ (u.id == tid)) }

/-- `Timeline._schedule_action` time computation. -/
def schedTime (q now qz dl : Nat) : Nat :=
  (if qz = 0 then now * q else qz * cdiv (now * q) qz) + dl

structure OpRes where
  tl : TL
  calls : List Call
  res : Res
  deriving Repr

/-- `Track.update` (shared by `Timeline.schedule` and direct calls). -/
def TL.updateTrack (tl : TL) (t : Track) (sid : Nat) (qz dl : Option Nat) (count : Option Nat) : TL :=
  let qz' := qz.getD tl.defQz
  let dl' := dl.getD tl.defDl + tl.latency
  let t1 : Track := match count with
    | some c => { t with maxCount := c }
    | none => t
  if qz' = 0 ∧ dl' = 0 then tl.setTrack (t1.start tl.q sid)
  else
    let tl1 := tl.setTrack t1
    { tl1 with actions := tl1.actions ++ [{ time := schedTime tl.q tl.now qz' dl', tid := t.id, sid := sid }] }

def newTrack (id : Nat) (name : Option Nat) (count : Nat) (rwd : Bool) : Track :=
  { id := id, name := name, sid := 0, pos := 0, started := false, cur := 0, nxt := 0, count := 0,
    maxCount := count, offs := [], muted := false, finished := false, rwd := rwd }

/-- One timeline API call. -/
def applyOp (tl : TL) : Op → OpRes
  | .schedule sid qz dl count rwd name replace =>
    let existing : Option Track :=
      match name with
      | some n => if replace then tl.tracks.find? (fun t => t.name == some n) else none
      | none => none
    match existing with
    | some t =>
      -- existing_track.update(...); current_event_count = 0; unmute()
      let tl1 := tl.updateTrack t sid qz dl count
      let tl2 := match tl1.find t.id with
        | some t' => tl1.setTrack { t' with count := 0, muted := false }
        | none => tl1
      { tl := tl2, calls := [], res := .ok }
    | none =>
      if tl.maxTracks ≠ 0 ∧ tl.maxTracks ≤ tl.tracks.length then { tl := tl, calls := [], res := .limit }
      else
        let t := newTrack tl.nextId name (count.getD 0) rwd
        let tl1 := { tl with tracks := tl.tracks ++ [t], nextId := tl.nextId + 1 }
        { tl := tl1.updateTrack t sid qz dl none, calls := [], res := .ok }
  | .update tid sid qz dl count =>
    match tl.find tid with
    | some t => { tl := tl.updateTrack t sid qz dl count, calls := [], res := .ok }
    | none => { tl := tl, calls := [], res := .notFound }
  | .unschedule tid =>
    match tl.find tid with
    | some t => { tl := tl.removeTrack tid, calls := t.flushCalls, res := .ok }
    | none => { tl := tl, calls := [], res := .notFound }
  | .clear =>
    { tl := { tl with tracks := [] }, calls := (tl.tracks.map Track.flushCalls).flatten, res := .ok }
  | .mute tid =>
    match tl.find tid with
    | some t => { tl := tl.setTrack { t with muted := true }, calls := [], res := .ok }
    | none => { tl := tl, calls := [], res := .notFound }
  | .unmute tid =>
    match tl.find tid with
    | some t => { tl := tl.setTrack { t with muted := false }, calls := [], res := .ok }
    | none => { tl := tl, calls := [], res := .notFound }
  | .nudge tid x =>
    match tl.find tid with
    | some t => { tl := tl.setTrack { t with nxt := t.nxt + x }, calls := [], res := .ok }
    | none => { tl := tl, calls := [], res := .notFound }
  | .setMax n => { tl := { tl with maxTracks := n }, calls := [], res := .ok }
  | .setDefaults qz dl => { tl := { tl with defQz := qz, defDl := dl }, calls := [], res := .ok }
  | .setStopWhenDone b => { tl := { tl with stopWhenDone := b }, calls := [], res := .ok }
  | .setLatency l => { tl := { tl with latency := l }, calls := [], res := .ok }

/-- Run the script of an action callback: ops in order, aborted by the first one that raises. -/
def applyOps (tl : TL) : List Op → OpRes
  | [] => { tl := tl, calls := [], res := .ok }
  | op :: ops =>
    let r := applyOp tl op
    match r.res with
    | .ok =>
      let r2 := applyOps r.tl ops
      { tl := r2.tl, calls := r.calls ++ r2.calls, res := r2.res }
    | e => { tl := r.tl, calls := r.calls, res := e }

/-- Outcome of `Track.tick` as seen by `Timeline.tick`. -/
inductive TickOut where
  | ok | raised | diverged
  deriving DecidableEq, Repr, Inhabited

structure TrackTickRes where
  tl : TL
  calls : List Call
  out : TickOut
  deriving Repr

/-- `perform_event` + the tail of `Track.tick` for the track `t` (already written back into `tl`).
    Returns the timeline after the event (callbacks may have changed it), the device calls, and
    `stopped` = a StopIteration escaped the event, `raised` = another exception escaped. -/
structure PerfRes where
  tl : TL
  calls : List Call
  stopped : Bool
  raised : Bool
  deriving Repr

def performEvent (tl : TL) (t : Track) (_dur : Nat) (active : Bool) (k : EvKind) : PerfRes :=
  if active = false ∨ t.muted = true then { tl := tl, calls := [], stopped := false, raised := false }
  else match k with
    | .note vs =>
      let r := performVoices (t.cur * tl.q) vs
      { tl := tl.setTrack { t with offs := t.offs ++ r.offs }, calls := r.calls, stopped := false, raised := r.raised }
    | .control cc v ch bad =>
      if bad then { tl := tl, calls := [], stopped := false, raised := true }
      else { tl := tl, calls := [Call.control cc v ch], stopped := false, raised := false }
    | .program p ch bad =>
      if bad then { tl := tl, calls := [], stopped := false, raised := true }
      else { tl := tl, calls := [Call.program p ch], stopped := false, raised := false }
    | .action ops out =>
      let r := applyOps tl ops
      -- an exception inside the callback (its own, or one raised by a timeline call) is swallowed;
      -- a StopIteration raised by the callback itself (after its script ran to the end) escapes
      { tl := r.tl, calls := r.calls, stopped := (r.res == .ok && out == .stop), raised := false }

/-- `Track.tick` (non-interpolating branch) for the track with id `tid`. -/
def tickTrack (W : World) (tl : TL) (tid : Nat) : TrackTickRes :=
  match tl.find tid with
  | none => { tl := tl, calls := [], out := .ok }     -- no longer scheduled: skipped
  | some t =>
    if t.started = false then { tl := tl, calls := [], out := .ok }
    else if t.nxt ≤ (t.cur * tl.q : Nat) then
      let p := Track.pullLoop W tl.q (t.fuel tl.q) t .stop
      let tl1 := tl.setTrack p.t
      match p.r with
      | .raised => { tl := tl1, calls := [], out := .raised }
      | .diverged => { tl := tl1, calls := [], out := .diverged }
      | .stop =>
        let t2 := { p.t with finished := p.t.finished || p.t.offs.isEmpty, cur := p.t.cur + 1 }
        { tl := tl.setTrack t2, calls := [], out := .ok }
      | .ev d a k =>
        let r := performEvent tl1 p.t d a k
        if r.raised then { tl := r.tl, calls := r.calls, out := .raised }
        else match r.tl.find tid with
          | none => { tl := r.tl, calls := r.calls, out := .ok }
          | some t3 =>
            let t4 := if r.stopped then { t3 with finished := t3.finished || t3.offs.isEmpty } else t3
            { tl := r.tl.setTrack { t4 with cur := t4.cur + 1 }, calls := r.calls, out := .ok }
    else { tl := tl.setTrack { t with cur := t.cur + 1 }, calls := [], out := .ok }

structure TickRes where
  tl : TL
  calls : List Call
  res : Res
  deriving Repr

/-- Phase 1 of `Timeline.tick`: note-offs of every track, in track order. -/
def phaseOffsCalls (q : Nat) (ts : List Track) : List Call :=
  (ts.map (fun t => offCalls (dueOffs q t))).flatten
def phaseOffs (tl : TL) : TL := { tl with tracks := tl.tracks.map (Track.processOffs tl.q) }

/-- Phase 2: due start actions, in request order (`Timeline.tick`'s loop over `self.actions[:]`). -/
def fireOne (tl : TL) (a : PAct) : TL :=
  match tl.find a.tid with
  | some t => tl.setTrack (t.start tl.q a.sid)
  | none => tl
def PAct.due (tl : TL) (a : PAct) : Bool := a.time ≤ tl.now * tl.q
def fireActions (tl : TL) : TL :=
  let due := tl.actions.filter (PAct.due tl)
  let tl1 := due.foldl fireOne tl
  { tl1 with actions := tl.actions.filter (fun a => ! PAct.due tl a) }

/-- Phase 3: `for track in self.tracks[:]` over the snapshot of ids. -/
def phaseTracks (W : World) : TL → List Nat → TickRes
  | tl, [] => { tl := tl, calls := [], res := .ok }
  | tl, tid :: rest =>
    let r := tickTrack W tl tid
    match r.out with
    | .diverged => { tl := r.tl, calls := r.calls, res := .diverged }
    | .raised =>
      if tl.tolerant then
        -- tracks.remove(track); pending notes are released
        let fl := match r.tl.find tid with
          | some t => t.flushCalls
          | none => []
        let r2 := phaseTracks W (r.tl.removeTrack tid) rest
        { tl := r2.tl, calls := r.calls ++ fl ++ r2.calls, res := r2.res }
      else { tl := r.tl, calls := r.calls, res := .raised }
    | .ok =>
      let tl1 := match r.tl.find tid with
        | some t => if t.finished ∧ t.rwd then r.tl.removeTrack tid else r.tl
        | none => r.tl
      let r2 := phaseTracks W tl1 rest
      { tl := r2.tl, calls := r.calls ++ r2.calls, res := r2.res }

/-- `Timeline.tick`. -/
def tickTL (W : World) (tl : TL) : TickRes :=
  let c1 := phaseOffsCalls tl.q tl.tracks
  let tl1 := phaseOffs tl
  let tl2 := fireActions tl1
  let r := phaseTracks W tl2 (tl2.tracks.map Track.id)
  match r.res with
  | .ok =>
    if r.tl.tracks.isEmpty ∧ r.tl.actions.isEmpty ∧ r.tl.stopWhenDone then
      { tl := r.tl, calls := c1 ++ r.calls, res := .stopIteration }
    else { tl := { r.tl with now := r.tl.now + 1 }, calls := c1 ++ r.calls, res := .ok }
  | e => { tl := r.tl, calls := c1 ++ r.calls, res := e }

/-- A step of a history: an API call or a tick. -/
inductive Step where
  | op (o : Op)
  | tick
  deriving DecidableEq, Repr, Inhabited

structure StepRes where
  tl : TL
  calls : List Call
  res : Res
  deriving Repr

def step (W : World) (tl : TL) : Step → StepRes
  | .op o => let r := applyOp tl o; { tl := r.tl, calls := r.calls, res := r.res }
  | .tick => let r := tickTL W tl; { tl := r.tl, calls := r.calls, res := r.res }

/-- Run a whole history, collecting every device call in order. -/
def run (W : World) : TL → List Step → TL × List Call
  | tl, [] => (tl, [])
  | tl, s :: ss =>
    let r := step W tl s
    let r2 := run W r.tl ss
    (r2.1, r.calls ++ r2.2)

end IsobarV.Sched
