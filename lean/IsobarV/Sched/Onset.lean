/-
Helper lemmas for C01: the evolution of a track's own clock (`cur`, `nxt`, `pos`) under the pull loop.
-/
import IsobarV.Sched.Model

namespace IsobarV.Sched

/-- Cumulative ideal time of event `k`: the exact sum of the preceding durations. -/
def S (d : Nat → Nat) : Nat → Nat
  | 0 => 0
  | k + 1 => S d k + d k

/-- Tick `j` expressed in units. -/
def tm (q j : Nat) : Int := ((j * q : Nat) : Int)

theorem tm_succ (q j : Nat) : tm q (j + 1) = tm q j + q := by
  simp [tm, Nat.add_mul]

theorem tm_mono {q j j' : Nat} (h : j ≤ j') : tm q j ≤ tm q j' := by
  simp only [tm]; exact_mod_cast Nat.mul_le_mul_right q h

theorem tm_lt_step {q j j' : Nat} (h : j < j') : tm q j + q ≤ tm q j' := by
  have := tm_mono (q := q) (Nat.succ_le_of_lt h)
  rw [tm_succ] at this; exact this

/-- `j` is the first tick at or after the ideal time `T` (in units). -/
def FirstTick (q : Nat) (T : Int) (j : Nat) : Prop := T ≤ tm q j ∧ tm q j - q < T

theorem FirstTick.unique {q : Nat} {T : Int} {j j' : Nat} (h : FirstTick q T j) (h' : FirstTick q T j') : j = j' := by
  rcases Nat.lt_trichotomy j j' with hlt | heq | hgt
  · have := tm_lt_step (q := q) hlt; obtain ⟨a, b⟩ := h; obtain ⟨c, e⟩ := h'; omega
  · exact heq
  · have := tm_lt_step (q := q) hgt; obtain ⟨a, b⟩ := h; obtain ⟨c, e⟩ := h'; omega

theorem S_succ (d : Nat → Nat) (k : Nat) : S d (k + 1) = S d k + d k := rfl

theorem S_lt {d : Nat → Nat} {q : Nat} (hd : ∀ i, q ≤ d i) {k k' : Nat} (h : k < k') : S d k + q ≤ S d k' := by
  induction k' with
  | zero => omega
  | succ n ih =>
    rw [S_succ]
    rcases Nat.lt_succ_iff_lt_or_eq.mp h with h1 | rfl
    · have := ih h1; have := hd n; omega
    · have := hd k; omega

/-- The stream `sid` of `W` yields, from position 0 on, events with durations `d i` (an infinite
    stream; its events may be of any kind). -/
def HasDurs (W : World) (sid : Nat) (d : Nat → Nat) : Prop :=
  ∀ i, ∃ a k, W sid i = some (.ev (d i) a k)

/-- The clock part of one `Track.tick`: the pull loop (if an event is due) and the time increment. -/
def clockTick (W : World) (q : Nat) (t : Track) : Track :=
  if t.nxt ≤ (t.cur * q : Nat) then
    { (Track.pullLoop W q (t.fuel q) t .stop).t with cur := (Track.pullLoop W q (t.fuel q) t .stop).t.cur + 1 }
  else { t with cur := t.cur + 1 }

/-- The index (position in its stream) of the event performed in this tick, if any. -/
def fired (W : World) (q : Nat) (t : Track) : Option Nat :=
  if t.nxt ≤ (t.cur * q : Nat) then
    match (Track.pullLoop W q (t.fuel q) t .stop).r with
    | .ev _ _ _ => some ((Track.pullLoop W q (t.fuel q) t .stop).t.pos - 1)
    | _ => none
  else none

def clockRun (W : World) (q : Nat) (t : Track) : Nat → Track
  | 0 => t
  | n + 1 => clockTick W q (clockRun W q t n)

/-- One pull suffices when the event is due, not overdue by a whole tick, and lasts at least a tick. -/
theorem pullLoop_once (W : World) (q : Nat) (t : Track) (last : Pull) (fuel : Nat) (d : Nat) (a : Bool) (k : EvKind)
    (hW : W t.sid t.pos = some (.ev d a k)) (hmax : t.maxCount = 0)
    (hdue : t.nxt ≤ (t.cur * q : Nat)) (hnext : ((t.cur * q : Nat) : Int) < t.nxt + d) :
    Track.pullLoop W q (fuel + 2) t last =
      { t := { t with pos := t.pos + 1, count := t.count + 1, nxt := t.nxt + d }, r := .ev d a k } := by
  have hg : t.getNext W = { t := { t with pos := t.pos + 1, count := t.count + 1 }, r := .ev d a k } := by
    simp [Track.getNext, hmax, hW]
  have hc : ((t.cur * q : Nat) : Int) = (t.cur : Int) * (q : Int) := by push_cast; rfl
  have : ¬ (t.nxt + (d : Int) ≤ (t.cur : Int) * (q : Int)) := by rw [← hc]; omega
  simp only [Track.pullLoop, hdue, if_true, hg]
  simp [this]

end IsobarV.Sched

namespace IsobarV.Sched

/-- The invariant carried by a playing track `j` ticks after a reference state in which it was at
    local tick `c`, about to play event `p0`, with next-event time `N` (units); its stream `sid`
    yields durations `d`.  Ideal time of event `k ≥ p0`: `N + (S d k - S d p0)`. -/
structure OnsetInv (q sid c p0 : Nat) (N : Int) (d : Nat → Nat) (j : Nat) (t : Track) : Prop where
  cur : t.cur = c + j
  pos : p0 ≤ t.pos
  nxt : t.nxt = N + ((S d t.pos : Int) - S d p0)
  guard : tm q t.cur - q < t.nxt
  sid : t.sid = sid
  maxc : t.maxCount = 0
  past : ∀ k, p0 ≤ k → k < t.pos → ∃ j', j' < j ∧ FirstTick q (N + ((S d k : Int) - S d p0)) (c + j')

theorem onset_step {W : World} {q sid c p0 : Nat} {N : Int} {d : Nat → Nat} {j : Nat} {t : Track}
    (hd : ∀ i, q ≤ d i) (hW : HasDurs W sid d) (h : OnsetInv q sid c p0 N d j t) :
    OnsetInv q sid c p0 N d (j + 1) (clockTick W q t) ∧
    fired W q t = (if t.nxt ≤ tm q t.cur then some t.pos else none) := by
  obtain ⟨hcur, hpos, hnxt, hguard, hsid, hmax, hpast⟩ := h
  by_cases hdue : t.nxt ≤ (t.cur * q : Nat)
  · obtain ⟨a, k, hev⟩ := hW t.pos
    rw [← hsid] at hev
    have hdq := hd t.pos
    have hnext : ((t.cur * q : Nat) : Int) < t.nxt + d t.pos := by simp only [tm] at hguard; omega
    have hp := pullLoop_once W q t .stop (((t.cur * q : Nat) - t.nxt).toNat) (d t.pos) a k hev hmax hdue hnext
    have hp' : Track.pullLoop W q (t.fuel q) t .stop =
        { t := { t with pos := t.pos + 1, count := t.count + 1, nxt := t.nxt + d t.pos }, r := .ev (d t.pos) a k } := hp
    constructor
    · simp only [clockTick, hdue, if_true, hp']
      refine ⟨by simp [hcur]; omega, by simp; omega, by simp [hnxt, S_succ]; omega, ?_, by simp [hsid], by simp [hmax], ?_⟩
      · simp only [tm_succ]; simp only [tm] at hguard ⊢; omega
      · intro k' hk0 hk'
        simp only at hk'
        rcases Nat.lt_succ_iff_lt_or_eq.mp hk' with h1 | rfl
        · obtain ⟨j', hj', hf⟩ := hpast k' hk0 h1
          exact ⟨j', by omega, hf⟩
        · refine ⟨j, by omega, ?_⟩
          simp only [FirstTick, ← hcur, ← hnxt]
          exact ⟨hdue, hguard⟩
    · have h1 : t.nxt ≤ tm q t.cur := hdue
      simp only [fired, hdue, if_true, hp', h1]
      simp
  · constructor
    · simp only [clockTick, hdue, if_false]
      refine ⟨by simp [hcur]; omega, hpos, hnxt, ?_, hsid, hmax, ?_⟩
      · simp only [tm_succ]; simp only [tm]; omega
      · intro k' hk0 hk'
        obtain ⟨j', hj', hf⟩ := hpast k' hk0 hk'
        exact ⟨j', by omega, hf⟩
    · have h1 : ¬ t.nxt ≤ tm q t.cur := hdue
      simp only [fired, hdue, if_false, h1]

theorem onset_run {W : World} {q sid c p0 : Nat} {N : Int} {d : Nat → Nat} {t0 : Track}
    (hd : ∀ i, q ≤ d i) (hW : HasDurs W sid d) (h0 : OnsetInv q sid c p0 N d 0 t0) (j : Nat) :
    OnsetInv q sid c p0 N d j (clockRun W q t0 j) := by
  induction j with
  | zero => exact h0
  | succ n ih => exact (onset_step hd hW ih).1

/-- Any playing track state whose next event is not overdue by a whole tick is a reference state. -/
theorem onsetInv_init (q : Nat) (d : Nat → Nat) (t : Track) (hmax : t.maxCount = 0)
    (hguard : tm q t.cur - q < t.nxt) : OnsetInv q t.sid t.cur t.pos t.nxt d 0 t :=
  ⟨rfl, Nat.le_refl _, by omega, hguard, rfl, hmax, fun k h1 h2 => by omega⟩

/-- Closed form: which event is performed in which tick. -/
theorem fired_iff {W : World} {q : Nat} {d : Nat → Nat} {t0 : Track}
    (hd : ∀ i, q ≤ d i) (hW : HasDurs W t0.sid d) (hmax : t0.maxCount = 0)
    (hguard : tm q t0.cur - q < t0.nxt) (j k : Nat) :
    fired W q (clockRun W q t0 j) = some k ↔
      (t0.pos ≤ k ∧ FirstTick q (t0.nxt + ((S d k : Int) - S d t0.pos)) (t0.cur + j)) := by
  have hinv := onset_run hd hW (onsetInv_init q d t0 hmax hguard) j
  have hf := (onset_step hd hW hinv).2
  obtain ⟨hcur, hpos, hnxt, hg, _, _, hpast⟩ := hinv
  rw [hf]
  constructor
  · intro h
    split at h
    · rename_i hdue
      cases h
      exact ⟨hpos, by simp only [FirstTick, ← hcur, ← hnxt]; exact ⟨hdue, hg⟩⟩
    · cases h
  · rintro ⟨hk0, hft⟩
    rcases Nat.lt_trichotomy k (clockRun W q t0 j).pos with hlt | heq | hgt
    · obtain ⟨j', hj', hf'⟩ := hpast k hk0 hlt
      have := hft.unique hf'
      omega
    · subst heq
      have hdue : (clockRun W q t0 j).nxt ≤ tm q (clockRun W q t0 j).cur := by
        rw [hnxt, hcur]; exact hft.1
      simp [hdue]
    · exfalso
      have := S_lt hd hgt
      obtain ⟨h1, _⟩ := hft
      rw [hcur] at hg
      omega

end IsobarV.Sched

namespace IsobarV.Sched

theorem getNext_cur (W : World) (t : Track) : (t.getNext W).t.cur = t.cur := by
  unfold Track.getNext
  split
  · rfl
  · split <;> rfl

theorem pullLoop_cur (W : World) (q : Nat) (fuel : Nat) (t : Track) (last : Pull) :
    (Track.pullLoop W q fuel t last).t.cur = t.cur := by
  induction fuel generalizing t last with
  | zero => rfl
  | succ n ih =>
    simp only [Track.pullLoop]
    split
    · have hg := getNext_cur W t
      split
      · rw [ih]; exact hg
      · exact hg
      · exact hg
      · exact hg
    · rfl

end IsobarV.Sched
