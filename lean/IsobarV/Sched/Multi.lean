/-
Helper lemmas for the multi-tick forms of C07 (non-interference over whole runs) and C17 (fault
isolation over whole runs):

* worlds whose durations are at least one unit never make the pull loop run out of fuel
  (`soloTick_not_diverged`), so the `diverged` escape of the model is unreachable there;
* worlds without faults never make a track raise (`soloTick_not_raised`);
* what a timeline tick does to everything but the track list (`tickTL_frame`): the time advances by
  one tick and the due start actions are consumed — independently of which tracks are scheduled.
-/
import IsobarV.Props.C07
import IsobarV.Sched.Onset

namespace IsobarV.Sched
open IsobarV.C07

/-- Every event of every stream lasts at least one time unit (the property's "durations of at least one
    tick" is stronger: a tick is `q ≥ 1` units). -/
def PosDur (W : World) : Prop := ∀ sid pos d a k, W sid pos = some (.ev d a k) → 0 < d

/-- No stream raises while it is evaluated, and no device call raises. -/
def Faultless (W : World) : Prop :=
  (∀ sid pos, W sid pos ≠ some .patFault) ∧ (∀ sid pos, W sid pos ≠ some .evFault) ∧
  (∀ sid pos d a vs, W sid pos = some (.ev d a (.note vs)) → ∀ v ∈ vs, v.bad = false) ∧
  (∀ sid pos d a cc v ch, W sid pos ≠ some (.ev d a (.control cc v ch true))) ∧
  (∀ sid pos d a p ch, W sid pos ≠ some (.ev d a (.program p ch true)))

theorem getNext_not_diverged (W : World) (t : Track) : (t.getNext W).r = .diverged → False := by
  intro h
  unfold Track.getNext at h
  split at h
  · cases h
  · split at h <;> cases h

theorem getNext_nxt (W : World) (t : Track) : (t.getNext W).t.nxt = t.nxt := by
  unfold Track.getNext
  split
  · rfl
  · split <;> rfl

theorem getNext_ev_pos (W : World) (hP : PosDur W) (t : Track) (d : Nat) (a : Bool) (k : EvKind)
    (h : (t.getNext W).r = .ev d a k) : 0 < d := by
  obtain ⟨sid, pos, hw⟩ := getNext_ev_from_W W t d a k h
  exact hP sid pos d a k hw

/-- With durations of at least one unit, `fuel` iterations are enough as soon as `fuel` exceeds the
    number of units by which the track is behind. -/
theorem pullLoop_not_diverged (W : World) (hP : PosDur W) (q : Nat) :
    ∀ (fuel : Nat) (t : Track) (last : Pull), (last = .diverged → False) → 0 < fuel →
      ((t.cur * q : Nat) : Int) - t.nxt + 1 < fuel →
      (Track.pullLoop W q fuel t last).r = .diverged → False := by
  intro fuel
  induction fuel with
  | zero => intro t last _ h0; omega
  | succ n ih =>
    intro t last hlast _ hgap h
    simp only [Track.pullLoop] at h
    split at h
    · rename_i hdue
      split at h
      · rename_i d a k hg
        have hd := getNext_ev_pos W hP t d a k hg
        have hc := getNext_cur W t
        have hn := getNext_nxt W t
        refine ih _ _ (by intro hh; cases hh) (by omega) ?_ h
        simp only [hc, hn]
        omega
      · cases h
      · cases h
      · rename_i hg
        exact getNext_not_diverged W t hg
    · exact hlast h

theorem soloTick_not_diverged (W : World) (hP : PosDur W) (q : Nat) (t : Track) :
    (soloTick W q t).out ≠ .diverged := by
  unfold soloTick
  split
  · simp
  · split
    · rename_i hdue
      have hnd := pullLoop_not_diverged W hP q (t.fuel q) t .stop (by intro h; cases h)
        (by simp [Track.fuel]) (by simp only [Track.fuel]; push_cast; omega)
      generalize Track.pullLoop W q (t.fuel q) t .stop = p at hnd
      unfold soloAfterPull
      split
      · simp
      · rename_i hr; exact absurd hr (fun h => hnd h)
      · simp
      · split <;> simp
    · simp

/-! ### no faults, no exception -/

theorem performVoices_not_raised (base : Nat) (vs : List Voice) (h : ∀ v ∈ vs, v.bad = false) :
    (performVoices base vs).raised = false := by
  induction vs with
  | nil => rfl
  | cons v vs ih =>
    have hv := h v (by simp)
    have ih' := ih (fun u hu => h u (by simp [hu]))
    simp only [performVoices]
    split
    · simp [hv, ih']
    · exact ih'

theorem getNext_not_raised (W : World) (hF : Faultless W) (t : Track) : (t.getNext W).r = .raised → False := by
  intro h
  unfold Track.getNext at h
  split at h
  · cases h
  · split at h
    · cases h
    · rename_i hw; exact hF.1 _ _ hw
    · rename_i hw; exact hF.2.1 _ _ hw
    · cases h

theorem pullLoop_not_raised (W : World) (hF : Faultless W) (q : Nat) :
    ∀ (fuel : Nat) (t : Track) (last : Pull), (last = .raised → False) →
      (Track.pullLoop W q fuel t last).r = .raised → False := by
  intro fuel
  induction fuel with
  | zero => intro t last _ h; simp [Track.pullLoop] at h
  | succ n ih =>
    intro t last hlast h
    simp only [Track.pullLoop] at h
    split at h
    · split at h
      · exact ih _ _ (by intro hh; cases hh) h
      · cases h
      · rename_i hg; exact getNext_not_raised W hF t hg
      · cases h
    · exact hlast h

theorem soloTick_not_raised (W : World) (hF : Faultless W) (q : Nat) (t : Track) :
    (soloTick W q t).out ≠ .raised := by
  unfold soloTick
  split
  · simp
  · split
    · have hnr := pullLoop_not_raised W hF q (t.fuel q) t .stop (by intro h; cases h)
      have hev := pullLoop_ev_from_W W q (t.fuel q) t .stop
      generalize Track.pullLoop W q (t.fuel q) t .stop = p at hnr hev
      unfold soloAfterPull
      split
      · rename_i hr; exact absurd hr (fun h => hnr h)
      · simp
      · simp
      · rename_i d a k hr
        have hw : ∃ sid pos, W sid pos = some (.ev d a k) := by
          rcases hev d a k hr with h | h
          · cases h
          · exact h
        obtain ⟨sid, pos, hw⟩ := hw
        have : (performSolo q p.t a k).raised = false := by
          unfold performSolo
          split
          · rfl
          · cases k with
            | note vs => exact performVoices_not_raised _ vs (hF.2.2.1 sid pos d a vs hw)
            | control cc v ch bad =>
              cases bad with
              | true => exact absurd hw (hF.2.2.2.1 sid pos d a cc v ch)
              | false => rfl
            | program pp ch bad =>
              cases bad with
              | true => exact absurd hw (hF.2.2.2.2 sid pos d a pp ch)
              | false => rfl
            | action ops out => rfl
        simp [this]
    · simp

/-! ### what a tick does to the rest of the timeline -/

theorem TL.eq_of_sameRest {a b : TL} (h : SameRest a b) (ht : b.tracks = a.tracks) : b = a := by
  obtain ⟨h1, h2, h3, h4, h5, h6, h7, h8, h9, h10⟩ := h
  cases a; cases b
  simp only at h1 h2 h3 h4 h5 h6 h7 h8 h9 h10 ht
  subst h1 h2 h3 h4 h5 h6 h7 h8 h9 h10 ht
  rfl

/-- The timeline after a tick, all fields: the time advances, the due start actions are gone, the track
    list is the per-track phase's; nothing else changes (no callbacks; stop-when-done off). -/
theorem tickTL_frame (W : World) (hW : NoActions W) (tl : TL) (hnd : (tl.tracks.map Track.id).Nodup)
    (hres : (soloPhase W tl.q tl.tolerant (prepared tl)).res = .ok) (hs : tl.stopWhenDone = false) :
    (tickTL W tl).res = .ok ∧
    (tickTL W tl).tl = { tl with now := tl.now + 1, actions := tl.actions.filter (fun a => ! PAct.due tl a),
                                  tracks := (soloPhase W tl.q tl.tolerant (prepared tl)).tracks } := by
  have hids0 : (phaseOffs tl).tracks.map Track.id = tl.tracks.map Track.id := by
    simp [phaseOffs, List.map_map, Track.processOffs, Function.comp_def]
  obtain ⟨f1, f2, f3⟩ := foldl_fireOne_tracks ((phaseOffs tl).actions.filter (PAct.due (phaseOffs tl))) (phaseOffs tl)
    (by rw [hids0]; exact hnd)
  have htr : (fireActions (phaseOffs tl)).tracks = prepared tl := by
    simp only [fireActions]
    rw [f1]; rfl
  have hnd2 : (([] ++ prepared tl).map Track.id).Nodup := by
    rw [List.nil_append, ← htr]
    simp only [fireActions]; rw [f2, hids0]; exact hnd
  have hfa : SameRest { tl with actions := tl.actions.filter (fun a => ! PAct.due tl a) } (fireActions (phaseOffs tl)) := by
    obtain ⟨g1, g2, g3, g4, g5, g6, g7, g8, g9, g10⟩ := f3
    simp only [fireActions]
    exact ⟨g1, g2, rfl, g4, g5, g6, g7, g8, g9, g10⟩
  obtain ⟨p1, p2, p3, p4⟩ := phaseTracks_solo W hW (prepared tl) [] (fireActions (phaseOffs tl)) (by simpa using htr) hnd2
  have hq : (fireActions (phaseOffs tl)).q = tl.q := hfa.1
  have ht : (fireActions (phaseOffs tl)).tolerant = tl.tolerant := hfa.2.2.2.2.2.2.1
  rw [hq, ht] at p1 p2 p3
  have hsr := hfa.trans p4
  rw [hres] at p3
  have hswd : (phaseTracks W (fireActions (phaseOffs tl)) ((prepared tl).map Track.id)).tl.stopWhenDone = false := by
    rw [hsr.2.2.2.2.2.1]; exact hs
  have hend : endOfTick (phaseTracks W (fireActions (phaseOffs tl)) ((prepared tl).map Track.id)) =
      { (phaseTracks W (fireActions (phaseOffs tl)) ((prepared tl).map Track.id)) with
        tl := { (phaseTracks W (fireActions (phaseOffs tl)) ((prepared tl).map Track.id)).tl with
                now := (phaseTracks W (fireActions (phaseOffs tl)) ((prepared tl).map Track.id)).tl.now + 1 } } := by
    unfold endOfTick
    rw [p3]
    simp [hswd, p3]
  simp only [tickTL, htr, hend, p3, true_and]
  apply TL.eq_of_sameRest (a := { tl with now := tl.now + 1, actions := tl.actions.filter (fun a => ! PAct.due tl a),
                                          tracks := (soloPhase W tl.q tl.tolerant (prepared tl)).tracks })
  · obtain ⟨g1, g2, g3, g4, g5, g6, g7, g8, g9, g10⟩ := hsr
    exact ⟨g1, by simp [g2], g3, g4, g5, g6, g7, g8, g9, g10⟩
  · simpa using p1

end IsobarV.Sched
