/-
Line-protocol driver for the scheduler model (suite `sched`).  Glue only.

input:
  case <id>
  q <q> tpb <tpb> tolerant <0|1>
  stream <sid> <npre> <ncyc>            then npre+ncyc `item` lines
  item ev <dur> <active> note <nv> (<note> <amp> <len> <gpos> <chan> <bad>)*
  item ev <dur> <active> control <cc> <val> <chan> <bad>
  item ev <dur> <active> program <p> <chan> <bad>
  item ev <dur> <active> action <ok|exc|stop> <op> | <op> | ...
  item patfault | item evfault
  op <op>
  tick <n>
  end
ops:
  sched <sid> <qz|-> <dl|-> <count|-> <rwd> <name|-> <replace> | schedat <idx> <sid> <qz|-> <dl|-> <count|-> <rwd> | upd <tid> <sid> <qz|-> <dl|-> <count|->
  unsched <tid> | clear | mute <tid> | unmute <tid> | nudge <tid> <x> | max <n> | defaults <qz> <dl>
  swd <b> | latency <l>
output (one line per op, one per tick that is not silent-and-ok, one per end):
  op|<res>|<calls>|<ids>      <k>|<res>|<calls>|<ids>      end|<now>|<ids>
-/
import IsobarV.Sched.Model
import IsobarV.Util.Parse

namespace IsobarV.Sched.Drv
open IsobarV.Sched IsobarV.Util

def parseOp : List String → Option Op
  | ["sched", sid, qz, dl, count, rwd, name, replace] =>
    some (.schedule (toNat! sid) (toOptNat qz) (toOptNat dl) (toOptNat count) (toBool! rwd) (toOptNat name) (toBool! replace))
  | ["schedat", idx, sid, qz, dl, count, rwd] =>
    some (.scheduleAt (toNat! idx) (toNat! sid) (toOptNat qz) (toOptNat dl) (toOptNat count) (toBool! rwd))
  | ["upd", tid, sid, qz, dl, count] =>
    some (.update (toNat! tid) (toNat! sid) (toOptNat qz) (toOptNat dl) (toOptNat count))
  | ["unsched", tid] => some (.unschedule (toNat! tid))
  | ["clear"] => some .clear
  | ["mute", tid] => some (.mute (toNat! tid))
  | ["unmute", tid] => some (.unmute (toNat! tid))
  | ["nudge", tid, x] => some (.nudge (toNat! tid) (toInt! x))
  | ["max", n] => some (.setMax (toNat! n))
  | ["defaults", qz, dl] => some (.setDefaults (toNat! qz) (toNat! dl))
  | ["swd", b] => some (.setStopWhenDone (toBool! b))
  | ["latency", l] => some (.setLatency (toNat! l))
  | _ => none

def splitBar (ws : List String) : List (List String) :=
  let rec go : List String → List String → List (List String) → List (List String)
    | [], cur, acc => (cur.reverse :: acc).reverse
    | w :: ws, cur, acc => if w == "|" then go ws [] (cur.reverse :: acc) else go ws (w :: cur) acc
  (go ws [] []).filter (fun l => l ≠ [])

def parseVoices : List String → List Voice
  | n :: a :: l :: g :: c :: b :: rest =>
    { note := toInt! n, amp := toInt! a, len := toNat! l, gpos := toBool! g, chan := toInt! c, bad := toBool! b }
      :: parseVoices rest
  | _ => []

def parseOutcome (s : String) : Outcome :=
  if s == "exc" then .exc else if s == "stop" then .stop else .ok

def parseItem : List String → Option Item
  | ["patfault"] => some .patFault
  | ["evfault"] => some .evFault
  | "ev" :: dur :: active :: "note" :: _nv :: rest =>
    some (.ev (toNat! dur) (toBool! active) (.note (parseVoices rest)))
  | ["ev", dur, active, "control", cc, v, ch, bad] =>
    some (.ev (toNat! dur) (toBool! active) (.control (toInt! cc) (toInt! v) (toInt! ch) (toBool! bad)))
  | ["ev", dur, active, "program", p, ch, bad] =>
    some (.ev (toNat! dur) (toBool! active) (.program (toInt! p) (toInt! ch) (toBool! bad)))
  | "ev" :: dur :: active :: "action" :: out :: rest =>
    some (.ev (toNat! dur) (toBool! active) (.action ((splitBar rest).filterMap parseOp) (parseOutcome out)))
  | _ => none

structure Lasso where
  pre : Array Item := #[]
  cyc : Array Item := #[]
  npre : Nat := 0
  deriving Inhabited

def Lasso.get (l : Lasso) (pos : Nat) : Option Item :=
  if pos < l.pre.size then l.pre[pos]?
  else if l.cyc.size = 0 then none
  else l.cyc[(pos - l.pre.size) % l.cyc.size]?

def Lasso.push (l : Lasso) (it : Item) : Lasso :=
  if l.pre.size < l.npre then { l with pre := l.pre.push it } else { l with cyc := l.cyc.push it }

structure St where
  streams : Array Lasso := #[]
  curSid : Nat := 0
  tl : TL := { q := 1 }
  k : Nat := 0
  dead : Bool := false
  deriving Inhabited

def St.world (s : St) : World := fun sid pos =>
  match s.streams[sid]? with
  | some l => l.get pos
  | none => none

def showCall : Call → String
  | .noteOn n a c => s!"on:{n}:{a}:{c}"
  | .noteOff n c => s!"off:{n}:{c}"
  | .control cc v c => s!"cc:{cc}:{v}:{c}"
  | .program p c => s!"pc:{p}:{c}"

def showRes : Res → String
  | .ok => "ok" | .stopIteration => "stop" | .raised => "raised" | .limit => "limit"
  | .notFound => "notfound" | .diverged => "diverged"

def showIds (tl : TL) : String := joinWith " " (tl.tracks.map (fun t => toString t.id))

def outLine (tag : String) (r : Res) (calls : List Call) (tl : TL) : String :=
  s!"{tag}|{showRes r}|{joinWith "," (calls.map showCall)}|{showIds tl}"

/-- An exception that escapes `tick()` ends the history (the harness stops there too). -/
def fatal (r : Res) : Bool := r == .raised || r == .diverged

partial def doTicks (W : World) (tl : TL) (k n : Nat) (prevIds : String) : IO (TL × Nat × Bool) := do
  if n = 0 then return (tl, k, false)
  let r := tickTL W tl
  let ids := showIds r.tl
  if r.res != .ok || !r.calls.isEmpty || ids != prevIds then
    IO.println (outLine (toString k) r.res r.calls r.tl)
  if fatal r.res then return (r.tl, k + 1, true)
  doTicks W r.tl (k + 1) (n - 1) ids

def handle (s : St) (line : String) : IO St := do
  match words line with
  | ["case", id] => IO.println s!"case {id}"; return {}
  | ["q", q, "tpb", _tpb, "tolerant", t] => return { s with tl := { q := toNat! q, tolerant := toBool! t } }
  | ["stream", sid, npre, _ncyc] =>
    let sid := toNat! sid
    let streams := if s.streams.size ≤ sid then s.streams ++ Array.replicate (sid + 1 - s.streams.size) {} else s.streams
    return { s with streams := streams.set! sid { npre := toNat! npre }, curSid := sid }
  | "item" :: rest =>
    match parseItem rest with
    | some it => return { s with streams := s.streams.modify s.curSid (fun l => l.push it) }
    | none => IO.println s!"bad-item {line}"; return s
  | "op" :: rest =>
    if s.dead then return s
    match parseOp rest with
    | some o =>
      let r := applyOp s.tl o
      IO.println (outLine "op" r.res r.calls r.tl)
      return { s with tl := r.tl }
    | none => IO.println s!"bad-op {line}"; return s
  | ["tick", n] =>
    if s.dead then return s
    let (tl, k, dead) ← doTicks s.world s.tl s.k (toNat! n) (showIds s.tl)
    return { s with tl := tl, k := k, dead := dead }
  | ["end"] => IO.println s!"end|{s.tl.now}|{showIds s.tl}"; return s
  | [] => return s
  | _ => IO.println s!"bad-line {line}"; return s

def main : IO Unit := do
  let stdin ← IO.getStdin
  let _ ← foldLines stdin ({} : St) handle
  return ()

end IsobarV.Sched.Drv
