/-
Helper lemmas for C02: the counting invariant
    note-ons so far  +  pending before  =  note-offs so far  +  pending after
for every function of the scheduler model, for one fixed (note, channel) pair.
-/
import IsobarV.Sched.Model

namespace IsobarV.Sched

abbrev NC := Int × Int

def Call.isOn (nc : NC) : Call → Bool
  | .noteOn n _ c => decide (n = nc.1 ∧ c = nc.2)
  | _ => false

def Call.isOff (nc : NC) : Call → Bool
  | .noteOff n c => decide (n = nc.1 ∧ c = nc.2)
  | _ => false

def onCount (nc : NC) (cs : List Call) : Nat := cs.countP (Call.isOn nc)
def offCount (nc : NC) (cs : List Call) : Nat := cs.countP (Call.isOff nc)

def NoteOff.is (nc : NC) (o : NoteOff) : Bool := decide (o.note = nc.1 ∧ o.chan = nc.2)
def pendOffs (nc : NC) (os : List NoteOff) : Nat := os.countP (NoteOff.is nc)

def pendTracks (nc : NC) : List Track → Nat
  | [] => 0
  | t :: ts => pendOffs nc t.offs + pendTracks nc ts

/-- Number of pending note-offs for `nc` over all tracks in the timeline. -/
def pend (nc : NC) (tl : TL) : Nat := pendTracks nc tl.tracks

/-- The balance relation of one transition. -/
def Bal (nc : NC) (tl : TL) (calls : List Call) (tl' : TL) : Prop :=
  onCount nc calls + pend nc tl = offCount nc calls + pend nc tl'

variable {nc : NC}

@[simp] theorem onCount_nil : onCount nc [] = 0 := rfl
@[simp] theorem offCount_nil : offCount nc [] = 0 := rfl
@[simp] theorem onCount_append (a b : List Call) : onCount nc (a ++ b) = onCount nc a + onCount nc b := by
  simp [onCount, List.countP_append]
@[simp] theorem offCount_append (a b : List Call) : offCount nc (a ++ b) = offCount nc a + offCount nc b := by
  simp [offCount, List.countP_append]
@[simp] theorem pendOffs_nil : pendOffs nc [] = 0 := rfl
@[simp] theorem pendOffs_append (a b : List NoteOff) : pendOffs nc (a ++ b) = pendOffs nc a + pendOffs nc b := by
  simp [pendOffs, List.countP_append]
@[simp] theorem pendTracks_nil : pendTracks nc [] = 0 := rfl
@[simp] theorem pendTracks_cons (t : Track) (ts : List Track) :
    pendTracks nc (t :: ts) = pendOffs nc t.offs + pendTracks nc ts := rfl
@[simp] theorem pendTracks_append (a b : List Track) :
    pendTracks nc (a ++ b) = pendTracks nc a + pendTracks nc b := by
  induction a with
  | nil => simp
  | cons t ts ih => simp [ih]; omega

@[simp] theorem onCount_offCalls (os : List NoteOff) : onCount nc (offCalls os) = 0 := by
  induction os with
  | nil => rfl
  | cons o os ih => simp [offCalls, onCount, Call.isOn] at *

@[simp] theorem offCount_offCalls (os : List NoteOff) : offCount nc (offCalls os) = pendOffs nc os := by
  induction os with
  | nil => rfl
  | cons o os ih =>
    have h : Call.isOff nc (Call.noteOff o.note o.chan) = NoteOff.is nc o := rfl
    simp only [offCalls, List.map_cons, offCount, pendOffs, List.countP_cons, h] at *
    omega

/-- Splitting the pending list by a predicate keeps the count. -/
theorem pendOffs_filter_split (p : NoteOff → Bool) (os : List NoteOff) :
    pendOffs nc (os.filter p) + pendOffs nc (os.filter (fun o => ! p o)) = pendOffs nc os := by
  induction os with
  | nil => rfl
  | cons o os ih =>
    by_cases h : p o = true
    · simp [h, pendOffs, List.countP_cons] at *; omega
    · simp [h, pendOffs, List.countP_cons] at *; omega

theorem findTrack_id {tid : Nat} {ts : List Track} {u : Track} (h : findTrack tid ts = some u) : u.id = tid := by
  induction ts with
  | nil => simp [findTrack] at h
  | cons v vs ih =>
    simp only [findTrack] at h
    split at h
    · cases h; assumption
    · exact ih h

theorem findTrack_mem {tid : Nat} {ts : List Track} {u : Track} (h : findTrack tid ts = some u) : u ∈ ts := by
  induction ts with
  | nil => simp [findTrack] at h
  | cons v vs ih =>
    simp only [findTrack] at h
    split at h
    · cases h; simp
    · simp [ih h]

theorem pendTracks_setFirst {t u : Track} {ts : List Track} (h : findTrack t.id ts = some u) :
    pendTracks nc (setFirst t ts) + pendOffs nc u.offs = pendTracks nc ts + pendOffs nc t.offs := by
  induction ts with
  | nil => simp [findTrack] at h
  | cons v vs ih =>
    simp only [findTrack] at h
    simp only [setFirst]
    split at h
    · cases h; simp [*]; omega
    · rename_i hne; simp [hne]; have := ih h; omega

theorem pendTracks_setFirst_none {t : Track} {ts : List Track} (h : findTrack t.id ts = none) :
    setFirst t ts = ts := by
  induction ts with
  | nil => rfl
  | cons v vs ih =>
    simp only [findTrack] at h
    simp only [setFirst]
    split at h
    · cases h
    · rename_i hne; simp [hne, ih h]

theorem findTrack_setFirst {t u : Track} {ts : List Track} (h : findTrack t.id ts = some u) :
    findTrack t.id (setFirst t ts) = some t := by
  induction ts with
  | nil => simp [findTrack] at h
  | cons v vs ih =>
    simp only [findTrack] at h
    simp only [setFirst]
    split at h
    · rename_i heq; simp [heq, findTrack]
    · rename_i hne; simp [hne, findTrack, ih h]

theorem pendTracks_eraseFirst {tid : Nat} {u : Track} {ts : List Track} (h : findTrack tid ts = some u) :
    pendTracks nc (eraseFirst tid ts) + pendOffs nc u.offs = pendTracks nc ts := by
  induction ts with
  | nil => simp [findTrack] at h
  | cons v vs ih =>
    simp only [findTrack] at h
    simp only [eraseFirst]
    split at h
    · cases h; simp [*]; omega
    · rename_i hne; simp [hne]; have := ih h; omega

theorem eraseFirst_none {tid : Nat} {ts : List Track} (h : findTrack tid ts = none) :
    eraseFirst tid ts = ts := by
  induction ts with
  | nil => rfl
  | cons v vs ih =>
    simp only [findTrack] at h
    simp only [eraseFirst]
    split at h
    · cases h
    · rename_i hne; simp [hne, ih h]

/-- Replacing a track by one with the same pending list does not change the count. -/
theorem pend_setTrack_same {tl : TL} {t u : Track} (h : tl.find t.id = some u) (ho : t.offs = u.offs) :
    pend nc (tl.setTrack t) = pend nc tl := by
  have := pendTracks_setFirst (nc := nc) h
  simp only [pend, TL.setTrack]
  rw [ho] at this; omega

theorem pend_setTrack {tl : TL} {t u : Track} (h : tl.find t.id = some u) :
    pend nc (tl.setTrack t) + pendOffs nc u.offs = pend nc tl + pendOffs nc t.offs := by
  simpa [pend, TL.setTrack] using pendTracks_setFirst (nc := nc) h

theorem pend_removeTrack {tl : TL} {tid : Nat} {u : Track} (h : tl.find tid = some u) :
    pend nc (tl.removeTrack tid) + pendOffs nc u.offs = pend nc tl := by
  simpa [pend, TL.removeTrack] using pendTracks_eraseFirst (nc := nc) h

theorem find_setTrack {tl : TL} {t u : Track} (h : tl.find t.id = some u) :
    (tl.setTrack t).find t.id = some t := by
  simpa [TL.find, TL.setTrack] using findTrack_setFirst h

end IsobarV.Sched

namespace IsobarV.Sched
variable {nc : NC}

/-! ### Balance: composition -/

theorem Bal.of_pend_eq {tl tl' : TL} (h : pend nc tl' = pend nc tl) : Bal nc tl [] tl' := by
  simp [Bal, h]

theorem Bal.trans {a b c : TL} {c1 c2 : List Call} (h1 : Bal nc a c1 b) (h2 : Bal nc b c2 c) :
    Bal nc a (c1 ++ c2) c := by
  simp only [Bal, onCount_append, offCount_append] at *; omega

theorem Bal.congr_tracks {a b b' : TL} {cs : List Call} (h : Bal nc a cs b) (hb : b'.tracks = b.tracks) :
    Bal nc a cs b' := by
  simpa [Bal, pend, hb] using h

/-! ### A track is "fresh" unless it is finished and due for removal -/

def Fresh (t : Track) : Prop := ¬ (t.finished = true ∧ t.rwd = true)
def AllFresh (ts : List Track) : Prop := ∀ t ∈ ts, Fresh t

theorem AllFresh.setFirst {t : Track} {ts : List Track} (h : AllFresh ts) (ht : Fresh t) :
    AllFresh (setFirst t ts) := by
  induction ts with
  | nil => simpa [Sched.setFirst] using h
  | cons v vs ih =>
    simp only [Sched.setFirst]
    have hv : Fresh v := h v (by simp)
    have hvs : AllFresh vs := fun x hx => h x (by simp [hx])
    split
    · intro x hx; simp at hx; rcases hx with rfl | hx
      · exact ht
      · exact hvs x hx
    · intro x hx; simp at hx; rcases hx with rfl | hx
      · exact hv
      · exact ih hvs x hx

theorem AllFresh.eraseFirst {tid : Nat} {ts : List Track} (h : AllFresh ts) : AllFresh (eraseFirst tid ts) := by
  induction ts with
  | nil => simpa [Sched.eraseFirst] using h
  | cons v vs ih =>
    simp only [Sched.eraseFirst]
    have hv : Fresh v := h v (by simp)
    have hvs : AllFresh vs := fun x hx => h x (by simp [hx])
    split
    · exact hvs
    · intro x hx; simp at hx; rcases hx with rfl | hx
      · exact hv
      · exact ih hvs x hx

theorem eraseFirst_setFirst (t : Track) (ts : List Track) :
    eraseFirst t.id (setFirst t ts) = eraseFirst t.id ts := by
  induction ts with
  | nil => rfl
  | cons v vs ih =>
    simp only [Sched.setFirst, Sched.eraseFirst]
    split
    · simp [Sched.eraseFirst]
    · rename_i hne; simp [Sched.eraseFirst, hne, ih]

theorem AllFresh.find {tl : TL} {tid : Nat} {t : Track} (h : AllFresh tl.tracks) (hf : tl.find tid = some t) :
    Fresh t := h t (findTrack_mem hf)

/-! ### update / start never touch the pending list, the id, or the finished / rwd flags -/

theorem updateCore_offs (tl : TL) (t : Track) (sid : Nat) (qz dl count) :
    (updateCore tl t sid qz dl count).t.offs = t.offs ∧ (updateCore tl t sid qz dl count).t.id = t.id ∧
    (updateCore tl t sid qz dl count).t.finished = t.finished ∧ (updateCore tl t sid qz dl count).t.rwd = t.rwd := by
  unfold updateCore
  cases count <;> simp only [] <;> split <;> simp [Track.start]

theorem updateTrack_tracks (tl : TL) (t : Track) (sid : Nat) (qz dl count) :
    (tl.updateTrack t sid qz dl count).tracks = setFirst (updateCore tl t sid qz dl count).t tl.tracks := by
  simp [TL.updateTrack, TL.setTrack]

theorem pend_updateTrack {tl : TL} {t : Track} (h : tl.find t.id = some t) (sid : Nat) (qz dl count) :
    pend nc (tl.updateTrack t sid qz dl count) = pend nc tl := by
  obtain ⟨ho, hi, _, _⟩ := updateCore_offs tl t sid qz dl count
  have h' : tl.find (updateCore tl t sid qz dl count).t.id = some t := by rw [hi]; exact h
  have := pend_setTrack_same (nc := nc) h' ho
  simpa [pend, updateTrack_tracks, TL.setTrack] using this

theorem find_updateTrack {tl : TL} {t : Track} (h : tl.find t.id = some t) (sid : Nat) (qz dl count) :
    (tl.updateTrack t sid qz dl count).find t.id = some (updateCore tl t sid qz dl count).t := by
  obtain ⟨_, hi, _, _⟩ := updateCore_offs tl t sid qz dl count
  have h' : tl.find (updateCore tl t sid qz dl count).t.id = some t := by rw [hi]; exact h
  have := findTrack_setFirst h'
  simpa [TL.find, updateTrack_tracks, hi] using this

theorem fresh_updateTrack {tl : TL} {t : Track} (hA : AllFresh tl.tracks) (ht : Fresh t) (sid : Nat) (qz dl count) :
    AllFresh (tl.updateTrack t sid qz dl count).tracks := by
  obtain ⟨_, _, hf, hr⟩ := updateCore_offs tl t sid qz dl count
  rw [updateTrack_tracks]
  exact hA.setFirst (by simpa [Fresh, hf, hr] using ht)

theorem find_self_id {tl : TL} {tid : Nat} {t : Track} (h : tl.find tid = some t) : tl.find t.id = some t := by
  have := findTrack_id h; rw [this]; exact h

end IsobarV.Sched
