/-
C06 helper: with a constant non-zero `max_tracks`, no operation of the model — API call, callback
script, track tick, timeline tick — takes the number of tracks past the limit.
-/
import IsobarV.Sched.Solo

namespace IsobarV.Sched

/-- The limit is `m` and respected. -/
def LenInv (m : Nat) (tl : TL) : Prop := tl.maxTracks = m ∧ tl.tracks.length ≤ m

def Op.isSetMax : Op → Bool
  | .setMax _ => true
  | _ => false

/-- No callback of the world changes the limit. -/
def NoSetMaxW (W : World) : Prop :=
  ∀ sid pos d a ops out, W sid pos = some (.ev d a (.action ops out)) → ∀ o ∈ ops, o.isSetMax = false

theorem length_setFirst' (t : Track) (ts : List Track) : (setFirst t ts).length = ts.length := by
  induction ts with
  | nil => rfl
  | cons v vs ih => simp only [setFirst]; split <;> simp [ih]

theorem length_eraseFirst_le' (tid : Nat) (ts : List Track) : (eraseFirst tid ts).length ≤ ts.length := by
  induction ts with
  | nil => simp [eraseFirst]
  | cons v vs ih => simp only [eraseFirst]; split <;> simp <;> omega

theorem LenInv.setTrack {m : Nat} {tl : TL} (h : LenInv m tl) (t : Track) : LenInv m (tl.setTrack t) := by
  obtain ⟨h1, h2⟩ := h
  exact ⟨h1, by simpa [TL.setTrack, length_setFirst'] using h2⟩

theorem LenInv.removeTrack {m : Nat} {tl : TL} (h : LenInv m tl) (tid : Nat) : LenInv m (tl.removeTrack tid) := by
  obtain ⟨h1, h2⟩ := h
  refine ⟨h1, ?_⟩
  have := length_eraseFirst_le' tid tl.tracks
  simp only [TL.removeTrack]; omega

theorem applyOp_len {m : Nat} (hm : m ≠ 0) (tl : TL) (op : Op) (h : LenInv m tl) (hop : op.isSetMax = false) :
    LenInv m (applyOp tl op).tl := by
  obtain ⟨h1, h2⟩ := h
  cases op with
  | schedule sid qz dl count rwd name replace =>
    simp only [applyOp]
    split
    · split <;> simp [LenInv, TL.updateTrack, TL.setTrack, length_setFirst', h1, h2]
    · split
      · exact ⟨h1, h2⟩
      · rename_i hc
        refine ⟨h1, ?_⟩
        simp only [List.length_append, List.length_singleton]
        by_cases hle : tl.maxTracks ≤ tl.tracks.length
        · exact absurd ⟨by rw [h1]; exact hm, hle⟩ hc
        · omega
  | scheduleAt idx sid qz dl count rwd =>
    simp only [applyOp]
    split
    · exact ⟨h1, h2⟩
    · rename_i hc
      refine ⟨h1, ?_⟩
      simp only [List.length_append, List.length_cons, List.length_take, List.length_drop]
      by_cases hle : tl.maxTracks ≤ tl.tracks.length
      · exact absurd ⟨by rw [h1]; exact hm, hle⟩ hc
      · omega
  | update tid sid qz dl count =>
    simp only [applyOp]; split <;> simp [LenInv, TL.updateTrack, TL.setTrack, length_setFirst', h1, h2]
  | unschedule tid =>
    simp only [applyOp]; split
    · exact LenInv.removeTrack ⟨h1, h2⟩ tid
    · exact ⟨h1, h2⟩
  | clear => simp [applyOp, LenInv, h1]
  | mute tid => simp only [applyOp]; split <;> simp [LenInv, TL.setTrack, length_setFirst', h1, h2]
  | unmute tid => simp only [applyOp]; split <;> simp [LenInv, TL.setTrack, length_setFirst', h1, h2]
  | nudge tid x => simp only [applyOp]; split <;> simp [LenInv, TL.setTrack, length_setFirst', h1, h2]
  | setMax n => simp [Op.isSetMax] at hop
  | setDefaults qz dl => exact ⟨h1, h2⟩
  | setStopWhenDone b => exact ⟨h1, h2⟩
  | setLatency l => exact ⟨h1, h2⟩

theorem applyOps_len {m : Nat} (hm : m ≠ 0) (ops : List Op) (tl : TL) (h : LenInv m tl)
    (hops : ∀ o ∈ ops, o.isSetMax = false) : LenInv m (applyOps tl ops).tl := by
  induction ops generalizing tl with
  | nil => exact h
  | cons op ops ih =>
    have h1 := applyOp_len hm tl op h (hops op (by simp))
    simp only [applyOps]
    split
    · exact ih _ h1 (fun o ho => hops o (by simp [ho]))
    · exact h1

theorem performEvent_len {m : Nat} (hm : m ≠ 0) (tl : TL) (t : Track) (d : Nat) (a : Bool) (k : EvKind)
    (h : LenInv m tl) (hk : ∀ ops out, k = .action ops out → ∀ o ∈ ops, o.isSetMax = false) :
    LenInv m (performEvent tl t d a k).tl := by
  unfold performEvent
  split
  · exact h
  · cases k with
    | note vs => exact h.setTrack _
    | control cc v ch bad => simp only []; split <;> exact h
    | program p ch bad => simp only []; split <;> exact h
    | action ops out => exact applyOps_len hm ops tl h (hk ops out rfl)

theorem endTick_len {m : Nat} (tl : TL) (tid : Nat) (s : Bool) (h : LenInv m tl) : LenInv m (endTick tl tid s) := by
  unfold endTick; split
  · exact h
  · exact h.setTrack _

theorem tickTrack_len {m : Nat} (hm : m ≠ 0) (W : World) (hW : NoSetMaxW W) (tl : TL) (tid : Nat) (h : LenInv m tl) :
    LenInv m (tickTrack W tl tid).tl := by
  unfold tickTrack
  split
  · exact h
  · rename_i t _
    split
    · exact h
    · split
      · have hev := pullLoop_ev_from_W W tl.q (t.fuel tl.q) t .stop
        generalize Track.pullLoop W tl.q (t.fuel tl.q) t .stop = p at hev
        unfold afterPull
        split
        · exact h.setTrack _
        · exact h.setTrack _
        · exact endTick_len _ _ _ (h.setTrack _)
        · rename_i d a k hr
          have hk : ∀ ops out, k = .action ops out → ∀ o ∈ ops, o.isSetMax = false := by
            intro ops out hk'
            rcases hev d a k hr with hh | ⟨sid, pos, hh⟩
            · cases hh
            · exact hW sid pos d a ops out (hk' ▸ hh)
          have hp := performEvent_len hm (tl.setTrack p.t) p.t d a k (h.setTrack _) hk
          split
          · exact hp
          · exact endTick_len _ _ _ hp
      · exact endTick_len _ _ _ h

theorem dropFinished_len {m : Nat} (tl : TL) (tid : Nat) (h : LenInv m tl) : LenInv m (dropFinished tl tid) := by
  unfold dropFinished
  split
  · split
    · exact h.removeTrack _
    · exact h
  · exact h

theorem phaseTracks_len {m : Nat} (hm : m ≠ 0) (W : World) (hW : NoSetMaxW W) (ids : List Nat) (tl : TL) (h : LenInv m tl) :
    LenInv m (phaseTracks W tl ids).tl := by
  induction ids generalizing tl with
  | nil => exact h
  | cons tid rest ih =>
    have h1 := tickTrack_len hm W hW tl tid h
    simp only [phaseTracks]
    split
    · exact h1
    · split
      · exact ih _ (h1.removeTrack _)
      · exact h1
    · exact ih _ (dropFinished_len _ _ h1)

theorem foldl_fireOne_len {m : Nat} (as : List PAct) (tl : TL) (h : LenInv m tl) : LenInv m (as.foldl fireOne tl) := by
  induction as generalizing tl with
  | nil => exact h
  | cons a as ih =>
    apply ih
    unfold fireOne; split
    · exact h.setTrack _
    · exact h

theorem tickTL_len {m : Nat} (hm : m ≠ 0) (W : World) (hW : NoSetMaxW W) (tl : TL) (h : LenInv m tl) :
    LenInv m (tickTL W tl).tl := by
  have h0 : LenInv m (phaseOffs tl) := by
    obtain ⟨h1, h2⟩ := h
    exact ⟨h1, by simpa [phaseOffs] using h2⟩
  have h1 : LenInv m (fireActions (phaseOffs tl)) := by
    have := foldl_fireOne_len ((phaseOffs tl).actions.filter (PAct.due (phaseOffs tl))) (phaseOffs tl) h0
    obtain ⟨a, b⟩ := this
    exact ⟨by simpa [fireActions] using a, by simpa [fireActions] using b⟩
  have h2 := phaseTracks_len hm W hW ((fireActions (phaseOffs tl)).tracks.map Track.id) _ h1
  unfold tickTL
  simp only []
  generalize phaseTracks W (fireActions (phaseOffs tl)) ((fireActions (phaseOffs tl)).tracks.map Track.id) = r at h2
  unfold endOfTick
  split
  · split
    · exact h2
    · exact h2
  · exact h2

end IsobarV.Sched
