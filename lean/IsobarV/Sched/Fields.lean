/-
Configuration fields (`q`, `tolerant`) are never changed by API calls, callbacks or ticks.
-/
import IsobarV.Sched.Model

namespace IsobarV.Sched

/-- The part of the timeline configuration that no operation of the model changes. -/
def SameCfg (a b : TL) : Prop := b.q = a.q ∧ b.tolerant = a.tolerant ∧ b.now = a.now

theorem SameCfg.refl (a : TL) : SameCfg a a := ⟨rfl, rfl, rfl⟩
theorem SameCfg.trans {a b c : TL} (h1 : SameCfg a b) (h2 : SameCfg b c) : SameCfg a c :=
  ⟨h2.1.trans h1.1, h2.2.1.trans h1.2.1, h2.2.2.trans h1.2.2⟩

theorem sameCfg_setTrack (tl : TL) (t : Track) : SameCfg tl (tl.setTrack t) := ⟨rfl, rfl, rfl⟩
theorem sameCfg_removeTrack (tl : TL) (tid : Nat) : SameCfg tl (tl.removeTrack tid) := ⟨rfl, rfl, rfl⟩
theorem sameCfg_updateTrack (tl : TL) (t : Track) (sid : Nat) (qz dl count) :
    SameCfg tl (tl.updateTrack t sid qz dl count) := ⟨rfl, rfl, rfl⟩

theorem applyOp_cfg (tl : TL) (op : Op) : SameCfg tl (applyOp tl op).tl := by
  cases op <;> simp only [applyOp] <;> (try split) <;> (try split) <;> (try split) <;>
    first | exact SameCfg.refl _ | exact ⟨rfl, rfl, rfl⟩

theorem applyOps_cfg (tl : TL) (ops : List Op) : SameCfg tl (applyOps tl ops).tl := by
  induction ops generalizing tl with
  | nil => exact SameCfg.refl _
  | cons op ops ih =>
    simp only [applyOps]
    split
    · exact (applyOp_cfg tl op).trans (ih _)
    · exact applyOp_cfg tl op

theorem performEvent_cfg (tl : TL) (t : Track) (d : Nat) (a : Bool) (k : EvKind) :
    SameCfg tl (performEvent tl t d a k).tl := by
  unfold performEvent
  split
  · exact SameCfg.refl _
  · cases k with
    | note vs => exact ⟨rfl, rfl, rfl⟩
    | control cc v ch bad => simp only []; split <;> exact SameCfg.refl _
    | program p ch bad => simp only []; split <;> exact SameCfg.refl _
    | action ops out => exact applyOps_cfg tl ops

theorem endTick_cfg (tl : TL) (tid : Nat) (s : Bool) : SameCfg tl (endTick tl tid s) := by
  unfold endTick; split <;> first | exact SameCfg.refl _ | exact ⟨rfl, rfl, rfl⟩

theorem afterPull_cfg (tl : TL) (tid : Nat) (p : PullRes) : SameCfg tl (afterPull tl tid p).tl := by
  unfold afterPull
  split
  · exact ⟨rfl, rfl, rfl⟩
  · exact ⟨rfl, rfl, rfl⟩
  · exact (sameCfg_setTrack tl p.t).trans (endTick_cfg _ _ _)
  · split
    · exact (sameCfg_setTrack tl p.t).trans (performEvent_cfg _ _ _ _ _)
    · exact ((sameCfg_setTrack tl p.t).trans (performEvent_cfg _ _ _ _ _)).trans (endTick_cfg _ _ _)

theorem tickTrack_cfg (W : World) (tl : TL) (tid : Nat) : SameCfg tl (tickTrack W tl tid).tl := by
  unfold tickTrack
  split
  · exact SameCfg.refl _
  · split
    · exact SameCfg.refl _
    · split
      · exact afterPull_cfg _ _ _
      · exact endTick_cfg _ _ _

theorem dropFinished_cfg (tl : TL) (tid : Nat) : SameCfg tl (dropFinished tl tid) := by
  unfold dropFinished
  split
  · split
    · exact ⟨rfl, rfl, rfl⟩
    · exact SameCfg.refl _
  · exact SameCfg.refl _

theorem phaseTracks_cfg (W : World) (ids : List Nat) (tl : TL) : SameCfg tl (phaseTracks W tl ids).tl := by
  induction ids generalizing tl with
  | nil => exact SameCfg.refl _
  | cons tid rest ih =>
    simp only [phaseTracks]
    split
    · exact tickTrack_cfg W tl tid
    · split
      · exact ((tickTrack_cfg W tl tid).trans (sameCfg_removeTrack _ _)).trans (ih _)
      · exact tickTrack_cfg W tl tid
    · exact ((tickTrack_cfg W tl tid).trans (dropFinished_cfg _ _)).trans (ih _)

/-- The track phase ends normally, with an escaped exception, or (outside the modelled domain) diverges. -/
theorem phaseTracks_res (W : World) (ids : List Nat) (tl : TL) :
    (phaseTracks W tl ids).res = .ok ∨ (phaseTracks W tl ids).res = .raised ∨ (phaseTracks W tl ids).res = .diverged := by
  induction ids generalizing tl with
  | nil => simp [phaseTracks]
  | cons tid rest ih =>
    simp only [phaseTracks]
    split
    · simp
    · split
      · exact ih _
      · simp
    · exact ih _

end IsobarV.Sched
