/-
Helper definitions and lemmas for C07 / C17: in a world without action callbacks a track's tick is a
function of that track alone (`soloTick`), and the track phase of a timeline tick is the per-track
function applied track by track (`soloPhase`).
-/
import IsobarV.Sched.BalanceOps

namespace IsobarV.Sched

/-- No stream of the world contains an action event (tracks cannot call the timeline API). -/
def NoActions (W : World) : Prop := ∀ sid pos d a ops out, W sid pos ≠ some (.ev d a (.action ops out))

structure SoloRes where
  t : Track
  calls : List Call
  out : TickOut
  deriving Repr

structure PerfSolo where
  t : Track
  calls : List Call
  raised : Bool
  deriving Repr

/-- `perform_event` for a non-action event, as a function of the track alone. -/
def performSolo (q : Nat) (t : Track) (active : Bool) (k : EvKind) : PerfSolo :=
  if active = false ∨ t.muted = true then { t := t, calls := [], raised := false }
  else match k with
    | .note vs =>
      { t := { t with offs := t.offs ++ (performVoices (t.cur * q) vs).offs },
        calls := (performVoices (t.cur * q) vs).calls, raised := (performVoices (t.cur * q) vs).raised }
    | .control cc v ch bad => if bad then { t := t, calls := [], raised := true } else { t := t, calls := [Call.control cc v ch], raised := false }
    | .program p ch bad => if bad then { t := t, calls := [], raised := true } else { t := t, calls := [Call.program p ch], raised := false }
    | .action _ _ => { t := t, calls := [], raised := false }

/-- The tail of `Track.tick` on the track alone. -/
def endSolo (t : Track) (stopped : Bool) : Track :=
  { t with finished := (if stopped then t.finished || t.offs.isEmpty else t.finished), cur := t.cur + 1 }

/-- `Track.tick` as a function of the track alone (worlds without action callbacks). -/
def soloAfterPull (q : Nat) (p : PullRes) : SoloRes :=
  match p.r with
  | .raised => { t := p.t, calls := [], out := .raised }
  | .diverged => { t := p.t, calls := [], out := .diverged }
  | .stop => { t := endSolo p.t true, calls := [], out := .ok }
  | .ev _ a k =>
    if (performSolo q p.t a k).raised then { t := (performSolo q p.t a k).t, calls := (performSolo q p.t a k).calls, out := .raised }
    else { t := endSolo (performSolo q p.t a k).t false, calls := (performSolo q p.t a k).calls, out := .ok }

def soloTick (W : World) (q : Nat) (t : Track) : SoloRes :=
  if t.started = false then { t := t, calls := [], out := .ok }
  else if t.nxt ≤ (t.cur * q : Nat) then soloAfterPull q (Track.pullLoop W q (t.fuel q) t .stop)
  else { t := endSolo t false, calls := [], out := .ok }

/-! ### list lemmas -/

theorem setFirst_self {t : Track} {ts : List Track} (h : findTrack t.id ts = some t) : setFirst t ts = ts := by
  induction ts with
  | nil => rfl
  | cons v vs ih =>
    simp only [findTrack] at h
    simp only [setFirst]
    split at h
    · rename_i heq; cases h; simp
    · rename_i hne; simp [hne, ih h]

theorem setFirst_setFirst {a b : Track} (ts : List Track) (hab : a.id = b.id) :
    setFirst b (setFirst a ts) = setFirst b ts := by
  induction ts with
  | nil => rfl
  | cons v vs ih =>
    simp only [setFirst]
    by_cases h : v.id = a.id
    · simp [h, hab, setFirst]
    · have h' : ¬ v.id = b.id := by rw [← hab]; exact h
      simp [h, h', setFirst, ih]

theorem setTrack_self {tl : TL} {t : Track} (h : tl.find t.id = some t) : tl.setTrack t = tl := by
  have := setFirst_self (ts := tl.tracks) h
  cases tl; simp_all [TL.setTrack]

theorem setTrack_setTrack (tl : TL) {a b : Track} (hab : a.id = b.id) :
    (tl.setTrack a).setTrack b = tl.setTrack b := by
  simp [TL.setTrack, setFirst_setFirst _ hab]

/-! ### the pulled event comes from the world -/

theorem getNext_ev_from_W (W : World) (t : Track) (d : Nat) (a : Bool) (k : EvKind)
    (h : (t.getNext W).r = .ev d a k) : ∃ sid pos, W sid pos = some (.ev d a k) := by
  unfold Track.getNext at h
  split at h
  · cases h
  · split at h
    · cases h
    · cases h
    · cases h
    · rename_i d' a' k' hw
      simp only [Pull.ev.injEq] at h
      obtain ⟨rfl, rfl, rfl⟩ := h
      exact ⟨_, _, hw⟩

theorem pullLoop_ev_from_W (W : World) (q fuel : Nat) (t : Track) (last : Pull) (d : Nat) (a : Bool) (k : EvKind)
    (h : (Track.pullLoop W q fuel t last).r = .ev d a k) :
    last = .ev d a k ∨ ∃ sid pos, W sid pos = some (.ev d a k) := by
  induction fuel generalizing t last with
  | zero => simp [Track.pullLoop] at h
  | succ n ih =>
    simp only [Track.pullLoop] at h
    split at h
    · split at h
      · rename_i d' a' k' hg
        rcases ih _ _ h with h1 | h1
        · right
          simp only [Pull.ev.injEq] at h1
          obtain ⟨rfl, rfl, rfl⟩ := h1
          exact getNext_ev_from_W W t _ _ _ hg
        · exact Or.inr h1
      · cases h
      · cases h
      · cases h
    · exact Or.inl h

/-! ### a track tick in the timeline = the solo tick written back -/

theorem performEvent_solo (tl : TL) (t : Track) (d : Nat) (a : Bool) (k : EvKind) (hf : tl.find t.id = some t)
    (hk : ∀ ops out, k ≠ .action ops out) :
    (performEvent tl t d a k).tl = tl.setTrack (performSolo tl.q t a k).t ∧
    (performEvent tl t d a k).calls = (performSolo tl.q t a k).calls ∧
    (performEvent tl t d a k).raised = (performSolo tl.q t a k).raised ∧
    (performEvent tl t d a k).stopped = false := by
  unfold performEvent performSolo
  split
  · exact ⟨(setTrack_self hf).symm, rfl, rfl, rfl⟩
  · cases k with
    | note vs => exact ⟨rfl, rfl, rfl, rfl⟩
    | control cc v ch bad => simp only []; split <;> exact ⟨(setTrack_self hf).symm, rfl, rfl, rfl⟩
    | program p ch bad => simp only []; split <;> exact ⟨(setTrack_self hf).symm, rfl, rfl, rfl⟩
    | action ops out => exact absurd rfl (hk ops out)

theorem endTick_solo (tl : TL) (tid : Nat) (t : Track) (stopped : Bool) (hf : tl.find tid = some t) :
    endTick tl tid stopped = tl.setTrack (endSolo t stopped) := by
  simp [endTick, hf, endSolo]

theorem performSolo_id (q : Nat) (t : Track) (a : Bool) (k : EvKind) : (performSolo q t a k).t.id = t.id := by
  unfold performSolo
  split
  · rfl
  · cases k <;> simp only [] <;> (try split) <;> rfl

theorem tickTrack_solo (W : World) (hW : NoActions W) (tl : TL) (tid : Nat) (t : Track) (hf : tl.find tid = some t) :
    tickTrack W tl tid =
      { tl := tl.setTrack (soloTick W tl.q t).t, calls := (soloTick W tl.q t).calls, out := (soloTick W tl.q t).out } := by
  have hid := findTrack_id hf
  have hft := find_self_id hf
  unfold tickTrack soloTick
  simp only [hf]
  split
  · simp [setTrack_self hft]
  · split
    · -- pull
      have hs := pullLoop_same W tl.q (t.fuel tl.q) t .stop
      have hev := pullLoop_ev_from_W W tl.q (t.fuel tl.q) t .stop
      generalize Track.pullLoop W tl.q (t.fuel tl.q) t .stop = p at hs hev
      obtain ⟨s1, _⟩ := hs
      have hfind1 : (tl.setTrack p.t).find p.t.id = some p.t := find_setTrack (by rw [s1]; exact hft)
      have hfind1' : (tl.setTrack p.t).find tid = some p.t := by rw [← hid, ← s1]; exact hfind1
      unfold afterPull soloAfterPull
      cases hr : p.r with
      | raised => rfl
      | diverged => rfl
      | stop =>
        simp only [endTick_solo _ _ _ _ hfind1']
        rw [setTrack_setTrack]; simp [endSolo]
      | ev d a k =>
        have hk : ∀ ops out, k ≠ .action ops out := by
          intro ops out hk'
          rcases hev d a k hr with h | ⟨sid, pos, h⟩
          · cases h
          · exact hW sid pos d a ops out (hk' ▸ h)
        obtain ⟨e1, e2, e3, e4⟩ := performEvent_solo (tl.setTrack p.t) p.t d a k hfind1 hk
        have hq : (tl.setTrack p.t).q = tl.q := rfl
        simp only [e1, e2, e3, e4, hq]
        have hpid := performSolo_id tl.q p.t a k
        split
        · rw [setTrack_setTrack _ hpid.symm]
        · have hfind2 : ((tl.setTrack p.t).setTrack (performSolo tl.q p.t a k).t).find tid = some (performSolo tl.q p.t a k).t := by
            have : (tl.setTrack p.t).find (performSolo tl.q p.t a k).t.id = some p.t := by rw [hpid]; exact hfind1
            have := find_setTrack this
            rw [hpid, s1, hid] at this; exact this
          simp only [endTick_solo _ _ _ _ hfind2]
          rw [setTrack_setTrack _ (by simp [endSolo]), setTrack_setTrack _ (by simp [endSolo, hpid])]
    · simp only [endTick_solo _ _ _ _ hf]

end IsobarV.Sched

namespace IsobarV.Sched

/-! ### the track phase, track by track -/

structure PhaseRes where
  tracks : List Track
  calls : List Call
  res : Res
  deriving Repr

/-- The track phase of `Timeline.tick` as a function of the tracks alone (no callbacks): each track's
    solo tick in order; a finished track is dropped; a faulting track is dropped and its notes released
    (tolerant) or stops the phase (intolerant). -/
def soloPhase (W : World) (q : Nat) (tolerant : Bool) : List Track → PhaseRes
  | [] => { tracks := [], calls := [], res := .ok }
  | t :: ts =>
    match (soloTick W q t).out with
    | .diverged => { tracks := (soloTick W q t).t :: ts, calls := (soloTick W q t).calls, res := .diverged }
    | .raised =>
      if tolerant then
        { tracks := (soloPhase W q tolerant ts).tracks,
          calls := (soloTick W q t).calls ++ (soloTick W q t).t.flushCalls ++ (soloPhase W q tolerant ts).calls,
          res := (soloPhase W q tolerant ts).res }
      else { tracks := (soloTick W q t).t :: ts, calls := (soloTick W q t).calls, res := .raised }
    | .ok =>
      { tracks := (if (soloTick W q t).t.finished ∧ (soloTick W q t).t.rwd then [] else [(soloTick W q t).t]) ++
                  (soloPhase W q tolerant ts).tracks,
        calls := (soloTick W q t).calls ++ (soloPhase W q tolerant ts).calls,
        res := (soloPhase W q tolerant ts).res }

theorem findTrack_append_right {tid : Nat} {done rest : List Track} (h : ∀ u ∈ done, u.id ≠ tid) :
    findTrack tid (done ++ rest) = findTrack tid rest := by
  induction done with
  | nil => rfl
  | cons v vs ih =>
    have hv := h v (by simp)
    simp only [List.cons_append, findTrack, hv, if_false]
    exact ih (fun u hu => h u (by simp [hu]))

theorem setFirst_append_right {t : Track} {done rest : List Track} (h : ∀ u ∈ done, u.id ≠ t.id) :
    setFirst t (done ++ rest) = done ++ setFirst t rest := by
  induction done with
  | nil => rfl
  | cons v vs ih =>
    have hv := h v (by simp)
    simp only [List.cons_append, setFirst, hv, if_false]
    rw [ih (fun u hu => h u (by simp [hu]))]

theorem eraseFirst_append_right {tid : Nat} {done rest : List Track} (h : ∀ u ∈ done, u.id ≠ tid) :
    eraseFirst tid (done ++ rest) = done ++ eraseFirst tid rest := by
  induction done with
  | nil => rfl
  | cons v vs ih =>
    have hv := h v (by simp)
    simp only [List.cons_append, eraseFirst, hv, if_false]
    rw [ih (fun u hu => h u (by simp [hu]))]

theorem soloTick_id (W : World) (q : Nat) (t : Track) : (soloTick W q t).t.id = t.id := by
  unfold soloTick
  split
  · rfl
  · split
    · have hs := (pullLoop_same W q (t.fuel q) t .stop).1
      generalize Track.pullLoop W q (t.fuel q) t .stop = p at hs
      unfold soloAfterPull
      split
      · exact hs
      · exact hs
      · simpa [endSolo] using hs
      · split
        · rw [performSolo_id]; exact hs
        · simp only [endSolo]; rw [performSolo_id]; exact hs
    · rfl

/-- Fields of the timeline other than the track list. -/
def SameRest (a b : TL) : Prop :=
  b.q = a.q ∧ b.now = a.now ∧ b.actions = a.actions ∧ b.nextId = a.nextId ∧ b.maxTracks = a.maxTracks ∧
  b.stopWhenDone = a.stopWhenDone ∧ b.tolerant = a.tolerant ∧ b.defQz = a.defQz ∧ b.defDl = a.defDl ∧ b.latency = a.latency

theorem SameRest.refl (a : TL) : SameRest a a := ⟨rfl, rfl, rfl, rfl, rfl, rfl, rfl, rfl, rfl, rfl⟩
theorem SameRest.trans {a b c : TL} (h1 : SameRest a b) (h2 : SameRest b c) : SameRest a c := by
  obtain ⟨a1, a2, a3, a4, a5, a6, a7, a8, a9, a10⟩ := h1
  obtain ⟨b1, b2, b3, b4, b5, b6, b7, b8, b9, b10⟩ := h2
  exact ⟨b1.trans a1, b2.trans a2, b3.trans a3, b4.trans a4, b5.trans a5, b6.trans a6, b7.trans a7, b8.trans a8,
    b9.trans a9, b10.trans a10⟩

/-- **The track phase decomposes.**  In a world without callbacks, for a timeline whose track ids
    are unique, ticking the tracks `rest` (those not yet served; `done` = already served) gives exactly
    the per-track function applied in order. -/
theorem phaseTracks_solo (W : World) (hW : NoActions W) (rest : List Track) :
    ∀ (done : List Track) (tl : TL), tl.tracks = done ++ rest → ((done ++ rest).map Track.id).Nodup →
      (phaseTracks W tl (rest.map Track.id)).tl.tracks = done ++ (soloPhase W tl.q tl.tolerant rest).tracks ∧
      (phaseTracks W tl (rest.map Track.id)).calls = (soloPhase W tl.q tl.tolerant rest).calls ∧
      (phaseTracks W tl (rest.map Track.id)).res = (soloPhase W tl.q tl.tolerant rest).res ∧
      SameRest tl (phaseTracks W tl (rest.map Track.id)).tl := by
  induction rest with
  | nil =>
    intro done tl htr _
    simp [phaseTracks, soloPhase, htr, SameRest.refl]
  | cons t ts ih =>
    intro done tl htr hnd
    have hdone : ∀ u ∈ done, u.id ≠ t.id := by
      intro u hu heq
      rw [List.map_append, List.nodup_append] at hnd
      exact hnd.2.2 u.id (List.mem_map.mpr ⟨u, hu, rfl⟩) t.id (by simp) heq
    have hfind : tl.find t.id = some t := by
      simp only [TL.find, htr, findTrack_append_right hdone, findTrack, if_true]
    have hstep := tickTrack_solo W hW tl t.id t hfind
    have hsid := soloTick_id W tl.q t
    have htr1 : (tl.setTrack (soloTick W tl.q t).t).tracks = done ++ (soloTick W tl.q t).t :: ts := by
      simp only [TL.setTrack, htr]
      rw [setFirst_append_right (by rw [hsid]; exact hdone)]
      simp [setFirst, hsid]
    have hfind1 : (tl.setTrack (soloTick W tl.q t).t).find t.id = some (soloTick W tl.q t).t := by
      simp only [TL.find, htr1, findTrack_append_right hdone, findTrack, hsid, if_true]
    have hnd_ts : ((done ++ ts).map Track.id).Nodup := by
      have : ((done ++ t :: ts).map Track.id) = done.map Track.id ++ t.id :: ts.map Track.id := by simp
      rw [this] at hnd
      have := hnd.sublist (List.Sublist.append (List.Sublist.refl _) (List.sublist_cons_self _ _))
      simpa using this
    have hnd_keep : (((done ++ [(soloTick W tl.q t).t]) ++ ts).map Track.id).Nodup := by
      simpa [hsid] using hnd
    simp only [List.map_cons, phaseTracks, soloPhase, hstep]
    cases hout : (soloTick W tl.q t).out with
    | diverged =>
      simp only []
      refine ⟨htr1, ?_, ?_, ?_⟩ <;> first | rfl | trivial | exact ⟨rfl, rfl, rfl, rfl, rfl, rfl, rfl, rfl, rfl, rfl⟩
    | raised =>
      simp only []
      by_cases htol : tl.tolerant = true
      · simp only [htol, if_true]
        have htr2 : ((tl.setTrack (soloTick W tl.q t).t).removeTrack t.id).tracks = done ++ ts := by
          simp only [TL.removeTrack, htr1]
          rw [eraseFirst_append_right hdone]
          simp [eraseFirst, hsid]
        obtain ⟨i1, i2, i3, i4⟩ := ih done _ htr2 hnd_ts
        have hq : ((tl.setTrack (soloTick W tl.q t).t).removeTrack t.id).q = tl.q := rfl
        have ht : ((tl.setTrack (soloTick W tl.q t).t).removeTrack t.id).tolerant = tl.tolerant := rfl
        rw [hq, ht, htol] at i1 i2 i3
        refine ⟨i1, ?_, i3, SameRest.trans ⟨rfl, rfl, rfl, rfl, rfl, rfl, rfl, rfl, rfl, rfl⟩ i4⟩
        simp only [flushOf, hfind1, i2]
      · have htol' : tl.tolerant = false := by simpa using htol
        simp only [htol', Bool.false_eq_true, if_false]
        refine ⟨htr1, ?_, ?_, ?_⟩ <;> first | rfl | trivial | exact ⟨rfl, rfl, rfl, rfl, rfl, rfl, rfl, rfl, rfl, rfl⟩
    | ok =>
      simp only []
      by_cases hfin : (soloTick W tl.q t).t.finished = true ∧ (soloTick W tl.q t).t.rwd = true
      · have hdrop : dropFinished (tl.setTrack (soloTick W tl.q t).t) t.id
            = (tl.setTrack (soloTick W tl.q t).t).removeTrack t.id := by
          simp [dropFinished, hfind1, hfin]
        have htr2 : ((tl.setTrack (soloTick W tl.q t).t).removeTrack t.id).tracks = done ++ ts := by
          simp only [TL.removeTrack, htr1]
          rw [eraseFirst_append_right hdone]
          simp [eraseFirst, hsid]
        obtain ⟨i1, i2, i3, i4⟩ := ih done _ htr2 hnd_ts
        have hq : ((tl.setTrack (soloTick W tl.q t).t).removeTrack t.id).q = tl.q := rfl
        have ht : ((tl.setTrack (soloTick W tl.q t).t).removeTrack t.id).tolerant = tl.tolerant := rfl
        rw [hq, ht] at i1 i2 i3
        rw [hdrop]
        simp only [hfin, and_self, if_true, List.nil_append]
        exact ⟨i1, by rw [i2], i3, SameRest.trans ⟨rfl, rfl, rfl, rfl, rfl, rfl, rfl, rfl, rfl, rfl⟩ i4⟩
      · have hdrop : dropFinished (tl.setTrack (soloTick W tl.q t).t) t.id = tl.setTrack (soloTick W tl.q t).t := by
          simp [dropFinished, hfind1, hfin]
        have htr2 : (tl.setTrack (soloTick W tl.q t).t).tracks = (done ++ [(soloTick W tl.q t).t]) ++ ts := by
          simp [htr1]
        obtain ⟨i1, i2, i3, i4⟩ := ih (done ++ [(soloTick W tl.q t).t]) _ htr2 hnd_keep
        have hq : (tl.setTrack (soloTick W tl.q t).t).q = tl.q := rfl
        have ht : (tl.setTrack (soloTick W tl.q t).t).tolerant = tl.tolerant := rfl
        rw [hq, ht] at i1 i2 i3
        rw [hdrop]
        simp only [hfin, if_false]
        refine ⟨by simpa using i1, by rw [i2], i3, SameRest.trans ⟨rfl, rfl, rfl, rfl, rfl, rfl, rfl, rfl, rfl, rfl⟩ i4⟩

end IsobarV.Sched

namespace IsobarV.Sched

/-! ### pending starts, track by track -/

/-- The effect of one due start action on one track. -/
def startIf (q : Nat) (a : PAct) (t : Track) : Track := if t.id = a.tid then t.start q a.sid else t

/-- The effect of the due start actions (request order) on one track. -/
def applyStarts (q : Nat) (as : List PAct) (t : Track) : Track := as.foldl (fun t a => startIf q a t) t

theorem startIf_id (q : Nat) (a : PAct) (t : Track) : (startIf q a t).id = t.id := by
  unfold startIf; split <;> simp [Track.start]

theorem map_startIf_of_no_match {q : Nat} {a : PAct} {ts : List Track} (h : ∀ u ∈ ts, u.id ≠ a.tid) :
    ts.map (startIf q a) = ts := by
  induction ts with
  | nil => rfl
  | cons v vs ih =>
    have hv := h v (by simp)
    simp [startIf, hv, ih (fun u hu => h u (by simp [hu]))]

theorem fireOne_tracks (tl : TL) (a : PAct) (hnd : (tl.tracks.map Track.id).Nodup) :
    (fireOne tl a).tracks = tl.tracks.map (startIf tl.q a) := by
  unfold fireOne
  cases hf : tl.find a.tid with
  | none =>
    simp only []
    symm
    apply map_startIf_of_no_match
    intro u hu heq
    have : ∀ ts : List Track, findTrack a.tid ts = none → ∀ u ∈ ts, u.id ≠ a.tid := by
      intro ts
      induction ts with
      | nil => intro _ u hu; simp at hu
      | cons v vs ih =>
        intro h u hu
        simp only [findTrack] at h
        split at h
        · cases h
        · rename_i hne
          simp only [List.mem_cons] at hu
          rcases hu with rfl | hu
          · exact hne
          · exact ih h u hu
    exact this tl.tracks hf u hu heq
  | some t =>
    simp only [TL.setTrack]
    have : ∀ ts : List Track, (ts.map Track.id).Nodup → findTrack a.tid ts = some t →
        setFirst (t.start tl.q a.sid) ts = ts.map (startIf tl.q a) := by
      intro ts
      induction ts with
      | nil => intro _ h; simp [findTrack] at h
      | cons v vs ih =>
        intro hnd h
        simp only [List.map_cons, List.nodup_cons] at hnd
        simp only [findTrack] at h
        split at h
        · rename_i heq
          cases h
          have hrest : ∀ u ∈ vs, u.id ≠ a.tid := by
            intro u hu hid
            apply hnd.1
            rw [heq, ← hid]
            exact List.mem_map.mpr ⟨u, hu, rfl⟩
          simp [setFirst, Track.start, heq, startIf, map_startIf_of_no_match hrest]
        · rename_i hne
          have : ¬ v.id = (t.start tl.q a.sid).id := by simpa [Track.start, findTrack_id h] using hne
          simp [setFirst, this, startIf, hne, ih hnd.2 h]
    exact this tl.tracks hnd hf

theorem foldl_fireOne_tracks (as : List PAct) (tl : TL) (hnd : (tl.tracks.map Track.id).Nodup) :
    (as.foldl fireOne tl).tracks = tl.tracks.map (applyStarts tl.q as) ∧
    ((as.foldl fireOne tl).tracks.map Track.id) = tl.tracks.map Track.id ∧ SameRest tl (as.foldl fireOne tl) := by
  induction as generalizing tl with
  | nil =>
    have : (fun t => applyStarts tl.q [] t) = id := by funext t; rfl
    simp [this, SameRest.refl]
  | cons a as ih =>
    have h1 := fireOne_tracks tl a hnd
    have hids : (fireOne tl a).tracks.map Track.id = tl.tracks.map Track.id := by
      rw [h1, List.map_map]; congr 1; funext t; exact startIf_id tl.q a t
    have hq : SameRest tl (fireOne tl a) := by
      unfold fireOne; split <;> exact ⟨rfl, rfl, rfl, rfl, rfl, rfl, rfl, rfl, rfl, rfl⟩
    obtain ⟨i1, i2, i3⟩ := ih (fireOne tl a) (by rw [hids]; exact hnd)
    refine ⟨?_, i2.trans hids, hq.trans i3⟩
    rw [List.foldl_cons, i1, h1, hq.1, List.map_map]
    congr 1

end IsobarV.Sched
