/-
C01, the float side of the clock: `Timeline.time_after_tick` (fix fb10b52).

    ticks = current_time * ticks_per_beat
    if abs(ticks - round(ticks)) < 1e-6:
        return (round(ticks) + 1) / ticks_per_beat
    return current_time + tick_duration

The scheduler model counts ticks in integers; the implementation keeps `current_time` in a float.  This
file models exactly the float-sensitive part over the rationals with an ABSTRACT rounding function `fl`
(the result of every float operation is `fl` of the exact result) of which only the standard relative
error bound `|fl x - x| ≤ ε |x|` is assumed — as a hypothesis, not an axiom (IEEE-754 double, round to
nearest: ε = 2⁻⁵³).  Theorem: after `k` ticks the time is `fl (k / tpb)` — the correctly rounded
quotient, the best any float clock can do — for every `k` with `k (2ε + ε²) < 10⁻⁶`
(ε = 2⁻⁵³: k < 4.5·10⁹ ticks, 54 days at 480 PPQN and 120 bpm); the error never accumulates.
The old code (`current_time += 1 / tpb`) has no such bound: it is the recurrence `t ↦ fl (t + fl (1 / tpb))`.
-/
import Mathlib.Algebra.Order.Round
import Mathlib.Tactic.Linarith
import Mathlib.Tactic.Positivity
import Mathlib.Tactic.FieldSimp
import Mathlib.Tactic.Ring
import Mathlib.Tactic.NormNum
import Mathlib.Data.Rat.Floor

namespace IsobarV.FloatTime

/-- `Timeline.time_after_tick` with every float operation rounded by `fl`. -/
def timeAfterTick (fl : ℚ → ℚ) (tpb : ℕ) (t : ℚ) : ℚ :=
  if |fl (t * tpb) - round (fl (t * tpb))| < 1 / 1000000 then fl (((round (fl (t * tpb)) + 1 : ℤ) : ℚ) / tpb)
  else fl (t + fl (1 / tpb))

/-- The clock after `k` ticks, started at 0. -/
def clock (fl : ℚ → ℚ) (tpb : ℕ) : ℕ → ℚ
  | 0 => 0
  | k + 1 => timeAfterTick fl tpb (clock fl tpb k)

/-- One step: from the correctly rounded `k / tpb` to the correctly rounded `(k + 1) / tpb`. -/
theorem step_exact (fl : ℚ → ℚ) (ε : ℚ) (hε : 0 ≤ ε) (hfl : ∀ x, |fl x - x| ≤ ε * |x|)
    (tpb : ℕ) (htpb : 0 < tpb) (k : ℕ) (hk : (k : ℚ) * (2 * ε + ε ^ 2) < 1 / 1000000) :
    timeAfterTick fl tpb (fl ((k : ℚ) / tpb)) = fl (((k + 1 : ℕ) : ℚ) / tpb) := by
  have htq : (0 : ℚ) < tpb := by exact_mod_cast htpb
  have hkq : (0 : ℚ) ≤ k := by exact_mod_cast Nat.zero_le k
  -- the stored time
  have h1 := hfl ((k : ℚ) / tpb)
  have habs1 : |(k : ℚ) / tpb| = (k : ℚ) / tpb := abs_of_nonneg (div_nonneg hkq htq.le)
  rw [habs1] at h1
  -- times tpb
  have h2 : |fl ((k : ℚ) / tpb) * tpb - k| ≤ ε * k := by
    have : fl ((k : ℚ) / tpb) * tpb - k = (fl ((k : ℚ) / tpb) - (k : ℚ) / tpb) * tpb := by
      field_simp
    rw [this, abs_mul, abs_of_pos htq]
    calc |fl ((k : ℚ) / tpb) - (k : ℚ) / tpb| * tpb ≤ (ε * ((k : ℚ) / tpb)) * tpb :=
          mul_le_mul_of_nonneg_right h1 htq.le
      _ = ε * k := by field_simp
  -- rounded again
  have h3 := hfl (fl ((k : ℚ) / tpb) * tpb)
  have hx : |fl ((k : ℚ) / tpb) * tpb| ≤ (1 + ε) * k := by
    have := abs_sub_abs_le_abs_sub (fl ((k : ℚ) / tpb) * tpb) (k : ℚ)
    rw [abs_of_nonneg hkq] at this
    linarith
  have h4 : |fl (fl ((k : ℚ) / tpb) * tpb) - k| ≤ (k : ℚ) * (2 * ε + ε ^ 2) := by
    have e : fl (fl ((k : ℚ) / tpb) * tpb) - k =
        (fl (fl ((k : ℚ) / tpb) * tpb) - fl ((k : ℚ) / tpb) * tpb) + (fl ((k : ℚ) / tpb) * tpb - k) := by ring
    rw [e]
    have hmul : ε * |fl ((k : ℚ) / tpb) * tpb| ≤ ε * ((1 + ε) * k) := mul_le_mul_of_nonneg_left hx hε
    calc |fl (fl ((k : ℚ) / tpb) * tpb) - fl ((k : ℚ) / tpb) * tpb + (fl ((k : ℚ) / tpb) * tpb - k)|
        ≤ |fl (fl ((k : ℚ) / tpb) * tpb) - fl ((k : ℚ) / tpb) * tpb| + |fl ((k : ℚ) / tpb) * tpb - k| := abs_add_le _ _
      _ ≤ ε * ((1 + ε) * k) + ε * k := add_le_add (h3.trans hmul) h2
      _ = (k : ℚ) * (2 * ε + ε ^ 2) := by ring
  have hlt : |fl (fl ((k : ℚ) / tpb) * tpb) - k| < 1 / 1000000 := lt_of_le_of_lt h4 hk
  -- so `round` recovers the tick count
  have hround : round (fl (fl ((k : ℚ) / tpb) * tpb)) = (k : ℤ) := by
    rw [round_eq_iff]
    have := abs_lt.mp hlt
    constructor
    · push_cast; linarith [this.1]
    · push_cast; linarith [this.2]
  unfold timeAfterTick
  rw [hround]
  have hk' : ((k : ℤ) : ℚ) = (k : ℚ) := by push_cast; rfl
  rw [hk']
  rw [if_pos hlt]
  push_cast
  rfl

/-- **The tick time never drifts**: after `k` ticks the clock shows the correctly rounded `k / tpb`. -/
theorem clock_exact (fl : ℚ → ℚ) (ε : ℚ) (hε : 0 ≤ ε) (hfl : ∀ x, |fl x - x| ≤ ε * |x|) (h0 : fl 0 = 0)
    (tpb : ℕ) (htpb : 0 < tpb) (k : ℕ) (hk : (k : ℚ) * (2 * ε + ε ^ 2) < 1 / 1000000) :
    clock fl tpb k = fl ((k : ℚ) / tpb) := by
  induction k with
  | zero => simp [clock, h0]
  | succ n ih =>
    have hmono : (n : ℚ) * (2 * ε + ε ^ 2) < 1 / 1000000 := by
      have h1 : (n : ℚ) ≤ ((n + 1 : ℕ) : ℚ) := by push_cast; linarith
      have h2 : 0 ≤ 2 * ε + ε ^ 2 := by positivity
      exact lt_of_le_of_lt (mul_le_mul_of_nonneg_right h1 h2) hk
    simp only [clock]
    rw [ih hmono]
    exact step_exact fl ε hε hfl tpb htpb n hmono

/-- … hence its distance from the ideal time `k / tpb` is one rounding, whatever `k`: no accumulation. -/
theorem clock_error (fl : ℚ → ℚ) (ε : ℚ) (hε : 0 ≤ ε) (hfl : ∀ x, |fl x - x| ≤ ε * |x|) (h0 : fl 0 = 0)
    (tpb : ℕ) (htpb : 0 < tpb) (k : ℕ) (hk : (k : ℚ) * (2 * ε + ε ^ 2) < 1 / 1000000) :
    |clock fl tpb k - (k : ℚ) / tpb| ≤ ε * ((k : ℚ) / tpb) := by
  rw [clock_exact fl ε hε hfl h0 tpb htpb k hk]
  have h := hfl ((k : ℚ) / tpb)
  have htq : (0 : ℚ) < tpb := by exact_mod_cast htpb
  have hkq : (0 : ℚ) ≤ k := by exact_mod_cast Nat.zero_le k
  rwa [abs_of_nonneg (div_nonneg hkq htq.le)] at h

/-- The hypotheses are satisfiable: exact arithmetic (`fl = id`, ε = 0) … -/
example : clock id 24 100000 = (100000 : ℚ) / 24 :=
  clock_exact id 0 le_rfl (by intro x; simp) rfl 24 (by norm_num) 100000 (by norm_num)

/-- … and the bound on `k` for doubles: ε = 2⁻⁵³ admits every `k ≤ 4·10⁹`. -/
example : ((4000000000 : ℕ) : ℚ) * (2 * (1 / 2 ^ 53) + (1 / 2 ^ 53) ^ 2) < 1 / 1000000 := by norm_num

end IsobarV.FloatTime
