import IsobarV.Pat.Drv
import IsobarV.Tonal.Drv
import IsobarV.Sched.Drv

def main (args : List String) : IO UInt32 := do
  match args with
  | ["sched"] => IsobarV.Sched.Drv.main; return 0
  | ["tonal"] => IsobarV.Tonal.Drv.main; return 0
  | ["pat"] => IsobarV.Pat.Drv.main; return 0
  | _ => IO.eprintln s!"usage: driver <suite>; unknown: {args}"; return 2
