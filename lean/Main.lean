import IsobarV.Static.Drv
import IsobarV.Event.Drv
import IsobarV.Interp.Drv
import IsobarV.Clock.Drv
import IsobarV.Auto.Drv
import IsobarV.Midi.Drv
import IsobarV.Notation.Drv
import IsobarV.IO.Drv
import IsobarV.Pat.Drv
import IsobarV.Tonal.Drv
import IsobarV.Sched.Drv

def main (args : List String) : IO UInt32 := do
  match args with
  | ["sched"] => IsobarV.Sched.Drv.main; return 0
  | ["tonal"] => IsobarV.Tonal.Drv.main; return 0
  | ["pat"] => IsobarV.Pat.Drv.main; return 0
  | ["io"] => IsobarV.IO.Drv.main; return 0
  | ["notation"] => IsobarV.Notation.Drv.main; return 0
  | ["midi"] => IsobarV.Midi.Drv.main; return 0
  | ["auto"] => IsobarV.Auto.Drv.main; return 0
  | ["clock"] => IsobarV.Clock.Drv.main; return 0
  | ["interp"] => IsobarV.Interp.Drv.main; return 0
  | ["event"] => IsobarV.Event.Drv.main; return 0
  | ["static"] => IsobarV.Static.Drv.main; return 0
  | _ => IO.eprintln s!"usage: driver <suite>; unknown: {args}"; return 2
