import IsobarV.Sched.Model
import IsobarV.Util.Parse
import IsobarV.Sched.Drv
import IsobarV.Sched.Balance
import IsobarV.Sched.BalanceOps
import IsobarV.Props.C02
