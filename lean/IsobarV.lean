import IsobarV.Sched.Model
import IsobarV.Util.Parse
import IsobarV.Sched.Drv
