import subprocess, sys, shutil, os, re
R='/tmp/r-misc/isobar/pattern/'
BAK='/tmp/w-misc/scratch/bak/'
MUTS = {
 'M1-lsys-minus-2': ('lsystem.py', "                self.state -= 1\n", "                self.state -= 2\n"),
 'M2-plsystem-reset-pos-only': ('lsystem.py', '''        self.lsys = LSystem(self.rule, "N")
        self.lsys.iterate(self.depth)
''', '''        if self.lsys is None:
            self.lsys = LSystem(self.rule, "N")
            self.lsys.iterate(self.depth)
        self.lsys.pos = 0
'''),
 'M3-lsys-pop-no-restore': ('lsystem.py', "                self.state = self.stack.pop()\n", "                self.stack.pop()\n"),
 'M4-lsys-iterate-one-less': ('lsystem.py', "        for n in range(count):\n", "        for n in range(count - 1):\n"),
 'M5-pdict-reversed-keys': ('core.py', "        rv = dict([(k, Pattern.value(vdict[k])) for k in vdict])\n", "        rv = dict([(k, Pattern.value(vdict[k])) for k in reversed(list(vdict))])\n"),
 'M6-pdict-listform-endless': ('core.py', "                    self.dict[key] = PSequence([item[key] for item in value], 1)\n", "                    self.dict[key] = PSequence([item[key] for item in value])\n"),
 'M7-pdict-reset-noop': ('core.py', "    def has_key(self, key):\n        return key in self.dict\n", "    def reset(self):\n        pass\n\n    def has_key(self, key):\n        return key in self.dict\n"),
 'M8-pdictkey-get': ('core.py', "        return vdict[vkey]\n", "        return vdict.get(vkey)\n"),
 'M9-revert-fix91': ('core.py', "            return tuple([Pattern.value(element) for element in v])\n", "            return tuple(Pattern.value(element) for element in v)\n"),
 'M10-revert-fix90': ('core.py', "            elif isinstance(value, (list, tuple)):\n", "            elif isinstance(value, list):\n"),
 'M11-value-not-recursive': ('core.py', "            return Pattern.value(next(v))\n", "            return next(v)\n"),
 'M12-pdict-skip-last-stop': ('core.py', "        rv = dict([(k, Pattern.value(vdict[k])) for k in vdict])\n", "        rv = dict([(k, Pattern.value(vdict[k])) for k in sorted(vdict, key=str)])\n"),
 'M13-pdictkey-key-twice': ('core.py', "        vkey = Pattern.value(self.key)\n        return vdict[vkey]\n", "        vkey = Pattern.value(self.key)\n        vkey = Pattern.value(self.key) if isinstance(self.key, Pattern) and vkey == 'note' else vkey\n        return vdict[vkey]\n"),
}
os.makedirs(BAK, exist_ok=True)
for _f in ('core.py', 'lsystem.py'):
    shutil.copy(R + _f, BAK + _f)      # the tree with fixes 90-91 applied is the baseline


def restore():
    for f in ('core.py','lsystem.py'):
        shutil.copy(BAK+f, R+f)
names = sys.argv[1:] or list(MUTS)
for name in names:
    f, old, new = MUTS[name]
    restore()
    s = open(R+f).read()
    assert s.count(old) >= 1, name
    s = s.replace(old, new, 1) if name not in ('M12-pdict-skip-last-stop',) else s.replace(old, new, 1)
    open(R+f,'w').write(s)
    res=[]
    for prop in ('C10','C04','C09','C12'):
        env=dict(os.environ, PAT_CLASSES='lsystem,dict,dictEdge,dictKey,dictKeyPlain,constP,tupP', ISOBAR_REPO='/tmp/r-misc', VERIF_SEED='0')
        try:
            out = subprocess.run(['timeout','600','./check',prop,'--no-audit'], cwd='/tmp/w-misc', env=env, capture_output=True, text=True).stdout
        except Exception as ex:
            out = 'ERR %r' % ex
        last = [l for l in out.splitlines() if l.startswith(prop+' tier')]
        m = re.search(r'(\d+) disagreement\(s\), (\d+) violation', last[-1]) if last else None
        res.append('%s:%s' % (prop, ('d%s/v%s' % m.groups()) if m else 'NO-SUMMARY ' + out[-200:].replace('\n',' | ')))
    print(name, ' '.join(res), flush=True)
restore()
# leave no replay files of mutants behind
import glob
for fn in glob.glob('/tmp/w-misc/replays/*violation*.json'):
    os.remove(fn)
